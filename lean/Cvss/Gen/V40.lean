import Cvss.Base.Go
set_option linter.unusedVariables false
set_option maxRecDepth 100000
/-! GENERATED from package 40 — do not edit -/
namespace GenV40

/-- Get  (cvss40.go) -/
--   r0 := (Nat.shiftRight (Nat.land u0 (192 : Nat)) (6 : Nat))
--   r1 := (Nat.shiftRight (Nat.land u0 (32 : Nat)) (5 : Nat))
--   r2 := (Nat.shiftRight (Nat.land u0 (16 : Nat)) (4 : Nat))
--   r3 := (Nat.shiftRight (Nat.land u0 (12 : Nat)) (2 : Nat))
--   r4 := (Nat.land u0 (3 : Nat))
--   r5 := (Nat.shiftRight (Nat.land u1 (192 : Nat)) (6 : Nat))
--   r6 := (Nat.shiftRight (Nat.land u1 (48 : Nat)) (4 : Nat))
--   r7 := (Nat.shiftRight (Nat.land u1 (12 : Nat)) (2 : Nat))
--   r8 := (Nat.land u1 (3 : Nat))
--   r9 := (Nat.shiftRight (Nat.land u2 (192 : Nat)) (6 : Nat))
--   r10 := (Nat.shiftRight (Nat.land u2 (48 : Nat)) (4 : Nat))
--   r11 := (Nat.shiftRight (Nat.land u2 (12 : Nat)) (2 : Nat))
--   r12 := (Nat.land u2 (3 : Nat))
--   r13 := (Nat.shiftRight (Nat.land u3 (192 : Nat)) (6 : Nat))
--   r14 := (Nat.shiftRight (Nat.land u3 (48 : Nat)) (4 : Nat))
--   r15 := (Nat.shiftRight (Nat.land u3 (14 : Nat)) (1 : Nat))
--   r16 := (Nat.lor (Nat.mod (Nat.shiftLeft (Nat.land u3 (1 : Nat)) (1 : Nat)) 256) (Nat.shiftRight (Nat.land u4 (128 : Nat)) (7 : Nat)))
--   r17 := (Nat.shiftRight (Nat.land u4 (96 : Nat)) (5 : Nat))
--   r18 := (Nat.shiftRight (Nat.land u4 (24 : Nat)) (3 : Nat))
--   r19 := (Nat.shiftRight (Nat.land u4 (6 : Nat)) (1 : Nat))
--   r20 := (Nat.lor (Nat.mod (Nat.shiftLeft (Nat.land u4 (1 : Nat)) (1 : Nat)) 256) (Nat.shiftRight (Nat.land u5 (128 : Nat)) (7 : Nat)))
--   r21 := (Nat.shiftRight (Nat.land u5 (96 : Nat)) (5 : Nat))
--   r22 := (Nat.shiftRight (Nat.land u5 (24 : Nat)) (3 : Nat))
--   r23 := (Nat.shiftRight (Nat.land u5 (6 : Nat)) (1 : Nat))
--   r24 := (Nat.lor (Nat.mod (Nat.shiftLeft (Nat.land u5 (1 : Nat)) (2 : Nat)) 256) (Nat.shiftRight (Nat.land u6 (192 : Nat)) (6 : Nat)))
--   r25 := (Nat.shiftRight (Nat.land u6 (56 : Nat)) (3 : Nat))
--   r26 := (Nat.shiftRight (Nat.land u6 (6 : Nat)) (1 : Nat))
--   r27 := (Nat.lor (Nat.mod (Nat.shiftLeft (Nat.land u6 (1 : Nat)) (1 : Nat)) 256) (Nat.shiftRight (Nat.land u7 (128 : Nat)) (7 : Nat)))
--   r28 := (Nat.shiftRight (Nat.land u7 (96 : Nat)) (5 : Nat))
--   r29 := (Nat.shiftRight (Nat.land u7 (24 : Nat)) (3 : Nat))
--   r30 := (Nat.shiftRight (Nat.land u7 (6 : Nat)) (1 : Nat))
--   r31 := (Nat.lor (Nat.mod (Nat.shiftLeft (Nat.land u7 (1 : Nat)) (2 : Nat)) 256) (Nat.shiftRight (Nat.land u8 (192 : Nat)) (6 : Nat)))
def Get_core (r0 : Nat) (r1 : Nat) (r2 : Nat) (r3 : Nat) (r4 : Nat) (r5 : Nat) (r6 : Nat) (r7 : Nat) (r8 : Nat) (r9 : Nat) (r10 : Nat) (r11 : Nat) (r12 : Nat) (r13 : Nat) (r14 : Nat) (r15 : Nat) (r16 : Nat) (r17 : Nat) (r18 : Nat) (r19 : Nat) (r20 : Nat) (r21 : Nat) (r22 : Nat) (r23 : Nat) (r24 : Nat) (r25 : Nat) (r26 : Nat) (r27 : Nat) (r28 : Nat) (r29 : Nat) (r30 : Nat) (r31 : Nat) (abv : (List Nat)) : ((List Nat) × Go.Err) :=
  let r := []
  let err := Go.errNil
  cond ((Go.strEq abv ([65, 86] : List Nat) /- AV -/))
    (F64.flet r0 fun v =>
    cond ((Nat.beq v (0 : Nat)))
      (let r := ([78] : List Nat) /- N -/
      (r, err))
     (cond ((Nat.beq v (1 : Nat)))
      (let r := ([65] : List Nat) /- A -/
      (r, err))
     (cond ((Nat.beq v (2 : Nat)))
      (let r := ([76] : List Nat) /- L -/
      (r, err))
     (cond ((Nat.beq v (3 : Nat)))
      (let r := ([80] : List Nat) /- P -/
      (r, err))
     ((r, err))))))
   (cond ((Go.strEq abv ([65, 67] : List Nat) /- AC -/))
    (F64.flet r1 fun v =>
    cond ((Nat.beq v (0 : Nat)))
      (let r := ([72] : List Nat) /- H -/
      (r, err))
     (cond ((Nat.beq v (1 : Nat)))
      (let r := ([76] : List Nat) /- L -/
      (r, err))
     ((r, err))))
   (cond ((Go.strEq abv ([65, 84] : List Nat) /- AT -/))
    (F64.flet r2 fun v =>
    cond ((Nat.beq v (0 : Nat)))
      (let r := ([78] : List Nat) /- N -/
      (r, err))
     (cond ((Nat.beq v (1 : Nat)))
      (let r := ([80] : List Nat) /- P -/
      (r, err))
     ((r, err))))
   (cond ((Go.strEq abv ([80, 82] : List Nat) /- PR -/))
    (F64.flet r3 fun v =>
    cond ((Nat.beq v (0 : Nat)))
      (let r := ([72] : List Nat) /- H -/
      (r, err))
     (cond ((Nat.beq v (1 : Nat)))
      (let r := ([76] : List Nat) /- L -/
      (r, err))
     (cond ((Nat.beq v (2 : Nat)))
      (let r := ([78] : List Nat) /- N -/
      (r, err))
     ((r, err)))))
   (cond ((Go.strEq abv ([85, 73] : List Nat) /- UI -/))
    (F64.flet r4 fun v =>
    cond ((Nat.beq v (0 : Nat)))
      (let r := ([78] : List Nat) /- N -/
      (r, err))
     (cond ((Nat.beq v (1 : Nat)))
      (let r := ([80] : List Nat) /- P -/
      (r, err))
     (cond ((Nat.beq v (2 : Nat)))
      (let r := ([65] : List Nat) /- A -/
      (r, err))
     ((r, err)))))
   (cond ((Go.strEq abv ([86, 67] : List Nat) /- VC -/))
    (F64.flet r5 fun v =>
    cond ((Nat.beq v (0 : Nat)))
      (let r := ([72] : List Nat) /- H -/
      (r, err))
     (cond ((Nat.beq v (1 : Nat)))
      (let r := ([76] : List Nat) /- L -/
      (r, err))
     (cond ((Nat.beq v (2 : Nat)))
      (let r := ([78] : List Nat) /- N -/
      (r, err))
     ((r, err)))))
   (cond ((Go.strEq abv ([83, 67] : List Nat) /- SC -/))
    (F64.flet r6 fun v =>
    cond ((Nat.beq v (0 : Nat)))
      (let r := ([72] : List Nat) /- H -/
      (r, err))
     (cond ((Nat.beq v (1 : Nat)))
      (let r := ([76] : List Nat) /- L -/
      (r, err))
     (cond ((Nat.beq v (2 : Nat)))
      (let r := ([78] : List Nat) /- N -/
      (r, err))
     ((r, err)))))
   (cond ((Go.strEq abv ([86, 73] : List Nat) /- VI -/))
    (F64.flet r7 fun v =>
    cond ((Nat.beq v (0 : Nat)))
      (let r := ([72] : List Nat) /- H -/
      (r, err))
     (cond ((Nat.beq v (1 : Nat)))
      (let r := ([76] : List Nat) /- L -/
      (r, err))
     (cond ((Nat.beq v (2 : Nat)))
      (let r := ([78] : List Nat) /- N -/
      (r, err))
     ((r, err)))))
   (cond ((Go.strEq abv ([83, 73] : List Nat) /- SI -/))
    (F64.flet r8 fun v =>
    cond ((Nat.beq v (0 : Nat)))
      (let r := ([72] : List Nat) /- H -/
      (r, err))
     (cond ((Nat.beq v (1 : Nat)))
      (let r := ([76] : List Nat) /- L -/
      (r, err))
     (cond ((Nat.beq v (2 : Nat)))
      (let r := ([78] : List Nat) /- N -/
      (r, err))
     ((r, err)))))
   (cond ((Go.strEq abv ([86, 65] : List Nat) /- VA -/))
    (F64.flet r9 fun v =>
    cond ((Nat.beq v (0 : Nat)))
      (let r := ([72] : List Nat) /- H -/
      (r, err))
     (cond ((Nat.beq v (1 : Nat)))
      (let r := ([76] : List Nat) /- L -/
      (r, err))
     (cond ((Nat.beq v (2 : Nat)))
      (let r := ([78] : List Nat) /- N -/
      (r, err))
     ((r, err)))))
   (cond ((Go.strEq abv ([83, 65] : List Nat) /- SA -/))
    (F64.flet r10 fun v =>
    cond ((Nat.beq v (0 : Nat)))
      (let r := ([72] : List Nat) /- H -/
      (r, err))
     (cond ((Nat.beq v (1 : Nat)))
      (let r := ([76] : List Nat) /- L -/
      (r, err))
     (cond ((Nat.beq v (2 : Nat)))
      (let r := ([78] : List Nat) /- N -/
      (r, err))
     ((r, err)))))
   (cond ((Go.strEq abv ([69] : List Nat) /- E -/))
    (F64.flet r11 fun v =>
    cond ((Nat.beq v (0 : Nat)))
      (let r := ([88] : List Nat) /- X -/
      (r, err))
     (cond ((Nat.beq v (1 : Nat)))
      (let r := ([65] : List Nat) /- A -/
      (r, err))
     (cond ((Nat.beq v (2 : Nat)))
      (let r := ([80] : List Nat) /- P -/
      (r, err))
     (cond ((Nat.beq v (3 : Nat)))
      (let r := ([85] : List Nat) /- U -/
      (r, err))
     ((r, err))))))
   (cond ((Go.strEq abv ([67, 82] : List Nat) /- CR -/))
    (F64.flet r12 fun v =>
    cond ((Nat.beq v (0 : Nat)))
      (let r := ([88] : List Nat) /- X -/
      (r, err))
     (cond ((Nat.beq v (1 : Nat)))
      (let r := ([72] : List Nat) /- H -/
      (r, err))
     (cond ((Nat.beq v (2 : Nat)))
      (let r := ([77] : List Nat) /- M -/
      (r, err))
     (cond ((Nat.beq v (3 : Nat)))
      (let r := ([76] : List Nat) /- L -/
      (r, err))
     ((r, err))))))
   (cond ((Go.strEq abv ([73, 82] : List Nat) /- IR -/))
    (F64.flet r13 fun v =>
    cond ((Nat.beq v (0 : Nat)))
      (let r := ([88] : List Nat) /- X -/
      (r, err))
     (cond ((Nat.beq v (1 : Nat)))
      (let r := ([72] : List Nat) /- H -/
      (r, err))
     (cond ((Nat.beq v (2 : Nat)))
      (let r := ([77] : List Nat) /- M -/
      (r, err))
     (cond ((Nat.beq v (3 : Nat)))
      (let r := ([76] : List Nat) /- L -/
      (r, err))
     ((r, err))))))
   (cond ((Go.strEq abv ([65, 82] : List Nat) /- AR -/))
    (F64.flet r14 fun v =>
    cond ((Nat.beq v (0 : Nat)))
      (let r := ([88] : List Nat) /- X -/
      (r, err))
     (cond ((Nat.beq v (1 : Nat)))
      (let r := ([72] : List Nat) /- H -/
      (r, err))
     (cond ((Nat.beq v (2 : Nat)))
      (let r := ([77] : List Nat) /- M -/
      (r, err))
     (cond ((Nat.beq v (3 : Nat)))
      (let r := ([76] : List Nat) /- L -/
      (r, err))
     ((r, err))))))
   (cond ((Go.strEq abv ([77, 65, 86] : List Nat) /- MAV -/))
    (F64.flet r15 fun v =>
    cond ((Nat.beq v (0 : Nat)))
      (let r := ([88] : List Nat) /- X -/
      (r, err))
     (cond ((Nat.beq v (1 : Nat)))
      (let r := ([78] : List Nat) /- N -/
      (r, err))
     (cond ((Nat.beq v (2 : Nat)))
      (let r := ([65] : List Nat) /- A -/
      (r, err))
     (cond ((Nat.beq v (3 : Nat)))
      (let r := ([76] : List Nat) /- L -/
      (r, err))
     (cond ((Nat.beq v (4 : Nat)))
      (let r := ([80] : List Nat) /- P -/
      (r, err))
     ((r, err)))))))
   (cond ((Go.strEq abv ([77, 65, 67] : List Nat) /- MAC -/))
    (F64.flet r16 fun v =>
    cond ((Nat.beq v (0 : Nat)))
      (let r := ([88] : List Nat) /- X -/
      (r, err))
     (cond ((Nat.beq v (1 : Nat)))
      (let r := ([72] : List Nat) /- H -/
      (r, err))
     (cond ((Nat.beq v (2 : Nat)))
      (let r := ([76] : List Nat) /- L -/
      (r, err))
     ((r, err)))))
   (cond ((Go.strEq abv ([77, 65, 84] : List Nat) /- MAT -/))
    (F64.flet r17 fun v =>
    cond ((Nat.beq v (0 : Nat)))
      (let r := ([88] : List Nat) /- X -/
      (r, err))
     (cond ((Nat.beq v (1 : Nat)))
      (let r := ([78] : List Nat) /- N -/
      (r, err))
     (cond ((Nat.beq v (2 : Nat)))
      (let r := ([80] : List Nat) /- P -/
      (r, err))
     ((r, err)))))
   (cond ((Go.strEq abv ([77, 80, 82] : List Nat) /- MPR -/))
    (F64.flet r18 fun v =>
    cond ((Nat.beq v (0 : Nat)))
      (let r := ([88] : List Nat) /- X -/
      (r, err))
     (cond ((Nat.beq v (1 : Nat)))
      (let r := ([72] : List Nat) /- H -/
      (r, err))
     (cond ((Nat.beq v (2 : Nat)))
      (let r := ([76] : List Nat) /- L -/
      (r, err))
     (cond ((Nat.beq v (3 : Nat)))
      (let r := ([78] : List Nat) /- N -/
      (r, err))
     ((r, err))))))
   (cond ((Go.strEq abv ([77, 85, 73] : List Nat) /- MUI -/))
    (F64.flet r19 fun v =>
    cond ((Nat.beq v (0 : Nat)))
      (let r := ([88] : List Nat) /- X -/
      (r, err))
     (cond ((Nat.beq v (1 : Nat)))
      (let r := ([78] : List Nat) /- N -/
      (r, err))
     (cond ((Nat.beq v (2 : Nat)))
      (let r := ([80] : List Nat) /- P -/
      (r, err))
     (cond ((Nat.beq v (3 : Nat)))
      (let r := ([65] : List Nat) /- A -/
      (r, err))
     ((r, err))))))
   (cond ((Go.strEq abv ([77, 86, 67] : List Nat) /- MVC -/))
    (F64.flet r20 fun v =>
    cond ((Nat.beq v (0 : Nat)))
      (let r := ([88] : List Nat) /- X -/
      (r, err))
     (cond ((Nat.beq v (1 : Nat)))
      (let r := ([72] : List Nat) /- H -/
      (r, err))
     (cond ((Nat.beq v (2 : Nat)))
      (let r := ([76] : List Nat) /- L -/
      (r, err))
     (cond ((Nat.beq v (3 : Nat)))
      (let r := ([78] : List Nat) /- N -/
      (r, err))
     ((r, err))))))
   (cond ((Go.strEq abv ([77, 86, 73] : List Nat) /- MVI -/))
    (F64.flet r21 fun v =>
    cond ((Nat.beq v (0 : Nat)))
      (let r := ([88] : List Nat) /- X -/
      (r, err))
     (cond ((Nat.beq v (1 : Nat)))
      (let r := ([72] : List Nat) /- H -/
      (r, err))
     (cond ((Nat.beq v (2 : Nat)))
      (let r := ([76] : List Nat) /- L -/
      (r, err))
     (cond ((Nat.beq v (3 : Nat)))
      (let r := ([78] : List Nat) /- N -/
      (r, err))
     ((r, err))))))
   (cond ((Go.strEq abv ([77, 86, 65] : List Nat) /- MVA -/))
    (F64.flet r22 fun v =>
    cond ((Nat.beq v (0 : Nat)))
      (let r := ([88] : List Nat) /- X -/
      (r, err))
     (cond ((Nat.beq v (1 : Nat)))
      (let r := ([72] : List Nat) /- H -/
      (r, err))
     (cond ((Nat.beq v (2 : Nat)))
      (let r := ([76] : List Nat) /- L -/
      (r, err))
     (cond ((Nat.beq v (3 : Nat)))
      (let r := ([78] : List Nat) /- N -/
      (r, err))
     ((r, err))))))
   (cond ((Go.strEq abv ([77, 83, 67] : List Nat) /- MSC -/))
    (F64.flet r23 fun v =>
    cond ((Nat.beq v (0 : Nat)))
      (let r := ([88] : List Nat) /- X -/
      (r, err))
     (cond ((Nat.beq v (1 : Nat)))
      (let r := ([72] : List Nat) /- H -/
      (r, err))
     (cond ((Nat.beq v (2 : Nat)))
      (let r := ([76] : List Nat) /- L -/
      (r, err))
     (cond ((Nat.beq v (3 : Nat)))
      (let r := ([78] : List Nat) /- N -/
      (r, err))
     ((r, err))))))
   (cond ((Go.strEq abv ([77, 83, 73] : List Nat) /- MSI -/))
    (F64.flet r24 fun v =>
    cond ((Nat.beq v (0 : Nat)))
      (let r := ([88] : List Nat) /- X -/
      (r, err))
     (cond ((Nat.beq v (1 : Nat)))
      (let r := ([72] : List Nat) /- H -/
      (r, err))
     (cond ((Nat.beq v (2 : Nat)))
      (let r := ([76] : List Nat) /- L -/
      (r, err))
     (cond ((Nat.beq v (3 : Nat)))
      (let r := ([78] : List Nat) /- N -/
      (r, err))
     (cond ((Nat.beq v (4 : Nat)))
      (let r := ([83] : List Nat) /- S -/
      (r, err))
     ((r, err)))))))
   (cond ((Go.strEq abv ([77, 83, 65] : List Nat) /- MSA -/))
    (F64.flet r25 fun v =>
    cond ((Nat.beq v (0 : Nat)))
      (let r := ([88] : List Nat) /- X -/
      (r, err))
     (cond ((Nat.beq v (1 : Nat)))
      (let r := ([72] : List Nat) /- H -/
      (r, err))
     (cond ((Nat.beq v (2 : Nat)))
      (let r := ([76] : List Nat) /- L -/
      (r, err))
     (cond ((Nat.beq v (3 : Nat)))
      (let r := ([78] : List Nat) /- N -/
      (r, err))
     (cond ((Nat.beq v (4 : Nat)))
      (let r := ([83] : List Nat) /- S -/
      (r, err))
     ((r, err)))))))
   (cond ((Go.strEq abv ([83] : List Nat) /- S -/))
    (F64.flet r26 fun v =>
    cond ((Nat.beq v (0 : Nat)))
      (let r := ([88] : List Nat) /- X -/
      (r, err))
     (cond ((Nat.beq v (1 : Nat)))
      (let r := ([78] : List Nat) /- N -/
      (r, err))
     (cond ((Nat.beq v (2 : Nat)))
      (let r := ([80] : List Nat) /- P -/
      (r, err))
     ((r, err)))))
   (cond ((Go.strEq abv ([65, 85] : List Nat) /- AU -/))
    (F64.flet r27 fun v =>
    cond ((Nat.beq v (0 : Nat)))
      (let r := ([88] : List Nat) /- X -/
      (r, err))
     (cond ((Nat.beq v (1 : Nat)))
      (let r := ([78] : List Nat) /- N -/
      (r, err))
     (cond ((Nat.beq v (2 : Nat)))
      (let r := ([89] : List Nat) /- Y -/
      (r, err))
     ((r, err)))))
   (cond ((Go.strEq abv ([82] : List Nat) /- R -/))
    (F64.flet r28 fun v =>
    cond ((Nat.beq v (0 : Nat)))
      (let r := ([88] : List Nat) /- X -/
      (r, err))
     (cond ((Nat.beq v (1 : Nat)))
      (let r := ([65] : List Nat) /- A -/
      (r, err))
     (cond ((Nat.beq v (2 : Nat)))
      (let r := ([85] : List Nat) /- U -/
      (r, err))
     (cond ((Nat.beq v (3 : Nat)))
      (let r := ([73] : List Nat) /- I -/
      (r, err))
     ((r, err))))))
   (cond ((Go.strEq abv ([86] : List Nat) /- V -/))
    (F64.flet r29 fun v =>
    cond ((Nat.beq v (0 : Nat)))
      (let r := ([88] : List Nat) /- X -/
      (r, err))
     (cond ((Nat.beq v (1 : Nat)))
      (let r := ([68] : List Nat) /- D -/
      (r, err))
     (cond ((Nat.beq v (2 : Nat)))
      (let r := ([67] : List Nat) /- C -/
      (r, err))
     ((r, err)))))
   (cond ((Go.strEq abv ([82, 69] : List Nat) /- RE -/))
    (F64.flet r30 fun v =>
    cond ((Nat.beq v (0 : Nat)))
      (let r := ([88] : List Nat) /- X -/
      (r, err))
     (cond ((Nat.beq v (1 : Nat)))
      (let r := ([76] : List Nat) /- L -/
      (r, err))
     (cond ((Nat.beq v (2 : Nat)))
      (let r := ([77] : List Nat) /- M -/
      (r, err))
     (cond ((Nat.beq v (3 : Nat)))
      (let r := ([72] : List Nat) /- H -/
      (r, err))
     ((r, err))))))
   (cond ((Go.strEq abv ([85] : List Nat) /- U -/))
    (F64.flet r31 fun v =>
    cond ((Nat.beq v (0 : Nat)))
      (let r := ([88] : List Nat) /- X -/
      (r, err))
     (cond ((Nat.beq v (1 : Nat)))
      (let r := ([67, 108, 101, 97, 114] : List Nat) /- Clear -/
      (r, err))
     (cond ((Nat.beq v (2 : Nat)))
      (let r := ([71, 114, 101, 101, 110] : List Nat) /- Green -/
      (r, err))
     (cond ((Nat.beq v (3 : Nat)))
      (let r := ([65, 109, 98, 101, 114] : List Nat) /- Amber -/
      (r, err))
     (cond ((Nat.beq v (4 : Nat)))
      (let r := ([82, 101, 100] : List Nat) /- Red -/
      (r, err))
     ((r, err)))))))
   (let err := (Go.Err.mk 101 abv) /- ErrInvalidMetric -/
    (r, err)))))))))))))))))))))))))))))))))

def Get (u0 : Nat) (u1 : Nat) (u2 : Nat) (u3 : Nat) (u4 : Nat) (u5 : Nat) (u6 : Nat) (u7 : Nat) (u8 : Nat) (abv : (List Nat)) : ((List Nat) × Go.Err) :=
  Get_core (Nat.shiftRight (Nat.land u0 (192 : Nat)) (6 : Nat)) (Nat.shiftRight (Nat.land u0 (32 : Nat)) (5 : Nat)) (Nat.shiftRight (Nat.land u0 (16 : Nat)) (4 : Nat)) (Nat.shiftRight (Nat.land u0 (12 : Nat)) (2 : Nat)) (Nat.land u0 (3 : Nat)) (Nat.shiftRight (Nat.land u1 (192 : Nat)) (6 : Nat)) (Nat.shiftRight (Nat.land u1 (48 : Nat)) (4 : Nat)) (Nat.shiftRight (Nat.land u1 (12 : Nat)) (2 : Nat)) (Nat.land u1 (3 : Nat)) (Nat.shiftRight (Nat.land u2 (192 : Nat)) (6 : Nat)) (Nat.shiftRight (Nat.land u2 (48 : Nat)) (4 : Nat)) (Nat.shiftRight (Nat.land u2 (12 : Nat)) (2 : Nat)) (Nat.land u2 (3 : Nat)) (Nat.shiftRight (Nat.land u3 (192 : Nat)) (6 : Nat)) (Nat.shiftRight (Nat.land u3 (48 : Nat)) (4 : Nat)) (Nat.shiftRight (Nat.land u3 (14 : Nat)) (1 : Nat)) (Nat.lor (Nat.mod (Nat.shiftLeft (Nat.land u3 (1 : Nat)) (1 : Nat)) 256) (Nat.shiftRight (Nat.land u4 (128 : Nat)) (7 : Nat))) (Nat.shiftRight (Nat.land u4 (96 : Nat)) (5 : Nat)) (Nat.shiftRight (Nat.land u4 (24 : Nat)) (3 : Nat)) (Nat.shiftRight (Nat.land u4 (6 : Nat)) (1 : Nat)) (Nat.lor (Nat.mod (Nat.shiftLeft (Nat.land u4 (1 : Nat)) (1 : Nat)) 256) (Nat.shiftRight (Nat.land u5 (128 : Nat)) (7 : Nat))) (Nat.shiftRight (Nat.land u5 (96 : Nat)) (5 : Nat)) (Nat.shiftRight (Nat.land u5 (24 : Nat)) (3 : Nat)) (Nat.shiftRight (Nat.land u5 (6 : Nat)) (1 : Nat)) (Nat.lor (Nat.mod (Nat.shiftLeft (Nat.land u5 (1 : Nat)) (2 : Nat)) 256) (Nat.shiftRight (Nat.land u6 (192 : Nat)) (6 : Nat))) (Nat.shiftRight (Nat.land u6 (56 : Nat)) (3 : Nat)) (Nat.shiftRight (Nat.land u6 (6 : Nat)) (1 : Nat)) (Nat.lor (Nat.mod (Nat.shiftLeft (Nat.land u6 (1 : Nat)) (1 : Nat)) 256) (Nat.shiftRight (Nat.land u7 (128 : Nat)) (7 : Nat))) (Nat.shiftRight (Nat.land u7 (96 : Nat)) (5 : Nat)) (Nat.shiftRight (Nat.land u7 (24 : Nat)) (3 : Nat)) (Nat.shiftRight (Nat.land u7 (6 : Nat)) (1 : Nat)) (Nat.lor (Nat.mod (Nat.shiftLeft (Nat.land u7 (1 : Nat)) (2 : Nat)) 256) (Nat.shiftRight (Nat.land u8 (192 : Nat)) (6 : Nat))) abv

/-- validate  (cvss40.go) -/
def validate (value : (List Nat)) (enabled : (List (List Nat))) : (Nat × Go.Err) :=
  F64.flet (0 : Nat) fun i =>
  let err := Go.errNil
  match Go.forRange enabled i (fun enbl i =>
      cond (Go.strEq value enbl)
        (Go.Ctl.ret (i, Go.errNil))
        (F64.flet (Nat.mod (Nat.add i (1 : Nat)) 256) fun i =>
        Go.Ctl.next i)) with
  | Go.Ctl.ret r => r
  | Go.Ctl.brk i => ((0x7FF8DEAD00000000 : Nat), Go.errPanic)
  | Go.Ctl.next i =>
  ((0 : Nat), (Go.Err.mk 4 []) /- ErrInvalidMetricValue -/)

/-- Set  (cvss40.go) -/
def Set (u0 : Nat) (u1 : Nat) (u2 : Nat) (u3 : Nat) (u4 : Nat) (u5 : Nat) (u6 : Nat) (u7 : Nat) (u8 : Nat) (abv : (List Nat)) (value : (List Nat)) : (Nat × Nat × Nat × Nat × Nat × Nat × Nat × Nat × Nat × Go.Err) :=
  cond ((Go.strEq abv ([65, 86] : List Nat) /- AV -/))
    (match (GenV40.validate value [([78] : List Nat) /- N -/, ([65] : List Nat) /- A -/, ([76] : List Nat) /- L -/, ([80] : List Nat) /- P -/]) with
    | (v, err) =>
    cond (!(Go.Err.beq err Go.errNil))
      ((u0, u1, u2, u3, u4, u5, u6, u7, u8, err))
      (F64.flet (Nat.lor (Nat.land u0 (63 : Nat)) (Nat.mod (Nat.shiftLeft v (6 : Nat)) 256)) fun u0 =>
      (u0, u1, u2, u3, u4, u5, u6, u7, u8, Go.errNil)))
   (cond ((Go.strEq abv ([65, 67] : List Nat) /- AC -/))
    (match (GenV40.validate value [([72] : List Nat) /- H -/, ([76] : List Nat) /- L -/]) with
    | (v, err) =>
    cond (!(Go.Err.beq err Go.errNil))
      ((u0, u1, u2, u3, u4, u5, u6, u7, u8, err))
      (F64.flet (Nat.lor (Nat.land u0 (223 : Nat)) (Nat.mod (Nat.shiftLeft v (5 : Nat)) 256)) fun u0 =>
      (u0, u1, u2, u3, u4, u5, u6, u7, u8, Go.errNil)))
   (cond ((Go.strEq abv ([65, 84] : List Nat) /- AT -/))
    (match (GenV40.validate value [([78] : List Nat) /- N -/, ([80] : List Nat) /- P -/]) with
    | (v, err) =>
    cond (!(Go.Err.beq err Go.errNil))
      ((u0, u1, u2, u3, u4, u5, u6, u7, u8, err))
      (F64.flet (Nat.lor (Nat.land u0 (239 : Nat)) (Nat.mod (Nat.shiftLeft v (4 : Nat)) 256)) fun u0 =>
      (u0, u1, u2, u3, u4, u5, u6, u7, u8, Go.errNil)))
   (cond ((Go.strEq abv ([80, 82] : List Nat) /- PR -/))
    (match (GenV40.validate value [([72] : List Nat) /- H -/, ([76] : List Nat) /- L -/, ([78] : List Nat) /- N -/]) with
    | (v, err) =>
    cond (!(Go.Err.beq err Go.errNil))
      ((u0, u1, u2, u3, u4, u5, u6, u7, u8, err))
      (F64.flet (Nat.lor (Nat.land u0 (243 : Nat)) (Nat.mod (Nat.shiftLeft v (2 : Nat)) 256)) fun u0 =>
      (u0, u1, u2, u3, u4, u5, u6, u7, u8, Go.errNil)))
   (cond ((Go.strEq abv ([85, 73] : List Nat) /- UI -/))
    (match (GenV40.validate value [([78] : List Nat) /- N -/, ([80] : List Nat) /- P -/, ([65] : List Nat) /- A -/]) with
    | (v, err) =>
    cond (!(Go.Err.beq err Go.errNil))
      ((u0, u1, u2, u3, u4, u5, u6, u7, u8, err))
      (F64.flet (Nat.lor (Nat.land u0 (252 : Nat)) v) fun u0 =>
      (u0, u1, u2, u3, u4, u5, u6, u7, u8, Go.errNil)))
   (cond ((Go.strEq abv ([86, 67] : List Nat) /- VC -/))
    (match (GenV40.validate value [([72] : List Nat) /- H -/, ([76] : List Nat) /- L -/, ([78] : List Nat) /- N -/]) with
    | (v, err) =>
    cond (!(Go.Err.beq err Go.errNil))
      ((u0, u1, u2, u3, u4, u5, u6, u7, u8, err))
      (F64.flet (Nat.lor (Nat.land u1 (63 : Nat)) (Nat.mod (Nat.shiftLeft v (6 : Nat)) 256)) fun u1 =>
      (u0, u1, u2, u3, u4, u5, u6, u7, u8, Go.errNil)))
   (cond ((Go.strEq abv ([83, 67] : List Nat) /- SC -/))
    (match (GenV40.validate value [([72] : List Nat) /- H -/, ([76] : List Nat) /- L -/, ([78] : List Nat) /- N -/]) with
    | (v, err) =>
    cond (!(Go.Err.beq err Go.errNil))
      ((u0, u1, u2, u3, u4, u5, u6, u7, u8, err))
      (F64.flet (Nat.lor (Nat.land u1 (207 : Nat)) (Nat.mod (Nat.shiftLeft v (4 : Nat)) 256)) fun u1 =>
      (u0, u1, u2, u3, u4, u5, u6, u7, u8, Go.errNil)))
   (cond ((Go.strEq abv ([86, 73] : List Nat) /- VI -/))
    (match (GenV40.validate value [([72] : List Nat) /- H -/, ([76] : List Nat) /- L -/, ([78] : List Nat) /- N -/]) with
    | (v, err) =>
    cond (!(Go.Err.beq err Go.errNil))
      ((u0, u1, u2, u3, u4, u5, u6, u7, u8, err))
      (F64.flet (Nat.lor (Nat.land u1 (243 : Nat)) (Nat.mod (Nat.shiftLeft v (2 : Nat)) 256)) fun u1 =>
      (u0, u1, u2, u3, u4, u5, u6, u7, u8, Go.errNil)))
   (cond ((Go.strEq abv ([83, 73] : List Nat) /- SI -/))
    (match (GenV40.validate value [([72] : List Nat) /- H -/, ([76] : List Nat) /- L -/, ([78] : List Nat) /- N -/]) with
    | (v, err) =>
    cond (!(Go.Err.beq err Go.errNil))
      ((u0, u1, u2, u3, u4, u5, u6, u7, u8, err))
      (F64.flet (Nat.lor (Nat.land u1 (252 : Nat)) v) fun u1 =>
      (u0, u1, u2, u3, u4, u5, u6, u7, u8, Go.errNil)))
   (cond ((Go.strEq abv ([86, 65] : List Nat) /- VA -/))
    (match (GenV40.validate value [([72] : List Nat) /- H -/, ([76] : List Nat) /- L -/, ([78] : List Nat) /- N -/]) with
    | (v, err) =>
    cond (!(Go.Err.beq err Go.errNil))
      ((u0, u1, u2, u3, u4, u5, u6, u7, u8, err))
      (F64.flet (Nat.lor (Nat.land u2 (63 : Nat)) (Nat.mod (Nat.shiftLeft v (6 : Nat)) 256)) fun u2 =>
      (u0, u1, u2, u3, u4, u5, u6, u7, u8, Go.errNil)))
   (cond ((Go.strEq abv ([83, 65] : List Nat) /- SA -/))
    (match (GenV40.validate value [([72] : List Nat) /- H -/, ([76] : List Nat) /- L -/, ([78] : List Nat) /- N -/]) with
    | (v, err) =>
    cond (!(Go.Err.beq err Go.errNil))
      ((u0, u1, u2, u3, u4, u5, u6, u7, u8, err))
      (F64.flet (Nat.lor (Nat.land u2 (207 : Nat)) (Nat.mod (Nat.shiftLeft v (4 : Nat)) 256)) fun u2 =>
      (u0, u1, u2, u3, u4, u5, u6, u7, u8, Go.errNil)))
   (cond ((Go.strEq abv ([69] : List Nat) /- E -/))
    (match (GenV40.validate value [([88] : List Nat) /- X -/, ([65] : List Nat) /- A -/, ([80] : List Nat) /- P -/, ([85] : List Nat) /- U -/]) with
    | (v, err) =>
    cond (!(Go.Err.beq err Go.errNil))
      ((u0, u1, u2, u3, u4, u5, u6, u7, u8, err))
      (F64.flet (Nat.lor (Nat.land u2 (243 : Nat)) (Nat.mod (Nat.shiftLeft v (2 : Nat)) 256)) fun u2 =>
      (u0, u1, u2, u3, u4, u5, u6, u7, u8, Go.errNil)))
   (cond ((Go.strEq abv ([67, 82] : List Nat) /- CR -/))
    (match (GenV40.validate value [([88] : List Nat) /- X -/, ([72] : List Nat) /- H -/, ([77] : List Nat) /- M -/, ([76] : List Nat) /- L -/]) with
    | (v, err) =>
    cond (!(Go.Err.beq err Go.errNil))
      ((u0, u1, u2, u3, u4, u5, u6, u7, u8, err))
      (F64.flet (Nat.lor (Nat.land u2 (252 : Nat)) v) fun u2 =>
      (u0, u1, u2, u3, u4, u5, u6, u7, u8, Go.errNil)))
   (cond ((Go.strEq abv ([73, 82] : List Nat) /- IR -/))
    (match (GenV40.validate value [([88] : List Nat) /- X -/, ([72] : List Nat) /- H -/, ([77] : List Nat) /- M -/, ([76] : List Nat) /- L -/]) with
    | (v, err) =>
    cond (!(Go.Err.beq err Go.errNil))
      ((u0, u1, u2, u3, u4, u5, u6, u7, u8, err))
      (F64.flet (Nat.lor (Nat.land u3 (63 : Nat)) (Nat.mod (Nat.shiftLeft v (6 : Nat)) 256)) fun u3 =>
      (u0, u1, u2, u3, u4, u5, u6, u7, u8, Go.errNil)))
   (cond ((Go.strEq abv ([65, 82] : List Nat) /- AR -/))
    (match (GenV40.validate value [([88] : List Nat) /- X -/, ([72] : List Nat) /- H -/, ([77] : List Nat) /- M -/, ([76] : List Nat) /- L -/]) with
    | (v, err) =>
    cond (!(Go.Err.beq err Go.errNil))
      ((u0, u1, u2, u3, u4, u5, u6, u7, u8, err))
      (F64.flet (Nat.lor (Nat.land u3 (207 : Nat)) (Nat.mod (Nat.shiftLeft v (4 : Nat)) 256)) fun u3 =>
      (u0, u1, u2, u3, u4, u5, u6, u7, u8, Go.errNil)))
   (cond ((Go.strEq abv ([77, 65, 86] : List Nat) /- MAV -/))
    (match (GenV40.validate value [([88] : List Nat) /- X -/, ([78] : List Nat) /- N -/, ([65] : List Nat) /- A -/, ([76] : List Nat) /- L -/, ([80] : List Nat) /- P -/]) with
    | (v, err) =>
    cond (!(Go.Err.beq err Go.errNil))
      ((u0, u1, u2, u3, u4, u5, u6, u7, u8, err))
      (F64.flet (Nat.lor (Nat.land u3 (241 : Nat)) (Nat.mod (Nat.shiftLeft v (1 : Nat)) 256)) fun u3 =>
      (u0, u1, u2, u3, u4, u5, u6, u7, u8, Go.errNil)))
   (cond ((Go.strEq abv ([77, 65, 67] : List Nat) /- MAC -/))
    (match (GenV40.validate value [([88] : List Nat) /- X -/, ([72] : List Nat) /- H -/, ([76] : List Nat) /- L -/]) with
    | (v, err) =>
    cond (!(Go.Err.beq err Go.errNil))
      ((u0, u1, u2, u3, u4, u5, u6, u7, u8, err))
      (F64.flet (Nat.lor (Nat.land u3 (254 : Nat)) (Nat.shiftRight (Nat.land v (10 : Nat)) (1 : Nat))) fun u3 =>
      F64.flet (Nat.lor (Nat.land u4 (127 : Nat)) (Nat.mod (Nat.shiftLeft (Nat.land v (1 : Nat)) (7 : Nat)) 256)) fun u4 =>
      (u0, u1, u2, u3, u4, u5, u6, u7, u8, Go.errNil)))
   (cond ((Go.strEq abv ([77, 65, 84] : List Nat) /- MAT -/))
    (match (GenV40.validate value [([88] : List Nat) /- X -/, ([78] : List Nat) /- N -/, ([80] : List Nat) /- P -/]) with
    | (v, err) =>
    cond (!(Go.Err.beq err Go.errNil))
      ((u0, u1, u2, u3, u4, u5, u6, u7, u8, err))
      (F64.flet (Nat.lor (Nat.land u4 (159 : Nat)) (Nat.mod (Nat.shiftLeft v (5 : Nat)) 256)) fun u4 =>
      (u0, u1, u2, u3, u4, u5, u6, u7, u8, Go.errNil)))
   (cond ((Go.strEq abv ([77, 80, 82] : List Nat) /- MPR -/))
    (match (GenV40.validate value [([88] : List Nat) /- X -/, ([72] : List Nat) /- H -/, ([76] : List Nat) /- L -/, ([78] : List Nat) /- N -/]) with
    | (v, err) =>
    cond (!(Go.Err.beq err Go.errNil))
      ((u0, u1, u2, u3, u4, u5, u6, u7, u8, err))
      (F64.flet (Nat.lor (Nat.land u4 (231 : Nat)) (Nat.mod (Nat.shiftLeft v (3 : Nat)) 256)) fun u4 =>
      (u0, u1, u2, u3, u4, u5, u6, u7, u8, Go.errNil)))
   (cond ((Go.strEq abv ([77, 85, 73] : List Nat) /- MUI -/))
    (match (GenV40.validate value [([88] : List Nat) /- X -/, ([78] : List Nat) /- N -/, ([80] : List Nat) /- P -/, ([65] : List Nat) /- A -/]) with
    | (v, err) =>
    cond (!(Go.Err.beq err Go.errNil))
      ((u0, u1, u2, u3, u4, u5, u6, u7, u8, err))
      (F64.flet (Nat.lor (Nat.land u4 (249 : Nat)) (Nat.mod (Nat.shiftLeft v (1 : Nat)) 256)) fun u4 =>
      (u0, u1, u2, u3, u4, u5, u6, u7, u8, Go.errNil)))
   (cond ((Go.strEq abv ([77, 86, 67] : List Nat) /- MVC -/))
    (match (GenV40.validate value [([88] : List Nat) /- X -/, ([72] : List Nat) /- H -/, ([76] : List Nat) /- L -/, ([78] : List Nat) /- N -/]) with
    | (v, err) =>
    cond (!(Go.Err.beq err Go.errNil))
      ((u0, u1, u2, u3, u4, u5, u6, u7, u8, err))
      (F64.flet (Nat.lor (Nat.land u4 (254 : Nat)) (Nat.shiftRight (Nat.land v (2 : Nat)) (1 : Nat))) fun u4 =>
      F64.flet (Nat.lor (Nat.land u5 (127 : Nat)) (Nat.mod (Nat.shiftLeft (Nat.land v (1 : Nat)) (7 : Nat)) 256)) fun u5 =>
      (u0, u1, u2, u3, u4, u5, u6, u7, u8, Go.errNil)))
   (cond ((Go.strEq abv ([77, 86, 73] : List Nat) /- MVI -/))
    (match (GenV40.validate value [([88] : List Nat) /- X -/, ([72] : List Nat) /- H -/, ([76] : List Nat) /- L -/, ([78] : List Nat) /- N -/]) with
    | (v, err) =>
    cond (!(Go.Err.beq err Go.errNil))
      ((u0, u1, u2, u3, u4, u5, u6, u7, u8, err))
      (F64.flet (Nat.lor (Nat.land u5 (159 : Nat)) (Nat.mod (Nat.shiftLeft v (5 : Nat)) 256)) fun u5 =>
      (u0, u1, u2, u3, u4, u5, u6, u7, u8, Go.errNil)))
   (cond ((Go.strEq abv ([77, 86, 65] : List Nat) /- MVA -/))
    (match (GenV40.validate value [([88] : List Nat) /- X -/, ([72] : List Nat) /- H -/, ([76] : List Nat) /- L -/, ([78] : List Nat) /- N -/]) with
    | (v, err) =>
    cond (!(Go.Err.beq err Go.errNil))
      ((u0, u1, u2, u3, u4, u5, u6, u7, u8, err))
      (F64.flet (Nat.lor (Nat.land u5 (231 : Nat)) (Nat.mod (Nat.shiftLeft v (3 : Nat)) 256)) fun u5 =>
      (u0, u1, u2, u3, u4, u5, u6, u7, u8, Go.errNil)))
   (cond ((Go.strEq abv ([77, 83, 67] : List Nat) /- MSC -/))
    (match (GenV40.validate value [([88] : List Nat) /- X -/, ([72] : List Nat) /- H -/, ([76] : List Nat) /- L -/, ([78] : List Nat) /- N -/]) with
    | (v, err) =>
    cond (!(Go.Err.beq err Go.errNil))
      ((u0, u1, u2, u3, u4, u5, u6, u7, u8, err))
      (F64.flet (Nat.lor (Nat.land u5 (249 : Nat)) (Nat.mod (Nat.shiftLeft v (1 : Nat)) 256)) fun u5 =>
      (u0, u1, u2, u3, u4, u5, u6, u7, u8, Go.errNil)))
   (cond ((Go.strEq abv ([77, 83, 73] : List Nat) /- MSI -/))
    (match (GenV40.validate value [([88] : List Nat) /- X -/, ([72] : List Nat) /- H -/, ([76] : List Nat) /- L -/, ([78] : List Nat) /- N -/, ([83] : List Nat) /- S -/]) with
    | (v, err) =>
    cond (!(Go.Err.beq err Go.errNil))
      ((u0, u1, u2, u3, u4, u5, u6, u7, u8, err))
      (F64.flet (Nat.lor (Nat.land u5 (254 : Nat)) (Nat.shiftRight (Nat.land v (4 : Nat)) (2 : Nat))) fun u5 =>
      F64.flet (Nat.lor (Nat.land u6 (63 : Nat)) (Nat.mod (Nat.shiftLeft (Nat.land v (3 : Nat)) (6 : Nat)) 256)) fun u6 =>
      (u0, u1, u2, u3, u4, u5, u6, u7, u8, Go.errNil)))
   (cond ((Go.strEq abv ([77, 83, 65] : List Nat) /- MSA -/))
    (match (GenV40.validate value [([88] : List Nat) /- X -/, ([72] : List Nat) /- H -/, ([76] : List Nat) /- L -/, ([78] : List Nat) /- N -/, ([83] : List Nat) /- S -/]) with
    | (v, err) =>
    cond (!(Go.Err.beq err Go.errNil))
      ((u0, u1, u2, u3, u4, u5, u6, u7, u8, err))
      (F64.flet (Nat.lor (Nat.land u6 (199 : Nat)) (Nat.mod (Nat.shiftLeft v (3 : Nat)) 256)) fun u6 =>
      (u0, u1, u2, u3, u4, u5, u6, u7, u8, Go.errNil)))
   (cond ((Go.strEq abv ([83] : List Nat) /- S -/))
    (match (GenV40.validate value [([88] : List Nat) /- X -/, ([78] : List Nat) /- N -/, ([80] : List Nat) /- P -/]) with
    | (v, err) =>
    cond (!(Go.Err.beq err Go.errNil))
      ((u0, u1, u2, u3, u4, u5, u6, u7, u8, err))
      (F64.flet (Nat.lor (Nat.land u6 (249 : Nat)) (Nat.mod (Nat.shiftLeft v (1 : Nat)) 256)) fun u6 =>
      (u0, u1, u2, u3, u4, u5, u6, u7, u8, Go.errNil)))
   (cond ((Go.strEq abv ([65, 85] : List Nat) /- AU -/))
    (match (GenV40.validate value [([88] : List Nat) /- X -/, ([78] : List Nat) /- N -/, ([89] : List Nat) /- Y -/]) with
    | (v, err) =>
    cond (!(Go.Err.beq err Go.errNil))
      ((u0, u1, u2, u3, u4, u5, u6, u7, u8, err))
      (F64.flet (Nat.lor (Nat.land u6 (254 : Nat)) (Nat.shiftRight (Nat.land v (2 : Nat)) (1 : Nat))) fun u6 =>
      F64.flet (Nat.lor (Nat.land u7 (127 : Nat)) (Nat.mod (Nat.shiftLeft (Nat.land v (1 : Nat)) (7 : Nat)) 256)) fun u7 =>
      (u0, u1, u2, u3, u4, u5, u6, u7, u8, Go.errNil)))
   (cond ((Go.strEq abv ([82] : List Nat) /- R -/))
    (match (GenV40.validate value [([88] : List Nat) /- X -/, ([65] : List Nat) /- A -/, ([85] : List Nat) /- U -/, ([73] : List Nat) /- I -/]) with
    | (v, err) =>
    cond (!(Go.Err.beq err Go.errNil))
      ((u0, u1, u2, u3, u4, u5, u6, u7, u8, err))
      (F64.flet (Nat.lor (Nat.land u7 (159 : Nat)) (Nat.mod (Nat.shiftLeft v (5 : Nat)) 256)) fun u7 =>
      (u0, u1, u2, u3, u4, u5, u6, u7, u8, Go.errNil)))
   (cond ((Go.strEq abv ([86] : List Nat) /- V -/))
    (match (GenV40.validate value [([88] : List Nat) /- X -/, ([68] : List Nat) /- D -/, ([67] : List Nat) /- C -/]) with
    | (v, err) =>
    cond (!(Go.Err.beq err Go.errNil))
      ((u0, u1, u2, u3, u4, u5, u6, u7, u8, err))
      (F64.flet (Nat.lor (Nat.land u7 (231 : Nat)) (Nat.mod (Nat.shiftLeft v (3 : Nat)) 256)) fun u7 =>
      (u0, u1, u2, u3, u4, u5, u6, u7, u8, Go.errNil)))
   (cond ((Go.strEq abv ([82, 69] : List Nat) /- RE -/))
    (match (GenV40.validate value [([88] : List Nat) /- X -/, ([76] : List Nat) /- L -/, ([77] : List Nat) /- M -/, ([72] : List Nat) /- H -/]) with
    | (v, err) =>
    cond (!(Go.Err.beq err Go.errNil))
      ((u0, u1, u2, u3, u4, u5, u6, u7, u8, err))
      (F64.flet (Nat.lor (Nat.land u7 (249 : Nat)) (Nat.mod (Nat.shiftLeft v (1 : Nat)) 256)) fun u7 =>
      (u0, u1, u2, u3, u4, u5, u6, u7, u8, Go.errNil)))
   (cond ((Go.strEq abv ([85] : List Nat) /- U -/))
    (match (GenV40.validate value [([88] : List Nat) /- X -/, ([67, 108, 101, 97, 114] : List Nat) /- Clear -/, ([71, 114, 101, 101, 110] : List Nat) /- Green -/, ([65, 109, 98, 101, 114] : List Nat) /- Amber -/, ([82, 101, 100] : List Nat) /- Red -/]) with
    | (v, err) =>
    cond (!(Go.Err.beq err Go.errNil))
      ((u0, u1, u2, u3, u4, u5, u6, u7, u8, err))
      (F64.flet (Nat.lor (Nat.land u7 (254 : Nat)) (Nat.shiftRight (Nat.land v (4 : Nat)) (2 : Nat))) fun u7 =>
      F64.flet (Nat.mod (Nat.shiftLeft (Nat.land v (3 : Nat)) (6 : Nat)) 256) fun u8 =>
      (u0, u1, u2, u3, u4, u5, u6, u7, u8, Go.errNil)))
   ((u0, u1, u2, u3, u4, u5, u6, u7, u8, (Go.Err.mk 101 abv) /- ErrInvalidMetric -/)))))))))))))))))))))))))))))))))

/-- lenVec  (cvss40.go) -/
--   r0 := (Nat.land u2 (12 : Nat))
--   r1 := (Nat.land u2 (3 : Nat))
--   r2 := (Nat.land u3 (192 : Nat))
--   r3 := (Nat.land u3 (48 : Nat))
--   r4 := (Nat.land u3 (14 : Nat))
--   r5 := (Nat.land u3 (1 : Nat))
--   r6 := (Nat.land u4 (128 : Nat))
--   r7 := (Nat.land u4 (96 : Nat))
--   r8 := (Nat.land u4 (24 : Nat))
--   r9 := (Nat.land u4 (6 : Nat))
--   r10 := (Nat.land u4 (1 : Nat))
--   r11 := (Nat.land u5 (128 : Nat))
--   r12 := (Nat.land u5 (96 : Nat))
--   r13 := (Nat.land u5 (24 : Nat))
--   r14 := (Nat.land u5 (6 : Nat))
--   r15 := (Nat.land u5 (1 : Nat))
--   r16 := (Nat.land u6 (192 : Nat))
--   r17 := (Nat.land u6 (56 : Nat))
--   r18 := (Nat.land u6 (6 : Nat))
--   r19 := (Nat.land u6 (1 : Nat))
--   r20 := (Nat.land u7 (128 : Nat))
--   r21 := (Nat.land u7 (96 : Nat))
--   r22 := (Nat.land u7 (24 : Nat))
--   r23 := (Nat.land u7 (6 : Nat))
--   r24 := (Nat.lor (Nat.mod (Nat.shiftLeft (Nat.land u7 (1 : Nat)) (2 : Nat)) 256) (Nat.shiftRight (Nat.land u8 (192 : Nat)) (6 : Nat)))
def lenVec_core (r0 : Nat) (r1 : Nat) (r2 : Nat) (r3 : Nat) (r4 : Nat) (r5 : Nat) (r6 : Nat) (r7 : Nat) (r8 : Nat) (r9 : Nat) (r10 : Nat) (r11 : Nat) (r12 : Nat) (r13 : Nat) (r14 : Nat) (r15 : Nat) (r16 : Nat) (r17 : Nat) (r18 : Nat) (r19 : Nat) (r20 : Nat) (r21 : Nat) (r22 : Nat) (r23 : Nat) (r24 : Nat) : Nat :=
  F64.flet (63 : Nat) fun l =>
  match (cond (!(Nat.beq r0 (0 : Nat)))
    (F64.flet (Nat.add l (4 : Nat)) fun l =>
    l)
    (l)) with
  | l =>
  match (cond (!(Nat.beq r1 (0 : Nat)))
    (F64.flet (Nat.add l (5 : Nat)) fun l =>
    l)
    (l)) with
  | l =>
  match (cond (!(Nat.beq r2 (0 : Nat)))
    (F64.flet (Nat.add l (5 : Nat)) fun l =>
    l)
    (l)) with
  | l =>
  match (cond (!(Nat.beq r3 (0 : Nat)))
    (F64.flet (Nat.add l (5 : Nat)) fun l =>
    l)
    (l)) with
  | l =>
  match (cond (!(Nat.beq r4 (0 : Nat)))
    (F64.flet (Nat.add l (6 : Nat)) fun l =>
    l)
    (l)) with
  | l =>
  match (cond ((!(Nat.beq r5 (0 : Nat))) || (!(Nat.beq r6 (0 : Nat))))
    (F64.flet (Nat.add l (6 : Nat)) fun l =>
    l)
    (l)) with
  | l =>
  match (cond (!(Nat.beq r7 (0 : Nat)))
    (F64.flet (Nat.add l (6 : Nat)) fun l =>
    l)
    (l)) with
  | l =>
  match (cond (!(Nat.beq r8 (0 : Nat)))
    (F64.flet (Nat.add l (6 : Nat)) fun l =>
    l)
    (l)) with
  | l =>
  match (cond (!(Nat.beq r9 (0 : Nat)))
    (F64.flet (Nat.add l (6 : Nat)) fun l =>
    l)
    (l)) with
  | l =>
  match (cond ((!(Nat.beq r10 (0 : Nat))) || (!(Nat.beq r11 (0 : Nat))))
    (F64.flet (Nat.add l (6 : Nat)) fun l =>
    l)
    (l)) with
  | l =>
  match (cond (!(Nat.beq r12 (0 : Nat)))
    (F64.flet (Nat.add l (6 : Nat)) fun l =>
    l)
    (l)) with
  | l =>
  match (cond (!(Nat.beq r13 (0 : Nat)))
    (F64.flet (Nat.add l (6 : Nat)) fun l =>
    l)
    (l)) with
  | l =>
  match (cond (!(Nat.beq r14 (0 : Nat)))
    (F64.flet (Nat.add l (6 : Nat)) fun l =>
    l)
    (l)) with
  | l =>
  match (cond ((!(Nat.beq r15 (0 : Nat))) || (!(Nat.beq r16 (0 : Nat))))
    (F64.flet (Nat.add l (6 : Nat)) fun l =>
    l)
    (l)) with
  | l =>
  match (cond (!(Nat.beq r17 (0 : Nat)))
    (F64.flet (Nat.add l (6 : Nat)) fun l =>
    l)
    (l)) with
  | l =>
  match (cond (!(Nat.beq r18 (0 : Nat)))
    (F64.flet (Nat.add l (4 : Nat)) fun l =>
    l)
    (l)) with
  | l =>
  match (cond ((!(Nat.beq r19 (0 : Nat))) || (!(Nat.beq r20 (0 : Nat))))
    (F64.flet (Nat.add l (5 : Nat)) fun l =>
    l)
    (l)) with
  | l =>
  match (cond (!(Nat.beq r21 (0 : Nat)))
    (F64.flet (Nat.add l (4 : Nat)) fun l =>
    l)
    (l)) with
  | l =>
  match (cond (!(Nat.beq r22 (0 : Nat)))
    (F64.flet (Nat.add l (4 : Nat)) fun l =>
    l)
    (l)) with
  | l =>
  match (cond (!(Nat.beq r23 (0 : Nat)))
    (F64.flet (Nat.add l (5 : Nat)) fun l =>
    l)
    (l)) with
  | l =>
  F64.flet r24 fun u =>
  cond ((Nat.beq u (1 : Nat)) || (Nat.beq u (2 : Nat)) || (Nat.beq u (3 : Nat)))
    (F64.flet (Nat.add l (8 : Nat)) fun l =>
    l)
   (cond ((Nat.beq u (4 : Nat)))
    (F64.flet (Nat.add l (6 : Nat)) fun l =>
    l)
   (l))

def lenVec (u0 : Nat) (u1 : Nat) (u2 : Nat) (u3 : Nat) (u4 : Nat) (u5 : Nat) (u6 : Nat) (u7 : Nat) (u8 : Nat) : Nat :=
  lenVec_core (Nat.land u2 (12 : Nat)) (Nat.land u2 (3 : Nat)) (Nat.land u3 (192 : Nat)) (Nat.land u3 (48 : Nat)) (Nat.land u3 (14 : Nat)) (Nat.land u3 (1 : Nat)) (Nat.land u4 (128 : Nat)) (Nat.land u4 (96 : Nat)) (Nat.land u4 (24 : Nat)) (Nat.land u4 (6 : Nat)) (Nat.land u4 (1 : Nat)) (Nat.land u5 (128 : Nat)) (Nat.land u5 (96 : Nat)) (Nat.land u5 (24 : Nat)) (Nat.land u5 (6 : Nat)) (Nat.land u5 (1 : Nat)) (Nat.land u6 (192 : Nat)) (Nat.land u6 (56 : Nat)) (Nat.land u6 (6 : Nat)) (Nat.land u6 (1 : Nat)) (Nat.land u7 (128 : Nat)) (Nat.land u7 (96 : Nat)) (Nat.land u7 (24 : Nat)) (Nat.land u7 (6 : Nat)) (Nat.lor (Nat.mod (Nat.shiftLeft (Nat.land u7 (1 : Nat)) (2 : Nat)) 256) (Nat.shiftRight (Nat.land u8 (192 : Nat)) (6 : Nat)))

/-- get  (cvss40.go) -/
--   r0 := (Nat.shiftRight (Nat.land u0 (192 : Nat)) (6 : Nat))
--   r1 := (Nat.shiftRight (Nat.land u0 (32 : Nat)) (5 : Nat))
--   r2 := (Nat.shiftRight (Nat.land u0 (16 : Nat)) (4 : Nat))
--   r3 := (Nat.shiftRight (Nat.land u0 (12 : Nat)) (2 : Nat))
--   r4 := (Nat.land u0 (3 : Nat))
--   r5 := (Nat.shiftRight (Nat.land u1 (192 : Nat)) (6 : Nat))
--   r6 := (Nat.shiftRight (Nat.land u1 (48 : Nat)) (4 : Nat))
--   r7 := (Nat.shiftRight (Nat.land u1 (12 : Nat)) (2 : Nat))
--   r8 := (Nat.land u1 (3 : Nat))
--   r9 := (Nat.shiftRight (Nat.land u2 (192 : Nat)) (6 : Nat))
--   r10 := (Nat.shiftRight (Nat.land u2 (48 : Nat)) (4 : Nat))
--   r11 := (Nat.shiftRight (Nat.land u2 (12 : Nat)) (2 : Nat))
--   r12 := (Nat.land u2 (3 : Nat))
--   r13 := (Nat.shiftRight (Nat.land u3 (192 : Nat)) (6 : Nat))
--   r14 := (Nat.shiftRight (Nat.land u3 (48 : Nat)) (4 : Nat))
--   r15 := (Nat.shiftRight (Nat.land u3 (14 : Nat)) (1 : Nat))
--   r16 := (Nat.lor (Nat.mod (Nat.shiftLeft (Nat.land u3 (1 : Nat)) (1 : Nat)) 256) (Nat.shiftRight (Nat.land u4 (128 : Nat)) (7 : Nat)))
--   r17 := (Nat.shiftRight (Nat.land u4 (96 : Nat)) (5 : Nat))
--   r18 := (Nat.shiftRight (Nat.land u4 (24 : Nat)) (3 : Nat))
--   r19 := (Nat.shiftRight (Nat.land u4 (6 : Nat)) (1 : Nat))
--   r20 := (Nat.lor (Nat.mod (Nat.shiftLeft (Nat.land u4 (1 : Nat)) (1 : Nat)) 256) (Nat.shiftRight (Nat.land u5 (128 : Nat)) (7 : Nat)))
--   r21 := (Nat.shiftRight (Nat.land u5 (96 : Nat)) (5 : Nat))
--   r22 := (Nat.shiftRight (Nat.land u5 (24 : Nat)) (3 : Nat))
--   r23 := (Nat.shiftRight (Nat.land u5 (6 : Nat)) (1 : Nat))
--   r24 := (Nat.lor (Nat.mod (Nat.shiftLeft (Nat.land u5 (1 : Nat)) (2 : Nat)) 256) (Nat.shiftRight (Nat.land u6 (192 : Nat)) (6 : Nat)))
--   r25 := (Nat.shiftRight (Nat.land u6 (56 : Nat)) (3 : Nat))
--   r26 := (Nat.shiftRight (Nat.land u6 (6 : Nat)) (1 : Nat))
--   r27 := (Nat.lor (Nat.mod (Nat.shiftLeft (Nat.land u6 (1 : Nat)) (1 : Nat)) 256) (Nat.shiftRight (Nat.land u7 (128 : Nat)) (7 : Nat)))
--   r28 := (Nat.shiftRight (Nat.land u7 (96 : Nat)) (5 : Nat))
--   r29 := (Nat.shiftRight (Nat.land u7 (24 : Nat)) (3 : Nat))
--   r30 := (Nat.shiftRight (Nat.land u7 (6 : Nat)) (1 : Nat))
--   r31 := (Nat.lor (Nat.mod (Nat.shiftLeft (Nat.land u7 (1 : Nat)) (2 : Nat)) 256) (Nat.shiftRight (Nat.land u8 (192 : Nat)) (6 : Nat)))
def get_core (r0 : Nat) (r1 : Nat) (r2 : Nat) (r3 : Nat) (r4 : Nat) (r5 : Nat) (r6 : Nat) (r7 : Nat) (r8 : Nat) (r9 : Nat) (r10 : Nat) (r11 : Nat) (r12 : Nat) (r13 : Nat) (r14 : Nat) (r15 : Nat) (r16 : Nat) (r17 : Nat) (r18 : Nat) (r19 : Nat) (r20 : Nat) (r21 : Nat) (r22 : Nat) (r23 : Nat) (r24 : Nat) (r25 : Nat) (r26 : Nat) (r27 : Nat) (r28 : Nat) (r29 : Nat) (r30 : Nat) (r31 : Nat) (abv : (List Nat)) : (List Nat) :=
  match (GenV40.Get_core r0 r1 r2 r3 r4 r5 r6 r7 r8 r9 r10 r11 r12 r13 r14 r15 r16 r17 r18 r19 r20 r21 r22 r23 r24 r25 r26 r27 r28 r29 r30 r31 abv) with
  | (str, _) =>
  str

def get (u0 : Nat) (u1 : Nat) (u2 : Nat) (u3 : Nat) (u4 : Nat) (u5 : Nat) (u6 : Nat) (u7 : Nat) (u8 : Nat) (abv : (List Nat)) : (List Nat) :=
  get_core (Nat.shiftRight (Nat.land u0 (192 : Nat)) (6 : Nat)) (Nat.shiftRight (Nat.land u0 (32 : Nat)) (5 : Nat)) (Nat.shiftRight (Nat.land u0 (16 : Nat)) (4 : Nat)) (Nat.shiftRight (Nat.land u0 (12 : Nat)) (2 : Nat)) (Nat.land u0 (3 : Nat)) (Nat.shiftRight (Nat.land u1 (192 : Nat)) (6 : Nat)) (Nat.shiftRight (Nat.land u1 (48 : Nat)) (4 : Nat)) (Nat.shiftRight (Nat.land u1 (12 : Nat)) (2 : Nat)) (Nat.land u1 (3 : Nat)) (Nat.shiftRight (Nat.land u2 (192 : Nat)) (6 : Nat)) (Nat.shiftRight (Nat.land u2 (48 : Nat)) (4 : Nat)) (Nat.shiftRight (Nat.land u2 (12 : Nat)) (2 : Nat)) (Nat.land u2 (3 : Nat)) (Nat.shiftRight (Nat.land u3 (192 : Nat)) (6 : Nat)) (Nat.shiftRight (Nat.land u3 (48 : Nat)) (4 : Nat)) (Nat.shiftRight (Nat.land u3 (14 : Nat)) (1 : Nat)) (Nat.lor (Nat.mod (Nat.shiftLeft (Nat.land u3 (1 : Nat)) (1 : Nat)) 256) (Nat.shiftRight (Nat.land u4 (128 : Nat)) (7 : Nat))) (Nat.shiftRight (Nat.land u4 (96 : Nat)) (5 : Nat)) (Nat.shiftRight (Nat.land u4 (24 : Nat)) (3 : Nat)) (Nat.shiftRight (Nat.land u4 (6 : Nat)) (1 : Nat)) (Nat.lor (Nat.mod (Nat.shiftLeft (Nat.land u4 (1 : Nat)) (1 : Nat)) 256) (Nat.shiftRight (Nat.land u5 (128 : Nat)) (7 : Nat))) (Nat.shiftRight (Nat.land u5 (96 : Nat)) (5 : Nat)) (Nat.shiftRight (Nat.land u5 (24 : Nat)) (3 : Nat)) (Nat.shiftRight (Nat.land u5 (6 : Nat)) (1 : Nat)) (Nat.lor (Nat.mod (Nat.shiftLeft (Nat.land u5 (1 : Nat)) (2 : Nat)) 256) (Nat.shiftRight (Nat.land u6 (192 : Nat)) (6 : Nat))) (Nat.shiftRight (Nat.land u6 (56 : Nat)) (3 : Nat)) (Nat.shiftRight (Nat.land u6 (6 : Nat)) (1 : Nat)) (Nat.lor (Nat.mod (Nat.shiftLeft (Nat.land u6 (1 : Nat)) (1 : Nat)) 256) (Nat.shiftRight (Nat.land u7 (128 : Nat)) (7 : Nat))) (Nat.shiftRight (Nat.land u7 (96 : Nat)) (5 : Nat)) (Nat.shiftRight (Nat.land u7 (24 : Nat)) (3 : Nat)) (Nat.shiftRight (Nat.land u7 (6 : Nat)) (1 : Nat)) (Nat.lor (Nat.mod (Nat.shiftLeft (Nat.land u7 (1 : Nat)) (2 : Nat)) 256) (Nat.shiftRight (Nat.land u8 (192 : Nat)) (6 : Nat))) abv

/-- mandatory  (cvss40.go) -/
def mandatory (b : (List Nat)) (pre : (List Nat)) (v : (List Nat)) : (List Nat) :=
  let b := (b ++ pre)
  let b := (b ++ v)
  b

/-- notMandatory  (cvss40.go) -/
def notMandatory (b : (List Nat)) (pre : (List Nat)) (v : (List Nat)) : (List Nat) :=
  cond (Go.strEq v ([88] : List Nat) /- X -/)
    (b)
    (let b := (GenV40.mandatory b pre v)
    b)

/-- Vector  (cvss40.go) -/
--   r0 := (Nat.land u2 (12 : Nat))
--   r1 := (Nat.land u2 (3 : Nat))
--   r2 := (Nat.land u3 (192 : Nat))
--   r3 := (Nat.land u3 (48 : Nat))
--   r4 := (Nat.land u3 (14 : Nat))
--   r5 := (Nat.land u3 (1 : Nat))
--   r6 := (Nat.land u4 (128 : Nat))
--   r7 := (Nat.land u4 (96 : Nat))
--   r8 := (Nat.land u4 (24 : Nat))
--   r9 := (Nat.land u4 (6 : Nat))
--   r10 := (Nat.land u4 (1 : Nat))
--   r11 := (Nat.land u5 (128 : Nat))
--   r12 := (Nat.land u5 (96 : Nat))
--   r13 := (Nat.land u5 (24 : Nat))
--   r14 := (Nat.land u5 (6 : Nat))
--   r15 := (Nat.land u5 (1 : Nat))
--   r16 := (Nat.land u6 (192 : Nat))
--   r17 := (Nat.land u6 (56 : Nat))
--   r18 := (Nat.land u6 (6 : Nat))
--   r19 := (Nat.land u6 (1 : Nat))
--   r20 := (Nat.land u7 (128 : Nat))
--   r21 := (Nat.land u7 (96 : Nat))
--   r22 := (Nat.land u7 (24 : Nat))
--   r23 := (Nat.land u7 (6 : Nat))
--   r24 := (Nat.lor (Nat.mod (Nat.shiftLeft (Nat.land u7 (1 : Nat)) (2 : Nat)) 256) (Nat.shiftRight (Nat.land u8 (192 : Nat)) (6 : Nat)))
--   r25 := (Nat.shiftRight (Nat.land u0 (192 : Nat)) (6 : Nat))
--   r26 := (Nat.shiftRight (Nat.land u0 (32 : Nat)) (5 : Nat))
--   r27 := (Nat.shiftRight (Nat.land u0 (16 : Nat)) (4 : Nat))
--   r28 := (Nat.shiftRight (Nat.land u0 (12 : Nat)) (2 : Nat))
--   r29 := (Nat.land u0 (3 : Nat))
--   r30 := (Nat.shiftRight (Nat.land u1 (192 : Nat)) (6 : Nat))
--   r31 := (Nat.shiftRight (Nat.land u1 (48 : Nat)) (4 : Nat))
--   r32 := (Nat.shiftRight (Nat.land u1 (12 : Nat)) (2 : Nat))
--   r33 := (Nat.land u1 (3 : Nat))
--   r34 := (Nat.shiftRight (Nat.land u2 (192 : Nat)) (6 : Nat))
--   r35 := (Nat.shiftRight (Nat.land u2 (48 : Nat)) (4 : Nat))
--   r36 := (Nat.shiftRight (Nat.land u2 (12 : Nat)) (2 : Nat))
--   r37 := (Nat.shiftRight (Nat.land u3 (192 : Nat)) (6 : Nat))
--   r38 := (Nat.shiftRight (Nat.land u3 (48 : Nat)) (4 : Nat))
--   r39 := (Nat.shiftRight (Nat.land u3 (14 : Nat)) (1 : Nat))
--   r40 := (Nat.lor (Nat.mod (Nat.shiftLeft (Nat.land u3 (1 : Nat)) (1 : Nat)) 256) (Nat.shiftRight (Nat.land u4 (128 : Nat)) (7 : Nat)))
--   r41 := (Nat.shiftRight (Nat.land u4 (96 : Nat)) (5 : Nat))
--   r42 := (Nat.shiftRight (Nat.land u4 (24 : Nat)) (3 : Nat))
--   r43 := (Nat.shiftRight (Nat.land u4 (6 : Nat)) (1 : Nat))
--   r44 := (Nat.lor (Nat.mod (Nat.shiftLeft (Nat.land u4 (1 : Nat)) (1 : Nat)) 256) (Nat.shiftRight (Nat.land u5 (128 : Nat)) (7 : Nat)))
--   r45 := (Nat.shiftRight (Nat.land u5 (96 : Nat)) (5 : Nat))
--   r46 := (Nat.shiftRight (Nat.land u5 (24 : Nat)) (3 : Nat))
--   r47 := (Nat.shiftRight (Nat.land u5 (6 : Nat)) (1 : Nat))
--   r48 := (Nat.lor (Nat.mod (Nat.shiftLeft (Nat.land u5 (1 : Nat)) (2 : Nat)) 256) (Nat.shiftRight (Nat.land u6 (192 : Nat)) (6 : Nat)))
--   r49 := (Nat.shiftRight (Nat.land u6 (56 : Nat)) (3 : Nat))
--   r50 := (Nat.shiftRight (Nat.land u6 (6 : Nat)) (1 : Nat))
--   r51 := (Nat.lor (Nat.mod (Nat.shiftLeft (Nat.land u6 (1 : Nat)) (1 : Nat)) 256) (Nat.shiftRight (Nat.land u7 (128 : Nat)) (7 : Nat)))
--   r52 := (Nat.shiftRight (Nat.land u7 (96 : Nat)) (5 : Nat))
--   r53 := (Nat.shiftRight (Nat.land u7 (24 : Nat)) (3 : Nat))
--   r54 := (Nat.shiftRight (Nat.land u7 (6 : Nat)) (1 : Nat))
def Vector_core (r0 : Nat) (r1 : Nat) (r2 : Nat) (r3 : Nat) (r4 : Nat) (r5 : Nat) (r6 : Nat) (r7 : Nat) (r8 : Nat) (r9 : Nat) (r10 : Nat) (r11 : Nat) (r12 : Nat) (r13 : Nat) (r14 : Nat) (r15 : Nat) (r16 : Nat) (r17 : Nat) (r18 : Nat) (r19 : Nat) (r20 : Nat) (r21 : Nat) (r22 : Nat) (r23 : Nat) (r24 : Nat) (r25 : Nat) (r26 : Nat) (r27 : Nat) (r28 : Nat) (r29 : Nat) (r30 : Nat) (r31 : Nat) (r32 : Nat) (r33 : Nat) (r34 : Nat) (r35 : Nat) (r36 : Nat) (r37 : Nat) (r38 : Nat) (r39 : Nat) (r40 : Nat) (r41 : Nat) (r42 : Nat) (r43 : Nat) (r44 : Nat) (r45 : Nat) (r46 : Nat) (r47 : Nat) (r48 : Nat) (r49 : Nat) (r50 : Nat) (r51 : Nat) (r52 : Nat) (r53 : Nat) (r54 : Nat) : (List Nat) :=
  F64.flet (GenV40.lenVec_core r0 r1 r2 r3 r4 r5 r6 r7 r8 r9 r10 r11 r12 r13 r14 r15 r16 r17 r18 r19 r20 r21 r22 r23 r24) fun l =>
  let b := ([] : List Nat)
  let b := (b ++ ([67, 86, 83, 83, 58, 52, 46, 48] : List Nat) /- CVSS:4.0 -/)
  let b := (GenV40.mandatory b ([47, 65, 86, 58] : List Nat) /- /AV: -/ (GenV40.get_core r25 r26 r27 r28 r29 r30 r31 r32 r33 r34 r35 r36 r1 r37 r38 r39 r40 r41 r42 r43 r44 r45 r46 r47 r48 r49 r50 r51 r52 r53 r54 r24 ([65, 86] : List Nat) /- AV -/))
  let b := (GenV40.mandatory b ([47, 65, 67, 58] : List Nat) /- /AC: -/ (GenV40.get_core r25 r26 r27 r28 r29 r30 r31 r32 r33 r34 r35 r36 r1 r37 r38 r39 r40 r41 r42 r43 r44 r45 r46 r47 r48 r49 r50 r51 r52 r53 r54 r24 ([65, 67] : List Nat) /- AC -/))
  let b := (GenV40.mandatory b ([47, 65, 84, 58] : List Nat) /- /AT: -/ (GenV40.get_core r25 r26 r27 r28 r29 r30 r31 r32 r33 r34 r35 r36 r1 r37 r38 r39 r40 r41 r42 r43 r44 r45 r46 r47 r48 r49 r50 r51 r52 r53 r54 r24 ([65, 84] : List Nat) /- AT -/))
  let b := (GenV40.mandatory b ([47, 80, 82, 58] : List Nat) /- /PR: -/ (GenV40.get_core r25 r26 r27 r28 r29 r30 r31 r32 r33 r34 r35 r36 r1 r37 r38 r39 r40 r41 r42 r43 r44 r45 r46 r47 r48 r49 r50 r51 r52 r53 r54 r24 ([80, 82] : List Nat) /- PR -/))
  let b := (GenV40.mandatory b ([47, 85, 73, 58] : List Nat) /- /UI: -/ (GenV40.get_core r25 r26 r27 r28 r29 r30 r31 r32 r33 r34 r35 r36 r1 r37 r38 r39 r40 r41 r42 r43 r44 r45 r46 r47 r48 r49 r50 r51 r52 r53 r54 r24 ([85, 73] : List Nat) /- UI -/))
  let b := (GenV40.mandatory b ([47, 86, 67, 58] : List Nat) /- /VC: -/ (GenV40.get_core r25 r26 r27 r28 r29 r30 r31 r32 r33 r34 r35 r36 r1 r37 r38 r39 r40 r41 r42 r43 r44 r45 r46 r47 r48 r49 r50 r51 r52 r53 r54 r24 ([86, 67] : List Nat) /- VC -/))
  let b := (GenV40.mandatory b ([47, 86, 73, 58] : List Nat) /- /VI: -/ (GenV40.get_core r25 r26 r27 r28 r29 r30 r31 r32 r33 r34 r35 r36 r1 r37 r38 r39 r40 r41 r42 r43 r44 r45 r46 r47 r48 r49 r50 r51 r52 r53 r54 r24 ([86, 73] : List Nat) /- VI -/))
  let b := (GenV40.mandatory b ([47, 86, 65, 58] : List Nat) /- /VA: -/ (GenV40.get_core r25 r26 r27 r28 r29 r30 r31 r32 r33 r34 r35 r36 r1 r37 r38 r39 r40 r41 r42 r43 r44 r45 r46 r47 r48 r49 r50 r51 r52 r53 r54 r24 ([86, 65] : List Nat) /- VA -/))
  let b := (GenV40.mandatory b ([47, 83, 67, 58] : List Nat) /- /SC: -/ (GenV40.get_core r25 r26 r27 r28 r29 r30 r31 r32 r33 r34 r35 r36 r1 r37 r38 r39 r40 r41 r42 r43 r44 r45 r46 r47 r48 r49 r50 r51 r52 r53 r54 r24 ([83, 67] : List Nat) /- SC -/))
  let b := (GenV40.mandatory b ([47, 83, 73, 58] : List Nat) /- /SI: -/ (GenV40.get_core r25 r26 r27 r28 r29 r30 r31 r32 r33 r34 r35 r36 r1 r37 r38 r39 r40 r41 r42 r43 r44 r45 r46 r47 r48 r49 r50 r51 r52 r53 r54 r24 ([83, 73] : List Nat) /- SI -/))
  let b := (GenV40.mandatory b ([47, 83, 65, 58] : List Nat) /- /SA: -/ (GenV40.get_core r25 r26 r27 r28 r29 r30 r31 r32 r33 r34 r35 r36 r1 r37 r38 r39 r40 r41 r42 r43 r44 r45 r46 r47 r48 r49 r50 r51 r52 r53 r54 r24 ([83, 65] : List Nat) /- SA -/))
  let b := (GenV40.notMandatory b ([47, 69, 58] : List Nat) /- /E: -/ (GenV40.get_core r25 r26 r27 r28 r29 r30 r31 r32 r33 r34 r35 r36 r1 r37 r38 r39 r40 r41 r42 r43 r44 r45 r46 r47 r48 r49 r50 r51 r52 r53 r54 r24 ([69] : List Nat) /- E -/))
  let b := (GenV40.notMandatory b ([47, 67, 82, 58] : List Nat) /- /CR: -/ (GenV40.get_core r25 r26 r27 r28 r29 r30 r31 r32 r33 r34 r35 r36 r1 r37 r38 r39 r40 r41 r42 r43 r44 r45 r46 r47 r48 r49 r50 r51 r52 r53 r54 r24 ([67, 82] : List Nat) /- CR -/))
  let b := (GenV40.notMandatory b ([47, 73, 82, 58] : List Nat) /- /IR: -/ (GenV40.get_core r25 r26 r27 r28 r29 r30 r31 r32 r33 r34 r35 r36 r1 r37 r38 r39 r40 r41 r42 r43 r44 r45 r46 r47 r48 r49 r50 r51 r52 r53 r54 r24 ([73, 82] : List Nat) /- IR -/))
  let b := (GenV40.notMandatory b ([47, 65, 82, 58] : List Nat) /- /AR: -/ (GenV40.get_core r25 r26 r27 r28 r29 r30 r31 r32 r33 r34 r35 r36 r1 r37 r38 r39 r40 r41 r42 r43 r44 r45 r46 r47 r48 r49 r50 r51 r52 r53 r54 r24 ([65, 82] : List Nat) /- AR -/))
  let b := (GenV40.notMandatory b ([47, 77, 65, 86, 58] : List Nat) /- /MAV: -/ (GenV40.get_core r25 r26 r27 r28 r29 r30 r31 r32 r33 r34 r35 r36 r1 r37 r38 r39 r40 r41 r42 r43 r44 r45 r46 r47 r48 r49 r50 r51 r52 r53 r54 r24 ([77, 65, 86] : List Nat) /- MAV -/))
  let b := (GenV40.notMandatory b ([47, 77, 65, 67, 58] : List Nat) /- /MAC: -/ (GenV40.get_core r25 r26 r27 r28 r29 r30 r31 r32 r33 r34 r35 r36 r1 r37 r38 r39 r40 r41 r42 r43 r44 r45 r46 r47 r48 r49 r50 r51 r52 r53 r54 r24 ([77, 65, 67] : List Nat) /- MAC -/))
  let b := (GenV40.notMandatory b ([47, 77, 65, 84, 58] : List Nat) /- /MAT: -/ (GenV40.get_core r25 r26 r27 r28 r29 r30 r31 r32 r33 r34 r35 r36 r1 r37 r38 r39 r40 r41 r42 r43 r44 r45 r46 r47 r48 r49 r50 r51 r52 r53 r54 r24 ([77, 65, 84] : List Nat) /- MAT -/))
  let b := (GenV40.notMandatory b ([47, 77, 80, 82, 58] : List Nat) /- /MPR: -/ (GenV40.get_core r25 r26 r27 r28 r29 r30 r31 r32 r33 r34 r35 r36 r1 r37 r38 r39 r40 r41 r42 r43 r44 r45 r46 r47 r48 r49 r50 r51 r52 r53 r54 r24 ([77, 80, 82] : List Nat) /- MPR -/))
  let b := (GenV40.notMandatory b ([47, 77, 85, 73, 58] : List Nat) /- /MUI: -/ (GenV40.get_core r25 r26 r27 r28 r29 r30 r31 r32 r33 r34 r35 r36 r1 r37 r38 r39 r40 r41 r42 r43 r44 r45 r46 r47 r48 r49 r50 r51 r52 r53 r54 r24 ([77, 85, 73] : List Nat) /- MUI -/))
  let b := (GenV40.notMandatory b ([47, 77, 86, 67, 58] : List Nat) /- /MVC: -/ (GenV40.get_core r25 r26 r27 r28 r29 r30 r31 r32 r33 r34 r35 r36 r1 r37 r38 r39 r40 r41 r42 r43 r44 r45 r46 r47 r48 r49 r50 r51 r52 r53 r54 r24 ([77, 86, 67] : List Nat) /- MVC -/))
  let b := (GenV40.notMandatory b ([47, 77, 86, 73, 58] : List Nat) /- /MVI: -/ (GenV40.get_core r25 r26 r27 r28 r29 r30 r31 r32 r33 r34 r35 r36 r1 r37 r38 r39 r40 r41 r42 r43 r44 r45 r46 r47 r48 r49 r50 r51 r52 r53 r54 r24 ([77, 86, 73] : List Nat) /- MVI -/))
  let b := (GenV40.notMandatory b ([47, 77, 86, 65, 58] : List Nat) /- /MVA: -/ (GenV40.get_core r25 r26 r27 r28 r29 r30 r31 r32 r33 r34 r35 r36 r1 r37 r38 r39 r40 r41 r42 r43 r44 r45 r46 r47 r48 r49 r50 r51 r52 r53 r54 r24 ([77, 86, 65] : List Nat) /- MVA -/))
  let b := (GenV40.notMandatory b ([47, 77, 83, 67, 58] : List Nat) /- /MSC: -/ (GenV40.get_core r25 r26 r27 r28 r29 r30 r31 r32 r33 r34 r35 r36 r1 r37 r38 r39 r40 r41 r42 r43 r44 r45 r46 r47 r48 r49 r50 r51 r52 r53 r54 r24 ([77, 83, 67] : List Nat) /- MSC -/))
  let b := (GenV40.notMandatory b ([47, 77, 83, 73, 58] : List Nat) /- /MSI: -/ (GenV40.get_core r25 r26 r27 r28 r29 r30 r31 r32 r33 r34 r35 r36 r1 r37 r38 r39 r40 r41 r42 r43 r44 r45 r46 r47 r48 r49 r50 r51 r52 r53 r54 r24 ([77, 83, 73] : List Nat) /- MSI -/))
  let b := (GenV40.notMandatory b ([47, 77, 83, 65, 58] : List Nat) /- /MSA: -/ (GenV40.get_core r25 r26 r27 r28 r29 r30 r31 r32 r33 r34 r35 r36 r1 r37 r38 r39 r40 r41 r42 r43 r44 r45 r46 r47 r48 r49 r50 r51 r52 r53 r54 r24 ([77, 83, 65] : List Nat) /- MSA -/))
  let b := (GenV40.notMandatory b ([47, 83, 58] : List Nat) /- /S: -/ (GenV40.get_core r25 r26 r27 r28 r29 r30 r31 r32 r33 r34 r35 r36 r1 r37 r38 r39 r40 r41 r42 r43 r44 r45 r46 r47 r48 r49 r50 r51 r52 r53 r54 r24 ([83] : List Nat) /- S -/))
  let b := (GenV40.notMandatory b ([47, 65, 85, 58] : List Nat) /- /AU: -/ (GenV40.get_core r25 r26 r27 r28 r29 r30 r31 r32 r33 r34 r35 r36 r1 r37 r38 r39 r40 r41 r42 r43 r44 r45 r46 r47 r48 r49 r50 r51 r52 r53 r54 r24 ([65, 85] : List Nat) /- AU -/))
  let b := (GenV40.notMandatory b ([47, 82, 58] : List Nat) /- /R: -/ (GenV40.get_core r25 r26 r27 r28 r29 r30 r31 r32 r33 r34 r35 r36 r1 r37 r38 r39 r40 r41 r42 r43 r44 r45 r46 r47 r48 r49 r50 r51 r52 r53 r54 r24 ([82] : List Nat) /- R -/))
  let b := (GenV40.notMandatory b ([47, 86, 58] : List Nat) /- /V: -/ (GenV40.get_core r25 r26 r27 r28 r29 r30 r31 r32 r33 r34 r35 r36 r1 r37 r38 r39 r40 r41 r42 r43 r44 r45 r46 r47 r48 r49 r50 r51 r52 r53 r54 r24 ([86] : List Nat) /- V -/))
  let b := (GenV40.notMandatory b ([47, 82, 69, 58] : List Nat) /- /RE: -/ (GenV40.get_core r25 r26 r27 r28 r29 r30 r31 r32 r33 r34 r35 r36 r1 r37 r38 r39 r40 r41 r42 r43 r44 r45 r46 r47 r48 r49 r50 r51 r52 r53 r54 r24 ([82, 69] : List Nat) /- RE -/))
  let b := (GenV40.notMandatory b ([47, 85, 58] : List Nat) /- /U: -/ (GenV40.get_core r25 r26 r27 r28 r29 r30 r31 r32 r33 r34 r35 r36 r1 r37 r38 r39 r40 r41 r42 r43 r44 r45 r46 r47 r48 r49 r50 r51 r52 r53 r54 r24 ([85] : List Nat) /- U -/))
  b

/-- capacity argument of the `make` in Vector -/
def Vector_cap_core (r0 : Nat) (r1 : Nat) (r2 : Nat) (r3 : Nat) (r4 : Nat) (r5 : Nat) (r6 : Nat) (r7 : Nat) (r8 : Nat) (r9 : Nat) (r10 : Nat) (r11 : Nat) (r12 : Nat) (r13 : Nat) (r14 : Nat) (r15 : Nat) (r16 : Nat) (r17 : Nat) (r18 : Nat) (r19 : Nat) (r20 : Nat) (r21 : Nat) (r22 : Nat) (r23 : Nat) (r24 : Nat) (r25 : Nat) (r26 : Nat) (r27 : Nat) (r28 : Nat) (r29 : Nat) (r30 : Nat) (r31 : Nat) (r32 : Nat) (r33 : Nat) (r34 : Nat) (r35 : Nat) (r36 : Nat) (r37 : Nat) (r38 : Nat) (r39 : Nat) (r40 : Nat) (r41 : Nat) (r42 : Nat) (r43 : Nat) (r44 : Nat) (r45 : Nat) (r46 : Nat) (r47 : Nat) (r48 : Nat) (r49 : Nat) (r50 : Nat) (r51 : Nat) (r52 : Nat) (r53 : Nat) (r54 : Nat) : Nat :=
  F64.flet (GenV40.lenVec_core r0 r1 r2 r3 r4 r5 r6 r7 r8 r9 r10 r11 r12 r13 r14 r15 r16 r17 r18 r19 r20 r21 r22 r23 r24) fun l =>
  l

def Vector (u0 : Nat) (u1 : Nat) (u2 : Nat) (u3 : Nat) (u4 : Nat) (u5 : Nat) (u6 : Nat) (u7 : Nat) (u8 : Nat) : (List Nat) :=
  Vector_core (Nat.land u2 (12 : Nat)) (Nat.land u2 (3 : Nat)) (Nat.land u3 (192 : Nat)) (Nat.land u3 (48 : Nat)) (Nat.land u3 (14 : Nat)) (Nat.land u3 (1 : Nat)) (Nat.land u4 (128 : Nat)) (Nat.land u4 (96 : Nat)) (Nat.land u4 (24 : Nat)) (Nat.land u4 (6 : Nat)) (Nat.land u4 (1 : Nat)) (Nat.land u5 (128 : Nat)) (Nat.land u5 (96 : Nat)) (Nat.land u5 (24 : Nat)) (Nat.land u5 (6 : Nat)) (Nat.land u5 (1 : Nat)) (Nat.land u6 (192 : Nat)) (Nat.land u6 (56 : Nat)) (Nat.land u6 (6 : Nat)) (Nat.land u6 (1 : Nat)) (Nat.land u7 (128 : Nat)) (Nat.land u7 (96 : Nat)) (Nat.land u7 (24 : Nat)) (Nat.land u7 (6 : Nat)) (Nat.lor (Nat.mod (Nat.shiftLeft (Nat.land u7 (1 : Nat)) (2 : Nat)) 256) (Nat.shiftRight (Nat.land u8 (192 : Nat)) (6 : Nat))) (Nat.shiftRight (Nat.land u0 (192 : Nat)) (6 : Nat)) (Nat.shiftRight (Nat.land u0 (32 : Nat)) (5 : Nat)) (Nat.shiftRight (Nat.land u0 (16 : Nat)) (4 : Nat)) (Nat.shiftRight (Nat.land u0 (12 : Nat)) (2 : Nat)) (Nat.land u0 (3 : Nat)) (Nat.shiftRight (Nat.land u1 (192 : Nat)) (6 : Nat)) (Nat.shiftRight (Nat.land u1 (48 : Nat)) (4 : Nat)) (Nat.shiftRight (Nat.land u1 (12 : Nat)) (2 : Nat)) (Nat.land u1 (3 : Nat)) (Nat.shiftRight (Nat.land u2 (192 : Nat)) (6 : Nat)) (Nat.shiftRight (Nat.land u2 (48 : Nat)) (4 : Nat)) (Nat.shiftRight (Nat.land u2 (12 : Nat)) (2 : Nat)) (Nat.shiftRight (Nat.land u3 (192 : Nat)) (6 : Nat)) (Nat.shiftRight (Nat.land u3 (48 : Nat)) (4 : Nat)) (Nat.shiftRight (Nat.land u3 (14 : Nat)) (1 : Nat)) (Nat.lor (Nat.mod (Nat.shiftLeft (Nat.land u3 (1 : Nat)) (1 : Nat)) 256) (Nat.shiftRight (Nat.land u4 (128 : Nat)) (7 : Nat))) (Nat.shiftRight (Nat.land u4 (96 : Nat)) (5 : Nat)) (Nat.shiftRight (Nat.land u4 (24 : Nat)) (3 : Nat)) (Nat.shiftRight (Nat.land u4 (6 : Nat)) (1 : Nat)) (Nat.lor (Nat.mod (Nat.shiftLeft (Nat.land u4 (1 : Nat)) (1 : Nat)) 256) (Nat.shiftRight (Nat.land u5 (128 : Nat)) (7 : Nat))) (Nat.shiftRight (Nat.land u5 (96 : Nat)) (5 : Nat)) (Nat.shiftRight (Nat.land u5 (24 : Nat)) (3 : Nat)) (Nat.shiftRight (Nat.land u5 (6 : Nat)) (1 : Nat)) (Nat.lor (Nat.mod (Nat.shiftLeft (Nat.land u5 (1 : Nat)) (2 : Nat)) 256) (Nat.shiftRight (Nat.land u6 (192 : Nat)) (6 : Nat))) (Nat.shiftRight (Nat.land u6 (56 : Nat)) (3 : Nat)) (Nat.shiftRight (Nat.land u6 (6 : Nat)) (1 : Nat)) (Nat.lor (Nat.mod (Nat.shiftLeft (Nat.land u6 (1 : Nat)) (1 : Nat)) 256) (Nat.shiftRight (Nat.land u7 (128 : Nat)) (7 : Nat))) (Nat.shiftRight (Nat.land u7 (96 : Nat)) (5 : Nat)) (Nat.shiftRight (Nat.land u7 (24 : Nat)) (3 : Nat)) (Nat.shiftRight (Nat.land u7 (6 : Nat)) (1 : Nat))

def Vector_cap (u0 : Nat) (u1 : Nat) (u2 : Nat) (u3 : Nat) (u4 : Nat) (u5 : Nat) (u6 : Nat) (u7 : Nat) (u8 : Nat) : Nat :=
  Vector_cap_core (Nat.land u2 (12 : Nat)) (Nat.land u2 (3 : Nat)) (Nat.land u3 (192 : Nat)) (Nat.land u3 (48 : Nat)) (Nat.land u3 (14 : Nat)) (Nat.land u3 (1 : Nat)) (Nat.land u4 (128 : Nat)) (Nat.land u4 (96 : Nat)) (Nat.land u4 (24 : Nat)) (Nat.land u4 (6 : Nat)) (Nat.land u4 (1 : Nat)) (Nat.land u5 (128 : Nat)) (Nat.land u5 (96 : Nat)) (Nat.land u5 (24 : Nat)) (Nat.land u5 (6 : Nat)) (Nat.land u5 (1 : Nat)) (Nat.land u6 (192 : Nat)) (Nat.land u6 (56 : Nat)) (Nat.land u6 (6 : Nat)) (Nat.land u6 (1 : Nat)) (Nat.land u7 (128 : Nat)) (Nat.land u7 (96 : Nat)) (Nat.land u7 (24 : Nat)) (Nat.land u7 (6 : Nat)) (Nat.lor (Nat.mod (Nat.shiftLeft (Nat.land u7 (1 : Nat)) (2 : Nat)) 256) (Nat.shiftRight (Nat.land u8 (192 : Nat)) (6 : Nat))) (Nat.shiftRight (Nat.land u0 (192 : Nat)) (6 : Nat)) (Nat.shiftRight (Nat.land u0 (32 : Nat)) (5 : Nat)) (Nat.shiftRight (Nat.land u0 (16 : Nat)) (4 : Nat)) (Nat.shiftRight (Nat.land u0 (12 : Nat)) (2 : Nat)) (Nat.land u0 (3 : Nat)) (Nat.shiftRight (Nat.land u1 (192 : Nat)) (6 : Nat)) (Nat.shiftRight (Nat.land u1 (48 : Nat)) (4 : Nat)) (Nat.shiftRight (Nat.land u1 (12 : Nat)) (2 : Nat)) (Nat.land u1 (3 : Nat)) (Nat.shiftRight (Nat.land u2 (192 : Nat)) (6 : Nat)) (Nat.shiftRight (Nat.land u2 (48 : Nat)) (4 : Nat)) (Nat.shiftRight (Nat.land u2 (12 : Nat)) (2 : Nat)) (Nat.shiftRight (Nat.land u3 (192 : Nat)) (6 : Nat)) (Nat.shiftRight (Nat.land u3 (48 : Nat)) (4 : Nat)) (Nat.shiftRight (Nat.land u3 (14 : Nat)) (1 : Nat)) (Nat.lor (Nat.mod (Nat.shiftLeft (Nat.land u3 (1 : Nat)) (1 : Nat)) 256) (Nat.shiftRight (Nat.land u4 (128 : Nat)) (7 : Nat))) (Nat.shiftRight (Nat.land u4 (96 : Nat)) (5 : Nat)) (Nat.shiftRight (Nat.land u4 (24 : Nat)) (3 : Nat)) (Nat.shiftRight (Nat.land u4 (6 : Nat)) (1 : Nat)) (Nat.lor (Nat.mod (Nat.shiftLeft (Nat.land u4 (1 : Nat)) (1 : Nat)) 256) (Nat.shiftRight (Nat.land u5 (128 : Nat)) (7 : Nat))) (Nat.shiftRight (Nat.land u5 (96 : Nat)) (5 : Nat)) (Nat.shiftRight (Nat.land u5 (24 : Nat)) (3 : Nat)) (Nat.shiftRight (Nat.land u5 (6 : Nat)) (1 : Nat)) (Nat.lor (Nat.mod (Nat.shiftLeft (Nat.land u5 (1 : Nat)) (2 : Nat)) 256) (Nat.shiftRight (Nat.land u6 (192 : Nat)) (6 : Nat))) (Nat.shiftRight (Nat.land u6 (56 : Nat)) (3 : Nat)) (Nat.shiftRight (Nat.land u6 (6 : Nat)) (1 : Nat)) (Nat.lor (Nat.mod (Nat.shiftLeft (Nat.land u6 (1 : Nat)) (1 : Nat)) 256) (Nat.shiftRight (Nat.land u7 (128 : Nat)) (7 : Nat))) (Nat.shiftRight (Nat.land u7 (96 : Nat)) (5 : Nat)) (Nat.shiftRight (Nat.land u7 (24 : Nat)) (3 : Nat)) (Nat.shiftRight (Nat.land u7 (6 : Nat)) (1 : Nat))

/-- mod  (cvss40.go) -/
def mod_ (base : Nat) (modified : Nat) : Nat :=
  cond (!(Nat.beq modified (0 : Nat)))
    ((Nat.mod (Nat.sub (Nat.add modified 256) (1 : Nat)) 256))
    (base)

/-- macroVector  (cvss40.go) -/
--   r0 := (Nat.shiftRight (Nat.land u0 (192 : Nat)) (6 : Nat))
--   r1 := (Nat.shiftRight (Nat.land u3 (14 : Nat)) (1 : Nat))
--   r2 := (Nat.shiftRight (Nat.land u0 (32 : Nat)) (5 : Nat))
--   r3 := (Nat.lor (Nat.mod (Nat.shiftLeft (Nat.land u3 (1 : Nat)) (1 : Nat)) 256) (Nat.shiftRight (Nat.land u4 (128 : Nat)) (7 : Nat)))
--   r4 := (Nat.shiftRight (Nat.land u0 (16 : Nat)) (4 : Nat))
--   r5 := (Nat.shiftRight (Nat.land u4 (96 : Nat)) (5 : Nat))
--   r6 := (Nat.shiftRight (Nat.land u0 (12 : Nat)) (2 : Nat))
--   r7 := (Nat.shiftRight (Nat.land u4 (24 : Nat)) (3 : Nat))
--   r8 := (Nat.land u0 (3 : Nat))
--   r9 := (Nat.shiftRight (Nat.land u4 (6 : Nat)) (1 : Nat))
--   r10 := (Nat.shiftRight (Nat.land u1 (192 : Nat)) (6 : Nat))
--   r11 := (Nat.lor (Nat.mod (Nat.shiftLeft (Nat.land u4 (1 : Nat)) (1 : Nat)) 256) (Nat.shiftRight (Nat.land u5 (128 : Nat)) (7 : Nat)))
--   r12 := (Nat.shiftRight (Nat.land u1 (48 : Nat)) (4 : Nat))
--   r13 := (Nat.shiftRight (Nat.land u5 (6 : Nat)) (1 : Nat))
--   r14 := (Nat.shiftRight (Nat.land u1 (12 : Nat)) (2 : Nat))
--   r15 := (Nat.shiftRight (Nat.land u5 (96 : Nat)) (5 : Nat))
--   r16 := (Nat.lor (Nat.mod (Nat.shiftLeft (Nat.land u5 (1 : Nat)) (2 : Nat)) 256) (Nat.shiftRight (Nat.land u6 (192 : Nat)) (6 : Nat)))
--   r17 := (Nat.land u1 (3 : Nat))
--   r18 := (Nat.shiftRight (Nat.land u2 (192 : Nat)) (6 : Nat))
--   r19 := (Nat.shiftRight (Nat.land u5 (24 : Nat)) (3 : Nat))
--   r20 := (Nat.shiftRight (Nat.land u6 (56 : Nat)) (3 : Nat))
--   r21 := (Nat.shiftRight (Nat.land u2 (48 : Nat)) (4 : Nat))
--   r22 := (Nat.shiftRight (Nat.land u2 (12 : Nat)) (2 : Nat))
--   r23 := (Nat.land u2 (3 : Nat))
--   r24 := (Nat.shiftRight (Nat.land u3 (192 : Nat)) (6 : Nat))
--   r25 := (Nat.shiftRight (Nat.land u3 (48 : Nat)) (4 : Nat))
def macroVector_core (r0 : Nat) (r1 : Nat) (r2 : Nat) (r3 : Nat) (r4 : Nat) (r5 : Nat) (r6 : Nat) (r7 : Nat) (r8 : Nat) (r9 : Nat) (r10 : Nat) (r11 : Nat) (r12 : Nat) (r13 : Nat) (r14 : Nat) (r15 : Nat) (r16 : Nat) (r17 : Nat) (r18 : Nat) (r19 : Nat) (r20 : Nat) (r21 : Nat) (r22 : Nat) (r23 : Nat) (r24 : Nat) (r25 : Nat) : (Nat × Nat × Nat × Nat × Nat × Nat) :=
  F64.flet (GenV40.mod_ r0 r1) fun av =>
  F64.flet (GenV40.mod_ r2 r3) fun ac =>
  F64.flet (GenV40.mod_ r4 r5) fun at_ =>
  F64.flet (GenV40.mod_ r6 r7) fun pr_ =>
  F64.flet (GenV40.mod_ r8 r9) fun ui =>
  F64.flet (GenV40.mod_ r10 r11) fun vc =>
  F64.flet (GenV40.mod_ r12 r13) fun sc_ =>
  F64.flet (GenV40.mod_ r14 r15) fun vi =>
  F64.flet r16 fun msi =>
  F64.flet (GenV40.mod_ r17 msi) fun si =>
  F64.flet (GenV40.mod_ r18 r19) fun va =>
  F64.flet r20 fun msa =>
  F64.flet (GenV40.mod_ r21 msa) fun sa =>
  F64.flet r22 fun e_ =>
  F64.flet r23 fun cr =>
  F64.flet r24 fun ir =>
  F64.flet r25 fun ar =>
  F64.flet (0 : Nat) fun eq1 =>
  match (cond (((Nat.beq av (0 : Nat)) && (Nat.beq pr_ (2 : Nat))) && (Nat.beq ui (0 : Nat)))
    (F64.flet (0 : Nat) fun eq1 =>
    eq1)
    (match (cond (((((Nat.beq av (0 : Nat)) || (Nat.beq pr_ (2 : Nat))) || (Nat.beq ui (0 : Nat))) && (!(((Nat.beq av (0 : Nat)) && (Nat.beq pr_ (2 : Nat))) && (Nat.beq ui (0 : Nat))))) && (!(Nat.beq av (3 : Nat))))
      (F64.flet (1 : Nat) fun eq1 =>
      eq1)
      (match (cond ((Nat.beq av (3 : Nat)) || (!(((Nat.beq av (0 : Nat)) || (Nat.beq pr_ (2 : Nat))) || (Nat.beq ui (0 : Nat)))))
        (F64.flet (2 : Nat) fun eq1 =>
        eq1)
        (eq1)) with
      | eq1 =>
      eq1)) with
    | eq1 =>
    eq1)) with
  | eq1 =>
  F64.flet (0 : Nat) fun eq2 =>
  match (cond (!((Nat.beq ac (1 : Nat)) && (Nat.beq at_ (0 : Nat))))
    (F64.flet (1 : Nat) fun eq2 =>
    eq2)
    (eq2)) with
  | eq2 =>
  F64.flet (0 : Nat) fun eq3 =>
  match (cond ((Nat.beq vc (0 : Nat)) && (Nat.beq vi (0 : Nat)))
    (F64.flet (0 : Nat) fun eq3 =>
    eq3)
    (match (cond ((!((Nat.beq vc (0 : Nat)) && (Nat.beq vi (0 : Nat)))) && (((Nat.beq vc (0 : Nat)) || (Nat.beq vi (0 : Nat))) || (Nat.beq va (0 : Nat))))
      (F64.flet (1 : Nat) fun eq3 =>
      eq3)
      (match (cond (!(((Nat.beq vc (0 : Nat)) || (Nat.beq vi (0 : Nat))) || (Nat.beq va (0 : Nat))))
        (F64.flet (2 : Nat) fun eq3 =>
        eq3)
        (eq3)) with
      | eq3 =>
      eq3)) with
    | eq3 =>
    eq3)) with
  | eq3 =>
  F64.flet (0 : Nat) fun eq4 =>
  match (cond ((Nat.beq msi (4 : Nat)) || (Nat.beq msa (4 : Nat)))
    (F64.flet (0 : Nat) fun eq4 =>
    eq4)
    (match (cond ((!((Nat.beq msi (4 : Nat)) || (Nat.beq msa (4 : Nat)))) && (((Nat.beq sc_ (0 : Nat)) || (Nat.beq si (0 : Nat))) || (Nat.beq sa (0 : Nat))))
      (F64.flet (1 : Nat) fun eq4 =>
      eq4)
      (match (cond ((!((Nat.beq msi (4 : Nat)) || (Nat.beq msa (4 : Nat)))) && (!(((Nat.beq sc_ (0 : Nat)) || (Nat.beq si (0 : Nat))) || (Nat.beq sa (0 : Nat)))))
        (F64.flet (2 : Nat) fun eq4 =>
        eq4)
        (eq4)) with
      | eq4 =>
      eq4)) with
    | eq4 =>
    eq4)) with
  | eq4 =>
  F64.flet (0 : Nat) fun eq5 =>
  match (cond ((Nat.beq e_ (1 : Nat)) || (Nat.beq e_ (0 : Nat)))
    (F64.flet (0 : Nat) fun eq5 =>
    eq5)
    (match (cond (Nat.beq e_ (2 : Nat))
      (F64.flet (1 : Nat) fun eq5 =>
      eq5)
      (match (cond (Nat.beq e_ (3 : Nat))
        (F64.flet (2 : Nat) fun eq5 =>
        eq5)
        (eq5)) with
      | eq5 =>
      eq5)) with
    | eq5 =>
    eq5)) with
  | eq5 =>
  F64.flet (0 : Nat) fun eq6 =>
  let crh := ((Nat.beq cr (1 : Nat)) || (Nat.beq cr (0 : Nat)))
  let irh := ((Nat.beq ir (1 : Nat)) || (Nat.beq ir (0 : Nat)))
  let arh := ((Nat.beq ar (1 : Nat)) || (Nat.beq ar (0 : Nat)))
  match (cond (((crh && (Nat.beq vc (0 : Nat))) || (irh && (Nat.beq vi (0 : Nat)))) || (arh && (Nat.beq va (0 : Nat))))
    (F64.flet (0 : Nat) fun eq6 =>
    eq6)
    (match (cond (((!(crh && (Nat.beq vc (0 : Nat)))) && (!(irh && (Nat.beq vi (0 : Nat))))) && (!(arh && (Nat.beq va (0 : Nat)))))
      (F64.flet (1 : Nat) fun eq6 =>
      eq6)
      (eq6)) with
    | eq6 =>
    eq6)) with
  | eq6 =>
  (eq1, eq2, eq3, eq4, eq5, eq6)

def macroVector (u0 : Nat) (u1 : Nat) (u2 : Nat) (u3 : Nat) (u4 : Nat) (u5 : Nat) (u6 : Nat) (u7 : Nat) (u8 : Nat) : (Nat × Nat × Nat × Nat × Nat × Nat) :=
  macroVector_core (Nat.shiftRight (Nat.land u0 (192 : Nat)) (6 : Nat)) (Nat.shiftRight (Nat.land u3 (14 : Nat)) (1 : Nat)) (Nat.shiftRight (Nat.land u0 (32 : Nat)) (5 : Nat)) (Nat.lor (Nat.mod (Nat.shiftLeft (Nat.land u3 (1 : Nat)) (1 : Nat)) 256) (Nat.shiftRight (Nat.land u4 (128 : Nat)) (7 : Nat))) (Nat.shiftRight (Nat.land u0 (16 : Nat)) (4 : Nat)) (Nat.shiftRight (Nat.land u4 (96 : Nat)) (5 : Nat)) (Nat.shiftRight (Nat.land u0 (12 : Nat)) (2 : Nat)) (Nat.shiftRight (Nat.land u4 (24 : Nat)) (3 : Nat)) (Nat.land u0 (3 : Nat)) (Nat.shiftRight (Nat.land u4 (6 : Nat)) (1 : Nat)) (Nat.shiftRight (Nat.land u1 (192 : Nat)) (6 : Nat)) (Nat.lor (Nat.mod (Nat.shiftLeft (Nat.land u4 (1 : Nat)) (1 : Nat)) 256) (Nat.shiftRight (Nat.land u5 (128 : Nat)) (7 : Nat))) (Nat.shiftRight (Nat.land u1 (48 : Nat)) (4 : Nat)) (Nat.shiftRight (Nat.land u5 (6 : Nat)) (1 : Nat)) (Nat.shiftRight (Nat.land u1 (12 : Nat)) (2 : Nat)) (Nat.shiftRight (Nat.land u5 (96 : Nat)) (5 : Nat)) (Nat.lor (Nat.mod (Nat.shiftLeft (Nat.land u5 (1 : Nat)) (2 : Nat)) 256) (Nat.shiftRight (Nat.land u6 (192 : Nat)) (6 : Nat))) (Nat.land u1 (3 : Nat)) (Nat.shiftRight (Nat.land u2 (192 : Nat)) (6 : Nat)) (Nat.shiftRight (Nat.land u5 (24 : Nat)) (3 : Nat)) (Nat.shiftRight (Nat.land u6 (56 : Nat)) (3 : Nat)) (Nat.shiftRight (Nat.land u2 (48 : Nat)) (4 : Nat)) (Nat.shiftRight (Nat.land u2 (12 : Nat)) (2 : Nat)) (Nat.land u2 (3 : Nat)) (Nat.shiftRight (Nat.land u3 (192 : Nat)) (6 : Nat)) (Nat.shiftRight (Nat.land u3 (48 : Nat)) (4 : Nat))

/-- lookupMV  (lookup.go) -/
def lookupMV (eq1 : Nat) (eq2 : Nat) (eq3 : Nat) (eq4 : Nat) (eq5 : Nat) (eq6 : Nat) : Nat :=
  cond ((Nat.beq eq1 (0 : Nat)))
    (cond ((Nat.beq eq2 (1 : Nat)))
      (cond ((Nat.beq eq3 (0 : Nat)))
        (cond ((Nat.beq eq4 (2 : Nat)))
          (cond ((Nat.beq eq5 (0 : Nat)))
            (cond ((Nat.beq eq6 (0 : Nat)))
              ((0x4022666666666666 : Nat))
             (cond ((Nat.beq eq6 (1 : Nat)))
              ((0x4020333333333333 : Nat))
             ((0x7FF8DEAD00000000 : Nat))))
           (cond ((Nat.beq eq5 (1 : Nat)))
            (cond ((Nat.beq eq6 (1 : Nat)))
              ((0x401c666666666666 : Nat))
             (cond ((Nat.beq eq6 (0 : Nat)))
              ((0x4020666666666666 : Nat))
             ((0x7FF8DEAD00000000 : Nat))))
           (cond ((Nat.beq eq5 (2 : Nat)))
            (cond ((Nat.beq eq6 (0 : Nat)))
              ((0x401ccccccccccccd : Nat))
             (cond ((Nat.beq eq6 (1 : Nat)))
              ((0x4015333333333333 : Nat))
             ((0x7FF8DEAD00000000 : Nat))))
           ((0x7FF8DEAD00000000 : Nat)))))
         (cond ((Nat.beq eq4 (0 : Nat)))
          (cond ((Nat.beq eq5 (1 : Nat)))
            (cond ((Nat.beq eq6 (0 : Nat)))
              ((0x4023000000000000 : Nat))
             (cond ((Nat.beq eq6 (1 : Nat)))
              ((0x4022666666666666 : Nat))
             ((0x7FF8DEAD00000000 : Nat))))
           (cond ((Nat.beq eq5 (2 : Nat)))
            (cond ((Nat.beq eq6 (0 : Nat)))
              ((0x4022666666666666 : Nat))
             (cond ((Nat.beq eq6 (1 : Nat)))
              ((0x4021000000000000 : Nat))
             ((0x7FF8DEAD00000000 : Nat))))
           (cond ((Nat.beq eq5 (0 : Nat)))
            (cond ((Nat.beq eq6 (1 : Nat)))
              ((0x4023666666666666 : Nat))
             (cond ((Nat.beq eq6 (0 : Nat)))
              ((0x4023cccccccccccd : Nat))
             ((0x7FF8DEAD00000000 : Nat))))
           ((0x7FF8DEAD00000000 : Nat)))))
         (cond ((Nat.beq eq4 (1 : Nat)))
          (cond ((Nat.beq eq5 (1 : Nat)))
            (cond ((Nat.beq eq6 (0 : Nat)))
              ((0x4022000000000000 : Nat))
             (cond ((Nat.beq eq6 (1 : Nat)))
              ((0x402099999999999a : Nat))
             ((0x7FF8DEAD00000000 : Nat))))
           (cond ((Nat.beq eq5 (0 : Nat)))
            (cond ((Nat.beq eq6 (1 : Nat)))
              ((0x4022333333333333 : Nat))
             (cond ((Nat.beq eq6 (0 : Nat)))
              ((0x4023000000000000 : Nat))
             ((0x7FF8DEAD00000000 : Nat))))
           (cond ((Nat.beq eq5 (2 : Nat)))
            (cond ((Nat.beq eq6 (1 : Nat)))
              ((0x401c666666666666 : Nat))
             (cond ((Nat.beq eq6 (0 : Nat)))
              ((0x4020cccccccccccd : Nat))
             ((0x7FF8DEAD00000000 : Nat))))
           ((0x7FF8DEAD00000000 : Nat)))))
         ((0x7FF8DEAD00000000 : Nat)))))
       (cond ((Nat.beq eq3 (1 : Nat)))
        (cond ((Nat.beq eq4 (0 : Nat)))
          (cond ((Nat.beq eq5 (0 : Nat)))
            (cond ((Nat.beq eq6 (1 : Nat)))
              ((0x402299999999999a : Nat))
             (cond ((Nat.beq eq6 (0 : Nat)))
              ((0x4023000000000000 : Nat))
             ((0x7FF8DEAD00000000 : Nat))))
           (cond ((Nat.beq eq5 (1 : Nat)))
            (cond ((Nat.beq eq6 (0 : Nat)))
              ((0x4022666666666666 : Nat))
             (cond ((Nat.beq eq6 (1 : Nat)))
              ((0x4021000000000000 : Nat))
             ((0x7FF8DEAD00000000 : Nat))))
           (cond ((Nat.beq eq5 (2 : Nat)))
            (cond ((Nat.beq eq6 (0 : Nat)))
              ((0x4021000000000000 : Nat))
             (cond ((Nat.beq eq6 (1 : Nat)))
              ((0x401d333333333333 : Nat))
             ((0x7FF8DEAD00000000 : Nat))))
           ((0x7FF8DEAD00000000 : Nat)))))
         (cond ((Nat.beq eq4 (2 : Nat)))
          (cond ((Nat.beq eq5 (0 : Nat)))
            (cond ((Nat.beq eq6 (1 : Nat)))
              ((0x401c000000000000 : Nat))
             (cond ((Nat.beq eq6 (0 : Nat)))
              ((0x4020cccccccccccd : Nat))
             ((0x7FF8DEAD00000000 : Nat))))
           (cond ((Nat.beq eq5 (1 : Nat)))
            (cond ((Nat.beq eq6 (1 : Nat)))
              ((0x4014cccccccccccd : Nat))
             (cond ((Nat.beq eq6 (0 : Nat)))
              ((0x401c666666666666 : Nat))
             ((0x7FF8DEAD00000000 : Nat))))
           (cond ((Nat.beq eq5 (2 : Nat)))
            (cond ((Nat.beq eq6 (1 : Nat)))
              ((0x4008000000000000 : Nat))
             (cond ((Nat.beq eq6 (0 : Nat)))
              ((0x4014000000000000 : Nat))
             ((0x7FF8DEAD00000000 : Nat))))
           ((0x7FF8DEAD00000000 : Nat)))))
         (cond ((Nat.beq eq4 (1 : Nat)))
          (cond ((Nat.beq eq5 (0 : Nat)))
            (cond ((Nat.beq eq6 (0 : Nat)))
              ((0x4022666666666666 : Nat))
             (cond ((Nat.beq eq6 (1 : Nat)))
              ((0x4020666666666666 : Nat))
             ((0x7FF8DEAD00000000 : Nat))))
           (cond ((Nat.beq eq5 (1 : Nat)))
            (cond ((Nat.beq eq6 (0 : Nat)))
              ((0x4020000000000000 : Nat))
             (cond ((Nat.beq eq6 (1 : Nat)))
              ((0x401ccccccccccccd : Nat))
             ((0x7FF8DEAD00000000 : Nat))))
           (cond ((Nat.beq eq5 (2 : Nat)))
            (cond ((Nat.beq eq6 (1 : Nat)))
              ((0x401799999999999a : Nat))
             (cond ((Nat.beq eq6 (0 : Nat)))
              ((0x401c000000000000 : Nat))
             ((0x7FF8DEAD00000000 : Nat))))
           ((0x7FF8DEAD00000000 : Nat)))))
         ((0x7FF8DEAD00000000 : Nat)))))
       (cond ((Nat.beq eq3 (2 : Nat)))
        (cond ((Nat.beq eq4 (1 : Nat)))
          (cond ((Nat.beq eq5 (1 : Nat)))
            (cond ((Nat.beq eq6 (1 : Nat)))
              ((0x4014cccccccccccd : Nat))
             ((0x7FF8DEAD00000000 : Nat)))
           (cond ((Nat.beq eq5 (0 : Nat)))
            (cond ((Nat.beq eq6 (1 : Nat)))
              ((0x401c666666666666 : Nat))
             ((0x7FF8DEAD00000000 : Nat)))
           (cond ((Nat.beq eq5 (2 : Nat)))
            (cond ((Nat.beq eq6 (1 : Nat)))
              ((0x4007333333333333 : Nat))
             ((0x7FF8DEAD00000000 : Nat)))
           ((0x7FF8DEAD00000000 : Nat)))))
         (cond ((Nat.beq eq4 (2 : Nat)))
          (cond ((Nat.beq eq5 (2 : Nat)))
            (cond ((Nat.beq eq6 (1 : Nat)))
              ((0x3ffb333333333333 : Nat))
             ((0x7FF8DEAD00000000 : Nat)))
           (cond ((Nat.beq eq5 (1 : Nat)))
            (cond ((Nat.beq eq6 (1 : Nat)))
              ((0x4007333333333333 : Nat))
             ((0x7FF8DEAD00000000 : Nat)))
           (cond ((Nat.beq eq5 (0 : Nat)))
            (cond ((Nat.beq eq6 (1 : Nat)))
              ((0x4019333333333333 : Nat))
             ((0x7FF8DEAD00000000 : Nat)))
           ((0x7FF8DEAD00000000 : Nat)))))
         (cond ((Nat.beq eq4 (0 : Nat)))
          (cond ((Nat.beq eq5 (1 : Nat)))
            (cond ((Nat.beq eq6 (1 : Nat)))
              ((0x401e000000000000 : Nat))
             ((0x7FF8DEAD00000000 : Nat)))
           (cond ((Nat.beq eq5 (2 : Nat)))
            (cond ((Nat.beq eq6 (1 : Nat)))
              ((0x4014cccccccccccd : Nat))
             ((0x7FF8DEAD00000000 : Nat)))
           (cond ((Nat.beq eq5 (0 : Nat)))
            (cond ((Nat.beq eq6 (1 : Nat)))
              ((0x4021333333333333 : Nat))
             ((0x7FF8DEAD00000000 : Nat)))
           ((0x7FF8DEAD00000000 : Nat)))))
         ((0x7FF8DEAD00000000 : Nat)))))
       ((0x7FF8DEAD00000000 : Nat)))))
     (cond ((Nat.beq eq2 (0 : Nat)))
      (cond ((Nat.beq eq3 (0 : Nat)))
        (cond ((Nat.beq eq4 (0 : Nat)))
          (cond ((Nat.beq eq5 (2 : Nat)))
            (cond ((Nat.beq eq6 (0 : Nat)))
              ((0x4023000000000000 : Nat))
             (cond ((Nat.beq eq6 (1 : Nat)))
              ((0x4022666666666666 : Nat))
             ((0x7FF8DEAD00000000 : Nat))))
           (cond ((Nat.beq eq5 (0 : Nat)))
            (cond ((Nat.beq eq6 (1 : Nat)))
              ((0x4023cccccccccccd : Nat))
             (cond ((Nat.beq eq6 (0 : Nat)))
              ((0x4024000000000000 : Nat))
             ((0x7FF8DEAD00000000 : Nat))))
           (cond ((Nat.beq eq5 (1 : Nat)))
            (cond ((Nat.beq eq6 (0 : Nat)))
              ((0x402399999999999a : Nat))
             (cond ((Nat.beq eq6 (1 : Nat)))
              ((0x4023000000000000 : Nat))
             ((0x7FF8DEAD00000000 : Nat))))
           ((0x7FF8DEAD00000000 : Nat)))))
         (cond ((Nat.beq eq4 (2 : Nat)))
          (cond ((Nat.beq eq5 (2 : Nat)))
            (cond ((Nat.beq eq6 (1 : Nat)))
              ((0x401b333333333333 : Nat))
             (cond ((Nat.beq eq6 (0 : Nat)))
              ((0x4020333333333333 : Nat))
             ((0x7FF8DEAD00000000 : Nat))))
           (cond ((Nat.beq eq5 (1 : Nat)))
            (cond ((Nat.beq eq6 (0 : Nat)))
              ((0x4021cccccccccccd : Nat))
             (cond ((Nat.beq eq6 (1 : Nat)))
              ((0x4020000000000000 : Nat))
             ((0x7FF8DEAD00000000 : Nat))))
           (cond ((Nat.beq eq5 (0 : Nat)))
            (cond ((Nat.beq eq6 (1 : Nat)))
              ((0x4022000000000000 : Nat))
             (cond ((Nat.beq eq6 (0 : Nat)))
              ((0x402299999999999a : Nat))
             ((0x7FF8DEAD00000000 : Nat))))
           ((0x7FF8DEAD00000000 : Nat)))))
         (cond ((Nat.beq eq4 (1 : Nat)))
          (cond ((Nat.beq eq5 (0 : Nat)))
            (cond ((Nat.beq eq6 (0 : Nat)))
              ((0x4024000000000000 : Nat))
             (cond ((Nat.beq eq6 (1 : Nat)))
              ((0x4023333333333333 : Nat))
             ((0x7FF8DEAD00000000 : Nat))))
           (cond ((Nat.beq eq5 (2 : Nat)))
            (cond ((Nat.beq eq6 (0 : Nat)))
              ((0x4022333333333333 : Nat))
             (cond ((Nat.beq eq6 (1 : Nat)))
              ((0x4020333333333333 : Nat))
             ((0x7FF8DEAD00000000 : Nat))))
           (cond ((Nat.beq eq5 (1 : Nat)))
            (cond ((Nat.beq eq6 (1 : Nat)))
              ((0x4021666666666666 : Nat))
             (cond ((Nat.beq eq6 (0 : Nat)))
              ((0x402299999999999a : Nat))
             ((0x7FF8DEAD00000000 : Nat))))
           ((0x7FF8DEAD00000000 : Nat)))))
         ((0x7FF8DEAD00000000 : Nat)))))
       (cond ((Nat.beq eq3 (1 : Nat)))
        (cond ((Nat.beq eq4 (1 : Nat)))
          (cond ((Nat.beq eq5 (1 : Nat)))
            (cond ((Nat.beq eq6 (0 : Nat)))
              ((0x4021cccccccccccd : Nat))
             (cond ((Nat.beq eq6 (1 : Nat)))
              ((0x4020333333333333 : Nat))
             ((0x7FF8DEAD00000000 : Nat))))
           (cond ((Nat.beq eq5 (2 : Nat)))
            (cond ((Nat.beq eq6 (1 : Nat)))
              ((0x401a000000000000 : Nat))
             (cond ((Nat.beq eq6 (0 : Nat)))
              ((0x4020333333333333 : Nat))
             ((0x7FF8DEAD00000000 : Nat))))
           (cond ((Nat.beq eq5 (0 : Nat)))
            (cond ((Nat.beq eq6 (1 : Nat)))
              ((0x4022666666666666 : Nat))
             (cond ((Nat.beq eq6 (0 : Nat)))
              ((0x402299999999999a : Nat))
             ((0x7FF8DEAD00000000 : Nat))))
           ((0x7FF8DEAD00000000 : Nat)))))
         (cond ((Nat.beq eq4 (2 : Nat)))
          (cond ((Nat.beq eq5 (2 : Nat)))
            (cond ((Nat.beq eq6 (0 : Nat)))
              ((0x401b99999999999a : Nat))
             (cond ((Nat.beq eq6 (1 : Nat)))
              ((0x4013333333333333 : Nat))
             ((0x7FF8DEAD00000000 : Nat))))
           (cond ((Nat.beq eq5 (0 : Nat)))
            (cond ((Nat.beq eq6 (1 : Nat)))
              ((0x4020000000000000 : Nat))
             (cond ((Nat.beq eq6 (0 : Nat)))
              ((0x402199999999999a : Nat))
             ((0x7FF8DEAD00000000 : Nat))))
           (cond ((Nat.beq eq5 (1 : Nat)))
            (cond ((Nat.beq eq6 (1 : Nat)))
              ((0x401c000000000000 : Nat))
             (cond ((Nat.beq eq6 (0 : Nat)))
              ((0x401f333333333333 : Nat))
             ((0x7FF8DEAD00000000 : Nat))))
           ((0x7FF8DEAD00000000 : Nat)))))
         (cond ((Nat.beq eq4 (0 : Nat)))
          (cond ((Nat.beq eq5 (0 : Nat)))
            (cond ((Nat.beq eq6 (0 : Nat)))
              ((0x402399999999999a : Nat))
             (cond ((Nat.beq eq6 (1 : Nat)))
              ((0x4023000000000000 : Nat))
             ((0x7FF8DEAD00000000 : Nat))))
           (cond ((Nat.beq eq5 (1 : Nat)))
            (cond ((Nat.beq eq6 (0 : Nat)))
              ((0x4023000000000000 : Nat))
             (cond ((Nat.beq eq6 (1 : Nat)))
              ((0x4022666666666666 : Nat))
             ((0x7FF8DEAD00000000 : Nat))))
           (cond ((Nat.beq eq5 (2 : Nat)))
            (cond ((Nat.beq eq6 (1 : Nat)))
              ((0x4020cccccccccccd : Nat))
             (cond ((Nat.beq eq6 (0 : Nat)))
              ((0x4022000000000000 : Nat))
             ((0x7FF8DEAD00000000 : Nat))))
           ((0x7FF8DEAD00000000 : Nat)))))
         ((0x7FF8DEAD00000000 : Nat)))))
       (cond ((Nat.beq eq3 (2 : Nat)))
        (cond ((Nat.beq eq4 (0 : Nat)))
          (cond ((Nat.beq eq5 (2 : Nat)))
            (cond ((Nat.beq eq6 (1 : Nat)))
              ((0x401ccccccccccccd : Nat))
             ((0x7FF8DEAD00000000 : Nat)))
           (cond ((Nat.beq eq5 (0 : Nat)))
            (cond ((Nat.beq eq6 (1 : Nat)))
              ((0x4022666666666666 : Nat))
             ((0x7FF8DEAD00000000 : Nat)))
           (cond ((Nat.beq eq5 (1 : Nat)))
            (cond ((Nat.beq eq6 (1 : Nat)))
              ((0x4020666666666666 : Nat))
             ((0x7FF8DEAD00000000 : Nat)))
           ((0x7FF8DEAD00000000 : Nat)))))
         (cond ((Nat.beq eq4 (2 : Nat)))
          (cond ((Nat.beq eq5 (0 : Nat)))
            (cond ((Nat.beq eq6 (1 : Nat)))
              ((0x401b99999999999a : Nat))
             ((0x7FF8DEAD00000000 : Nat)))
           (cond ((Nat.beq eq5 (1 : Nat)))
            (cond ((Nat.beq eq6 (1 : Nat)))
              ((0x4016000000000000 : Nat))
             ((0x7FF8DEAD00000000 : Nat)))
           (cond ((Nat.beq eq5 (2 : Nat)))
            (cond ((Nat.beq eq6 (1 : Nat)))
              ((0x400599999999999a : Nat))
             ((0x7FF8DEAD00000000 : Nat)))
           ((0x7FF8DEAD00000000 : Nat)))))
         (cond ((Nat.beq eq4 (1 : Nat)))
          (cond ((Nat.beq eq5 (0 : Nat)))
            (cond ((Nat.beq eq6 (1 : Nat)))
              ((0x401f99999999999a : Nat))
             ((0x7FF8DEAD00000000 : Nat)))
           (cond ((Nat.beq eq5 (1 : Nat)))
            (cond ((Nat.beq eq6 (1 : Nat)))
              ((0x401b99999999999a : Nat))
             ((0x7FF8DEAD00000000 : Nat)))
           (cond ((Nat.beq eq5 (2 : Nat)))
            (cond ((Nat.beq eq6 (1 : Nat)))
              ((0x4014000000000000 : Nat))
             ((0x7FF8DEAD00000000 : Nat)))
           ((0x7FF8DEAD00000000 : Nat)))))
         ((0x7FF8DEAD00000000 : Nat)))))
       ((0x7FF8DEAD00000000 : Nat)))))
     ((0x7FF8DEAD00000000 : Nat))))
   (cond ((Nat.beq eq1 (1 : Nat)))
    (cond ((Nat.beq eq2 (0 : Nat)))
      (cond ((Nat.beq eq3 (1 : Nat)))
        (cond ((Nat.beq eq4 (0 : Nat)))
          (cond ((Nat.beq eq5 (0 : Nat)))
            (cond ((Nat.beq eq6 (1 : Nat)))
              ((0x4021cccccccccccd : Nat))
             (cond ((Nat.beq eq6 (0 : Nat)))
              ((0x4022cccccccccccd : Nat))
             ((0x7FF8DEAD00000000 : Nat))))
           (cond ((Nat.beq eq5 (2 : Nat)))
            (cond ((Nat.beq eq6 (1 : Nat)))
              ((0x401acccccccccccd : Nat))
             (cond ((Nat.beq eq6 (0 : Nat)))
              ((0x401e666666666666 : Nat))
             ((0x7FF8DEAD00000000 : Nat))))
           (cond ((Nat.beq eq5 (1 : Nat)))
            (cond ((Nat.beq eq6 (1 : Nat)))
              ((0x401ecccccccccccd : Nat))
             (cond ((Nat.beq eq6 (0 : Nat)))
              ((0x402199999999999a : Nat))
             ((0x7FF8DEAD00000000 : Nat))))
           ((0x7FF8DEAD00000000 : Nat)))))
         (cond ((Nat.beq eq4 (2 : Nat)))
          (cond ((Nat.beq eq5 (2 : Nat)))
            (cond ((Nat.beq eq6 (0 : Nat)))
              ((0x4014cccccccccccd : Nat))
             (cond ((Nat.beq eq6 (1 : Nat)))
              ((0x4004000000000000 : Nat))
             ((0x7FF8DEAD00000000 : Nat))))
           (cond ((Nat.beq eq5 (1 : Nat)))
            (cond ((Nat.beq eq6 (0 : Nat)))
              ((0x4016cccccccccccd : Nat))
             (cond ((Nat.beq eq6 (1 : Nat)))
              ((0x4014cccccccccccd : Nat))
             ((0x7FF8DEAD00000000 : Nat))))
           (cond ((Nat.beq eq5 (0 : Nat)))
            (cond ((Nat.beq eq6 (0 : Nat)))
              ((0x401ccccccccccccd : Nat))
             (cond ((Nat.beq eq6 (1 : Nat)))
              ((0x4016cccccccccccd : Nat))
             ((0x7FF8DEAD00000000 : Nat))))
           ((0x7FF8DEAD00000000 : Nat)))))
         (cond ((Nat.beq eq4 (1 : Nat)))
          (cond ((Nat.beq eq5 (2 : Nat)))
            (cond ((Nat.beq eq6 (1 : Nat)))
              ((0x4014000000000000 : Nat))
             (cond ((Nat.beq eq6 (0 : Nat)))
              ((0x401799999999999a : Nat))
             ((0x7FF8DEAD00000000 : Nat))))
           (cond ((Nat.beq eq5 (1 : Nat)))
            (cond ((Nat.beq eq6 (1 : Nat)))
              ((0x4017333333333333 : Nat))
             (cond ((Nat.beq eq6 (0 : Nat)))
              ((0x401d99999999999a : Nat))
             ((0x7FF8DEAD00000000 : Nat))))
           (cond ((Nat.beq eq5 (0 : Nat)))
            (cond ((Nat.beq eq6 (1 : Nat)))
              ((0x401e666666666666 : Nat))
             (cond ((Nat.beq eq6 (0 : Nat)))
              ((0x4021333333333333 : Nat))
             ((0x7FF8DEAD00000000 : Nat))))
           ((0x7FF8DEAD00000000 : Nat)))))
         ((0x7FF8DEAD00000000 : Nat)))))
       (cond ((Nat.beq eq3 (0 : Nat)))
        (cond ((Nat.beq eq4 (1 : Nat)))
          (cond ((Nat.beq eq5 (2 : Nat)))
            (cond ((Nat.beq eq6 (0 : Nat)))
              ((0x401ecccccccccccd : Nat))
             (cond ((Nat.beq eq6 (1 : Nat)))
              ((0x401999999999999a : Nat))
             ((0x7FF8DEAD00000000 : Nat))))
           (cond ((Nat.beq eq5 (1 : Nat)))
            (cond ((Nat.beq eq6 (1 : Nat)))
              ((0x401d99999999999a : Nat))
             (cond ((Nat.beq eq6 (0 : Nat)))
              ((0x4021333333333333 : Nat))
             ((0x7FF8DEAD00000000 : Nat))))
           (cond ((Nat.beq eq5 (0 : Nat)))
            (cond ((Nat.beq eq6 (1 : Nat)))
              ((0x4021cccccccccccd : Nat))
             (cond ((Nat.beq eq6 (0 : Nat)))
              ((0x4022cccccccccccd : Nat))
             ((0x7FF8DEAD00000000 : Nat))))
           ((0x7FF8DEAD00000000 : Nat)))))
         (cond ((Nat.beq eq4 (2 : Nat)))
          (cond ((Nat.beq eq5 (0 : Nat)))
            (cond ((Nat.beq eq6 (0 : Nat)))
              ((0x4021666666666666 : Nat))
             (cond ((Nat.beq eq6 (1 : Nat)))
              ((0x401e000000000000 : Nat))
             ((0x7FF8DEAD00000000 : Nat))))
           (cond ((Nat.beq eq5 (2 : Nat)))
            (cond ((Nat.beq eq6 (1 : Nat)))
              ((0x401399999999999a : Nat))
             (cond ((Nat.beq eq6 (0 : Nat)))
              ((0x4019333333333333 : Nat))
             ((0x7FF8DEAD00000000 : Nat))))
           (cond ((Nat.beq eq5 (1 : Nat)))
            (cond ((Nat.beq eq6 (0 : Nat)))
              ((0x401d99999999999a : Nat))
             (cond ((Nat.beq eq6 (1 : Nat)))
              ((0x4019333333333333 : Nat))
             ((0x7FF8DEAD00000000 : Nat))))
           ((0x7FF8DEAD00000000 : Nat)))))
         (cond ((Nat.beq eq4 (0 : Nat)))
          (cond ((Nat.beq eq5 (0 : Nat)))
            (cond ((Nat.beq eq6 (0 : Nat)))
              ((0x402399999999999a : Nat))
             (cond ((Nat.beq eq6 (1 : Nat)))
              ((0x4023000000000000 : Nat))
             ((0x7FF8DEAD00000000 : Nat))))
           (cond ((Nat.beq eq5 (2 : Nat)))
            (cond ((Nat.beq eq6 (1 : Nat)))
              ((0x4020333333333333 : Nat))
             (cond ((Nat.beq eq6 (0 : Nat)))
              ((0x4022333333333333 : Nat))
             ((0x7FF8DEAD00000000 : Nat))))
           (cond ((Nat.beq eq5 (1 : Nat)))
            (cond ((Nat.beq eq6 (1 : Nat)))
              ((0x4021666666666666 : Nat))
             (cond ((Nat.beq eq6 (0 : Nat)))
              ((0x4022cccccccccccd : Nat))
             ((0x7FF8DEAD00000000 : Nat))))
           ((0x7FF8DEAD00000000 : Nat)))))
         ((0x7FF8DEAD00000000 : Nat)))))
       (cond ((Nat.beq eq3 (2 : Nat)))
        (cond ((Nat.beq eq4 (0 : Nat)))
          (cond ((Nat.beq eq5 (2 : Nat)))
            (cond ((Nat.beq eq6 (1 : Nat)))
              ((0x401599999999999a : Nat))
             ((0x7FF8DEAD00000000 : Nat)))
           (cond ((Nat.beq eq5 (1 : Nat)))
            (cond ((Nat.beq eq6 (1 : Nat)))
              ((0x401c000000000000 : Nat))
             ((0x7FF8DEAD00000000 : Nat)))
           (cond ((Nat.beq eq5 (0 : Nat)))
            (cond ((Nat.beq eq6 (1 : Nat)))
              ((0x402099999999999a : Nat))
             ((0x7FF8DEAD00000000 : Nat)))
           ((0x7FF8DEAD00000000 : Nat)))))
         (cond ((Nat.beq eq4 (2 : Nat)))
          (cond ((Nat.beq eq5 (0 : Nat)))
            (cond ((Nat.beq eq6 (1 : Nat)))
              ((0x4015333333333333 : Nat))
             ((0x7FF8DEAD00000000 : Nat)))
           (cond ((Nat.beq eq5 (2 : Nat)))
            (cond ((Nat.beq eq6 (1 : Nat)))
              ((0x3ff4cccccccccccd : Nat))
             ((0x7FF8DEAD00000000 : Nat)))
           (cond ((Nat.beq eq5 (1 : Nat)))
            (cond ((Nat.beq eq6 (1 : Nat)))
              ((0x4000cccccccccccd : Nat))
             ((0x7FF8DEAD00000000 : Nat)))
           ((0x7FF8DEAD00000000 : Nat)))))
         (cond ((Nat.beq eq4 (1 : Nat)))
          (cond ((Nat.beq eq5 (1 : Nat)))
            (cond ((Nat.beq eq6 (1 : Nat)))
              ((0x4017333333333333 : Nat))
             ((0x7FF8DEAD00000000 : Nat)))
           (cond ((Nat.beq eq5 (2 : Nat)))
            (cond ((Nat.beq eq6 (1 : Nat)))
              ((0x4004cccccccccccd : Nat))
             ((0x7FF8DEAD00000000 : Nat)))
           (cond ((Nat.beq eq5 (0 : Nat)))
            (cond ((Nat.beq eq6 (1 : Nat)))
              ((0x401a000000000000 : Nat))
             ((0x7FF8DEAD00000000 : Nat)))
           ((0x7FF8DEAD00000000 : Nat)))))
         ((0x7FF8DEAD00000000 : Nat)))))
       ((0x7FF8DEAD00000000 : Nat)))))
     (cond ((Nat.beq eq2 (1 : Nat)))
      (cond ((Nat.beq eq3 (0 : Nat)))
        (cond ((Nat.beq eq4 (1 : Nat)))
          (cond ((Nat.beq eq5 (1 : Nat)))
            (cond ((Nat.beq eq6 (1 : Nat)))
              ((0x4018cccccccccccd : Nat))
             (cond ((Nat.beq eq6 (0 : Nat)))
              ((0x401e000000000000 : Nat))
             ((0x7FF8DEAD00000000 : Nat))))
           (cond ((Nat.beq eq5 (2 : Nat)))
            (cond ((Nat.beq eq6 (0 : Nat)))
              ((0x4018666666666666 : Nat))
             (cond ((Nat.beq eq6 (1 : Nat)))
              ((0x4015333333333333 : Nat))
             ((0x7FF8DEAD00000000 : Nat))))
           (cond ((Nat.beq eq5 (0 : Nat)))
            (cond ((Nat.beq eq6 (0 : Nat)))
              ((0x4022000000000000 : Nat))
             (cond ((Nat.beq eq6 (1 : Nat)))
              ((0x401ecccccccccccd : Nat))
             ((0x7FF8DEAD00000000 : Nat))))
           ((0x7FF8DEAD00000000 : Nat)))))
         (cond ((Nat.beq eq4 (0 : Nat)))
          (cond ((Nat.beq eq5 (0 : Nat)))
            (cond ((Nat.beq eq6 (1 : Nat)))
              ((0x4022000000000000 : Nat))
             (cond ((Nat.beq eq6 (0 : Nat)))
              ((0x4023000000000000 : Nat))
             ((0x7FF8DEAD00000000 : Nat))))
           (cond ((Nat.beq eq5 (1 : Nat)))
            (cond ((Nat.beq eq6 (0 : Nat)))
              ((0x402199999999999a : Nat))
             (cond ((Nat.beq eq6 (1 : Nat)))
              ((0x401e666666666666 : Nat))
             ((0x7FF8DEAD00000000 : Nat))))
           (cond ((Nat.beq eq5 (2 : Nat)))
            (cond ((Nat.beq eq6 (0 : Nat)))
              ((0x401e666666666666 : Nat))
             (cond ((Nat.beq eq6 (1 : Nat)))
              ((0x401c000000000000 : Nat))
             ((0x7FF8DEAD00000000 : Nat))))
           ((0x7FF8DEAD00000000 : Nat)))))
         (cond ((Nat.beq eq4 (2 : Nat)))
          (cond ((Nat.beq eq5 (2 : Nat)))
            (cond ((Nat.beq eq6 (0 : Nat)))
              ((0x4014cccccccccccd : Nat))
             (cond ((Nat.beq eq6 (1 : Nat)))
              ((0x4008000000000000 : Nat))
             ((0x7FF8DEAD00000000 : Nat))))
           (cond ((Nat.beq eq5 (0 : Nat)))
            (cond ((Nat.beq eq6 (1 : Nat)))
              ((0x401a666666666666 : Nat))
             (cond ((Nat.beq eq6 (0 : Nat)))
              ((0x401ecccccccccccd : Nat))
             ((0x7FF8DEAD00000000 : Nat))))
           (cond ((Nat.beq eq5 (1 : Nat)))
            (cond ((Nat.beq eq6 (1 : Nat)))
              ((0x401799999999999a : Nat))
             (cond ((Nat.beq eq6 (0 : Nat)))
              ((0x401b333333333333 : Nat))
             ((0x7FF8DEAD00000000 : Nat))))
           ((0x7FF8DEAD00000000 : Nat)))))
         ((0x7FF8DEAD00000000 : Nat)))))
       (cond ((Nat.beq eq3 (2 : Nat)))
        (cond ((Nat.beq eq4 (0 : Nat)))
          (cond ((Nat.beq eq5 (2 : Nat)))
            (cond ((Nat.beq eq6 (1 : Nat)))
              ((0x4008000000000000 : Nat))
             ((0x7FF8DEAD00000000 : Nat)))
           (cond ((Nat.beq eq5 (0 : Nat)))
            (cond ((Nat.beq eq6 (1 : Nat)))
              ((0x401c666666666666 : Nat))
             ((0x7FF8DEAD00000000 : Nat)))
           (cond ((Nat.beq eq5 (1 : Nat)))
            (cond ((Nat.beq eq6 (1 : Nat)))
              ((0x401799999999999a : Nat))
             ((0x7FF8DEAD00000000 : Nat)))
           ((0x7FF8DEAD00000000 : Nat)))))
         (cond ((Nat.beq eq4 (2 : Nat)))
          (cond ((Nat.beq eq5 (1 : Nat)))
            (cond ((Nat.beq eq6 (1 : Nat)))
              ((0x3ff4cccccccccccd : Nat))
             ((0x7FF8DEAD00000000 : Nat)))
           (cond ((Nat.beq eq5 (0 : Nat)))
            (cond ((Nat.beq eq6 (1 : Nat)))
              ((0x4002666666666666 : Nat))
             ((0x7FF8DEAD00000000 : Nat)))
           (cond ((Nat.beq eq5 (2 : Nat)))
            (cond ((Nat.beq eq6 (1 : Nat)))
              ((0x3fe3333333333333 : Nat))
             ((0x7FF8DEAD00000000 : Nat)))
           ((0x7FF8DEAD00000000 : Nat)))))
         (cond ((Nat.beq eq4 (1 : Nat)))
          (cond ((Nat.beq eq5 (1 : Nat)))
            (cond ((Nat.beq eq6 (1 : Nat)))
              ((0x4004cccccccccccd : Nat))
             ((0x7FF8DEAD00000000 : Nat)))
           (cond ((Nat.beq eq5 (0 : Nat)))
            (cond ((Nat.beq eq6 (1 : Nat)))
              ((0x4017333333333333 : Nat))
             ((0x7FF8DEAD00000000 : Nat)))
           (cond ((Nat.beq eq5 (2 : Nat)))
            (cond ((Nat.beq eq6 (1 : Nat)))
              ((0x3ff8000000000000 : Nat))
             ((0x7FF8DEAD00000000 : Nat)))
           ((0x7FF8DEAD00000000 : Nat)))))
         ((0x7FF8DEAD00000000 : Nat)))))
       (cond ((Nat.beq eq3 (1 : Nat)))
        (cond ((Nat.beq eq4 (0 : Nat)))
          (cond ((Nat.beq eq5 (0 : Nat)))
            (cond ((Nat.beq eq6 (0 : Nat)))
              ((0x4021cccccccccccd : Nat))
             (cond ((Nat.beq eq6 (1 : Nat)))
              ((0x401f333333333333 : Nat))
             ((0x7FF8DEAD00000000 : Nat))))
           (cond ((Nat.beq eq5 (2 : Nat)))
            (cond ((Nat.beq eq6 (0 : Nat)))
              ((0x4018cccccccccccd : Nat))
             (cond ((Nat.beq eq6 (1 : Nat)))
              ((0x4017333333333333 : Nat))
             ((0x7FF8DEAD00000000 : Nat))))
           (cond ((Nat.beq eq5 (1 : Nat)))
            (cond ((Nat.beq eq6 (1 : Nat)))
              ((0x401acccccccccccd : Nat))
             (cond ((Nat.beq eq6 (0 : Nat)))
              ((0x401e666666666666 : Nat))
             ((0x7FF8DEAD00000000 : Nat))))
           ((0x7FF8DEAD00000000 : Nat)))))
         (cond ((Nat.beq eq4 (2 : Nat)))
          (cond ((Nat.beq eq5 (0 : Nat)))
            (cond ((Nat.beq eq6 (1 : Nat)))
              ((0x4014cccccccccccd : Nat))
             (cond ((Nat.beq eq6 (0 : Nat)))
              ((0x4018666666666666 : Nat))
             ((0x7FF8DEAD00000000 : Nat))))
           (cond ((Nat.beq eq5 (2 : Nat)))
            (cond ((Nat.beq eq6 (0 : Nat)))
              ((0x4003333333333333 : Nat))
             (cond ((Nat.beq eq6 (1 : Nat)))
              ((0x3ff999999999999a : Nat))
             ((0x7FF8DEAD00000000 : Nat))))
           (cond ((Nat.beq eq5 (1 : Nat)))
            (cond ((Nat.beq eq6 (0 : Nat)))
              ((0x4016cccccccccccd : Nat))
             (cond ((Nat.beq eq6 (1 : Nat)))
              ((0x4007333333333333 : Nat))
             ((0x7FF8DEAD00000000 : Nat))))
           ((0x7FF8DEAD00000000 : Nat)))))
         (cond ((Nat.beq eq4 (1 : Nat)))
          (cond ((Nat.beq eq5 (1 : Nat)))
            (cond ((Nat.beq eq6 (0 : Nat)))
              ((0x4016cccccccccccd : Nat))
             (cond ((Nat.beq eq6 (1 : Nat)))
              ((0x4016cccccccccccd : Nat))
             ((0x7FF8DEAD00000000 : Nat))))
           (cond ((Nat.beq eq5 (2 : Nat)))
            (cond ((Nat.beq eq6 (1 : Nat)))
              ((0x4002666666666666 : Nat))
             (cond ((Nat.beq eq6 (0 : Nat)))
              ((0x4012cccccccccccd : Nat))
             ((0x7FF8DEAD00000000 : Nat))))
           (cond ((Nat.beq eq5 (0 : Nat)))
            (cond ((Nat.beq eq6 (1 : Nat)))
              ((0x401799999999999a : Nat))
             (cond ((Nat.beq eq6 (0 : Nat)))
              ((0x401d99999999999a : Nat))
             ((0x7FF8DEAD00000000 : Nat))))
           ((0x7FF8DEAD00000000 : Nat)))))
         ((0x7FF8DEAD00000000 : Nat)))))
       ((0x7FF8DEAD00000000 : Nat)))))
     ((0x7FF8DEAD00000000 : Nat))))
   (cond ((Nat.beq eq1 (2 : Nat)))
    (cond ((Nat.beq eq2 (1 : Nat)))
      (cond ((Nat.beq eq3 (2 : Nat)))
        (cond ((Nat.beq eq4 (2 : Nat)))
          (cond ((Nat.beq eq5 (0 : Nat)))
            (cond ((Nat.beq eq6 (1 : Nat)))
              ((0x3ff0000000000000 : Nat))
             ((0x7FF8DEAD00000000 : Nat)))
           (cond ((Nat.beq eq5 (1 : Nat)))
            (cond ((Nat.beq eq6 (1 : Nat)))
              ((0x3fd3333333333333 : Nat))
             ((0x7FF8DEAD00000000 : Nat)))
           (cond ((Nat.beq eq5 (2 : Nat)))
            (cond ((Nat.beq eq6 (1 : Nat)))
              ((0x3fb999999999999a : Nat))
             ((0x7FF8DEAD00000000 : Nat)))
           ((0x7FF8DEAD00000000 : Nat)))))
         (cond ((Nat.beq eq4 (0 : Nat)))
          (cond ((Nat.beq eq5 (1 : Nat)))
            (cond ((Nat.beq eq6 (1 : Nat)))
              ((0x4003333333333333 : Nat))
             ((0x7FF8DEAD00000000 : Nat)))
           (cond ((Nat.beq eq5 (2 : Nat)))
            (cond ((Nat.beq eq6 (1 : Nat)))
              ((0x3ff6666666666666 : Nat))
             ((0x7FF8DEAD00000000 : Nat)))
           (cond ((Nat.beq eq5 (0 : Nat)))
            (cond ((Nat.beq eq6 (1 : Nat)))
              ((0x4015333333333333 : Nat))
             ((0x7FF8DEAD00000000 : Nat)))
           ((0x7FF8DEAD00000000 : Nat)))))
         (cond ((Nat.beq eq4 (1 : Nat)))
          (cond ((Nat.beq eq5 (1 : Nat)))
            (cond ((Nat.beq eq6 (1 : Nat)))
              ((0x3ff3333333333333 : Nat))
             ((0x7FF8DEAD00000000 : Nat)))
           (cond ((Nat.beq eq5 (0 : Nat)))
            (cond ((Nat.beq eq6 (1 : Nat)))
              ((0x4003333333333333 : Nat))
             ((0x7FF8DEAD00000000 : Nat)))
           (cond ((Nat.beq eq5 (2 : Nat)))
            (cond ((Nat.beq eq6 (1 : Nat)))
              ((0x3fe0000000000000 : Nat))
             ((0x7FF8DEAD00000000 : Nat)))
           ((0x7FF8DEAD00000000 : Nat)))))
         ((0x7FF8DEAD00000000 : Nat)))))
       (cond ((Nat.beq eq3 (0 : Nat)))
        (cond ((Nat.beq eq4 (2 : Nat)))
          (cond ((Nat.beq eq5 (0 : Nat)))
            (cond ((Nat.beq eq6 (0 : Nat)))
              ((0x401599999999999a : Nat))
             (cond ((Nat.beq eq6 (1 : Nat)))
              ((0x4011333333333333 : Nat))
             ((0x7FF8DEAD00000000 : Nat))))
           (cond ((Nat.beq eq5 (1 : Nat)))
            (cond ((Nat.beq eq6 (1 : Nat)))
              ((0x400199999999999a : Nat))
             (cond ((Nat.beq eq6 (0 : Nat)))
              ((0x4012000000000000 : Nat))
             ((0x7FF8DEAD00000000 : Nat))))
           (cond ((Nat.beq eq5 (2 : Nat)))
            (cond ((Nat.beq eq6 (1 : Nat)))
              ((0x3ff199999999999a : Nat))
             (cond ((Nat.beq eq6 (0 : Nat)))
              ((0x4000000000000000 : Nat))
             ((0x7FF8DEAD00000000 : Nat))))
           ((0x7FF8DEAD00000000 : Nat)))))
         (cond ((Nat.beq eq4 (0 : Nat)))
          (cond ((Nat.beq eq5 (2 : Nat)))
            (cond ((Nat.beq eq6 (0 : Nat)))
              ((0x4018000000000000 : Nat))
             (cond ((Nat.beq eq6 (1 : Nat)))
              ((0x4014000000000000 : Nat))
             ((0x7FF8DEAD00000000 : Nat))))
           (cond ((Nat.beq eq5 (0 : Nat)))
            (cond ((Nat.beq eq6 (1 : Nat)))
              ((0x401e000000000000 : Nat))
             (cond ((Nat.beq eq6 (0 : Nat)))
              ((0x402199999999999a : Nat))
             ((0x7FF8DEAD00000000 : Nat))))
           (cond ((Nat.beq eq5 (1 : Nat)))
            (cond ((Nat.beq eq6 (0 : Nat)))
              ((0x401d333333333333 : Nat))
             (cond ((Nat.beq eq6 (1 : Nat)))
              ((0x4015333333333333 : Nat))
             ((0x7FF8DEAD00000000 : Nat))))
           ((0x7FF8DEAD00000000 : Nat)))))
         (cond ((Nat.beq eq4 (1 : Nat)))
          (cond ((Nat.beq eq5 (0 : Nat)))
            (cond ((Nat.beq eq6 (1 : Nat)))
              ((0x4016000000000000 : Nat))
             (cond ((Nat.beq eq6 (0 : Nat)))
              ((0x401d333333333333 : Nat))
             ((0x7FF8DEAD00000000 : Nat))))
           (cond ((Nat.beq eq5 (1 : Nat)))
            (cond ((Nat.beq eq6 (1 : Nat)))
              ((0x4010000000000000 : Nat))
             (cond ((Nat.beq eq6 (0 : Nat)))
              ((0x401799999999999a : Nat))
             ((0x7FF8DEAD00000000 : Nat))))
           (cond ((Nat.beq eq5 (2 : Nat)))
            (cond ((Nat.beq eq6 (0 : Nat)))
              ((0x4010666666666666 : Nat))
             (cond ((Nat.beq eq6 (1 : Nat)))
              ((0x4000000000000000 : Nat))
             ((0x7FF8DEAD00000000 : Nat))))
           ((0x7FF8DEAD00000000 : Nat)))))
         ((0x7FF8DEAD00000000 : Nat)))))
       (cond ((Nat.beq eq3 (1 : Nat)))
        (cond ((Nat.beq eq4 (0 : Nat)))
          (cond ((Nat.beq eq5 (2 : Nat)))
            (cond ((Nat.beq eq6 (0 : Nat)))
              ((0x4010000000000000 : Nat))
             (cond ((Nat.beq eq6 (1 : Nat)))
              ((0x4000cccccccccccd : Nat))
             ((0x7FF8DEAD00000000 : Nat))))
           (cond ((Nat.beq eq5 (1 : Nat)))
            (cond ((Nat.beq eq6 (0 : Nat)))
              ((0x4017333333333333 : Nat))
             (cond ((Nat.beq eq6 (1 : Nat)))
              ((0x4012000000000000 : Nat))
             ((0x7FF8DEAD00000000 : Nat))))
           (cond ((Nat.beq eq5 (0 : Nat)))
            (cond ((Nat.beq eq6 (1 : Nat)))
              ((0x4016000000000000 : Nat))
             (cond ((Nat.beq eq6 (0 : Nat)))
              ((0x401e000000000000 : Nat))
             ((0x7FF8DEAD00000000 : Nat))))
           ((0x7FF8DEAD00000000 : Nat)))))
         (cond ((Nat.beq eq4 (2 : Nat)))
          (cond ((Nat.beq eq5 (0 : Nat)))
            (cond ((Nat.beq eq6 (0 : Nat)))
              ((0x4012666666666666 : Nat))
             (cond ((Nat.beq eq6 (1 : Nat)))
              ((0x3ffccccccccccccd : Nat))
             ((0x7FF8DEAD00000000 : Nat))))
           (cond ((Nat.beq eq5 (1 : Nat)))
            (cond ((Nat.beq eq6 (1 : Nat)))
              ((0x3fe6666666666666 : Nat))
             (cond ((Nat.beq eq6 (0 : Nat)))
              ((0x3ffb333333333333 : Nat))
             ((0x7FF8DEAD00000000 : Nat))))
           (cond ((Nat.beq eq5 (2 : Nat)))
            (cond ((Nat.beq eq6 (0 : Nat)))
              ((0x3fe999999999999a : Nat))
             (cond ((Nat.beq eq6 (1 : Nat)))
              ((0x3fc999999999999a : Nat))
             ((0x7FF8DEAD00000000 : Nat))))
           ((0x7FF8DEAD00000000 : Nat)))))
         (cond ((Nat.beq eq4 (1 : Nat)))
          (cond ((Nat.beq eq5 (2 : Nat)))
            (cond ((Nat.beq eq6 (1 : Nat)))
              ((0x3feccccccccccccd : Nat))
             (cond ((Nat.beq eq6 (0 : Nat)))
              ((0x4000000000000000 : Nat))
             ((0x7FF8DEAD00000000 : Nat))))
           (cond ((Nat.beq eq5 (1 : Nat)))
            (cond ((Nat.beq eq6 (0 : Nat)))
              ((0x4013333333333333 : Nat))
             (cond ((Nat.beq eq6 (1 : Nat)))
              ((0x3ffccccccccccccd : Nat))
             ((0x7FF8DEAD00000000 : Nat))))
           (cond ((Nat.beq eq5 (0 : Nat)))
            (cond ((Nat.beq eq6 (0 : Nat)))
              ((0x4018666666666666 : Nat))
             (cond ((Nat.beq eq6 (1 : Nat)))
              ((0x4014666666666666 : Nat))
             ((0x7FF8DEAD00000000 : Nat))))
           ((0x7FF8DEAD00000000 : Nat)))))
         ((0x7FF8DEAD00000000 : Nat)))))
       ((0x7FF8DEAD00000000 : Nat)))))
     (cond ((Nat.beq eq2 (0 : Nat)))
      (cond ((Nat.beq eq3 (0 : Nat)))
        (cond ((Nat.beq eq4 (1 : Nat)))
          (cond ((Nat.beq eq5 (1 : Nat)))
            (cond ((Nat.beq eq6 (1 : Nat)))
              ((0x4018666666666666 : Nat))
             (cond ((Nat.beq eq6 (0 : Nat)))
              ((0x401d99999999999a : Nat))
             ((0x7FF8DEAD00000000 : Nat))))
           (cond ((Nat.beq eq5 (2 : Nat)))
            (cond ((Nat.beq eq6 (0 : Nat)))
              ((0x4016666666666666 : Nat))
             (cond ((Nat.beq eq6 (1 : Nat)))
              ((0x400b333333333333 : Nat))
             ((0x7FF8DEAD00000000 : Nat))))
           (cond ((Nat.beq eq5 (0 : Nat)))
            (cond ((Nat.beq eq6 (1 : Nat)))
              ((0x401d99999999999a : Nat))
             (cond ((Nat.beq eq6 (0 : Nat)))
              ((0x4021333333333333 : Nat))
             ((0x7FF8DEAD00000000 : Nat))))
           ((0x7FF8DEAD00000000 : Nat)))))
         (cond ((Nat.beq eq4 (0 : Nat)))
          (cond ((Nat.beq eq5 (0 : Nat)))
            (cond ((Nat.beq eq6 (1 : Nat)))
              ((0x4021666666666666 : Nat))
             (cond ((Nat.beq eq6 (0 : Nat)))
              ((0x402299999999999a : Nat))
             ((0x7FF8DEAD00000000 : Nat))))
           (cond ((Nat.beq eq5 (2 : Nat)))
            (cond ((Nat.beq eq6 (0 : Nat)))
              ((0x401e000000000000 : Nat))
             (cond ((Nat.beq eq6 (1 : Nat)))
              ((0x4017333333333333 : Nat))
             ((0x7FF8DEAD00000000 : Nat))))
           (cond ((Nat.beq eq5 (1 : Nat)))
            (cond ((Nat.beq eq6 (1 : Nat)))
              ((0x401ccccccccccccd : Nat))
             (cond ((Nat.beq eq6 (0 : Nat)))
              ((0x4021333333333333 : Nat))
             ((0x7FF8DEAD00000000 : Nat))))
           ((0x7FF8DEAD00000000 : Nat)))))
         (cond ((Nat.beq eq4 (2 : Nat)))
          (cond ((Nat.beq eq5 (1 : Nat)))
            (cond ((Nat.beq eq6 (1 : Nat)))
              ((0x4010000000000000 : Nat))
             (cond ((Nat.beq eq6 (0 : Nat)))
              ((0x4014cccccccccccd : Nat))
             ((0x7FF8DEAD00000000 : Nat))))
           (cond ((Nat.beq eq5 (0 : Nat)))
            (cond ((Nat.beq eq6 (0 : Nat)))
              ((0x401c000000000000 : Nat))
             (cond ((Nat.beq eq6 (1 : Nat)))
              ((0x401599999999999a : Nat))
             ((0x7FF8DEAD00000000 : Nat))))
           (cond ((Nat.beq eq5 (2 : Nat)))
            (cond ((Nat.beq eq6 (1 : Nat)))
              ((0x400199999999999a : Nat))
             (cond ((Nat.beq eq6 (0 : Nat)))
              ((0x4010000000000000 : Nat))
             ((0x7FF8DEAD00000000 : Nat))))
           ((0x7FF8DEAD00000000 : Nat)))))
         ((0x7FF8DEAD00000000 : Nat)))))
       (cond ((Nat.beq eq3 (1 : Nat)))
        (cond ((Nat.beq eq4 (1 : Nat)))
          (cond ((Nat.beq eq5 (2 : Nat)))
            (cond ((Nat.beq eq6 (0 : Nat)))
              ((0x4012666666666666 : Nat))
             (cond ((Nat.beq eq6 (1 : Nat)))
              ((0x3ffe666666666666 : Nat))
             ((0x7FF8DEAD00000000 : Nat))))
           (cond ((Nat.beq eq5 (0 : Nat)))
            (cond ((Nat.beq eq6 (0 : Nat)))
              ((0x401ccccccccccccd : Nat))
             (cond ((Nat.beq eq6 (1 : Nat)))
              ((0x4016cccccccccccd : Nat))
             ((0x7FF8DEAD00000000 : Nat))))
           (cond ((Nat.beq eq5 (1 : Nat)))
            (cond ((Nat.beq eq6 (1 : Nat)))
              ((0x4010666666666666 : Nat))
             (cond ((Nat.beq eq6 (0 : Nat)))
              ((0x4016000000000000 : Nat))
             ((0x7FF8DEAD00000000 : Nat))))
           ((0x7FF8DEAD00000000 : Nat)))))
         (cond ((Nat.beq eq4 (2 : Nat)))
          (cond ((Nat.beq eq5 (1 : Nat)))
            (cond ((Nat.beq eq6 (1 : Nat)))
              ((0x3ffe666666666666 : Nat))
             (cond ((Nat.beq eq6 (0 : Nat)))
              ((0x400b333333333333 : Nat))
             ((0x7FF8DEAD00000000 : Nat))))
           (cond ((Nat.beq eq5 (2 : Nat)))
            (cond ((Nat.beq eq6 (0 : Nat)))
              ((0x3ffe666666666666 : Nat))
             (cond ((Nat.beq eq6 (1 : Nat)))
              ((0x3fe999999999999a : Nat))
             ((0x7FF8DEAD00000000 : Nat))))
           (cond ((Nat.beq eq5 (0 : Nat)))
            (cond ((Nat.beq eq6 (0 : Nat)))
              ((0x4015333333333333 : Nat))
             (cond ((Nat.beq eq6 (1 : Nat)))
              ((0x400ccccccccccccd : Nat))
             ((0x7FF8DEAD00000000 : Nat))))
           ((0x7FF8DEAD00000000 : Nat)))))
         (cond ((Nat.beq eq4 (0 : Nat)))
          (cond ((Nat.beq eq5 (2 : Nat)))
            (cond ((Nat.beq eq6 (1 : Nat)))
              ((0x4014666666666666 : Nat))
             (cond ((Nat.beq eq6 (0 : Nat)))
              ((0x4018cccccccccccd : Nat))
             ((0x7FF8DEAD00000000 : Nat))))
           (cond ((Nat.beq eq5 (1 : Nat)))
            (cond ((Nat.beq eq6 (0 : Nat)))
              ((0x401d99999999999a : Nat))
             (cond ((Nat.beq eq6 (1 : Nat)))
              ((0x4016000000000000 : Nat))
             ((0x7FF8DEAD00000000 : Nat))))
           (cond ((Nat.beq eq5 (0 : Nat)))
            (cond ((Nat.beq eq6 (0 : Nat)))
              ((0x4021000000000000 : Nat))
             (cond ((Nat.beq eq6 (1 : Nat)))
              ((0x401e000000000000 : Nat))
             ((0x7FF8DEAD00000000 : Nat))))
           ((0x7FF8DEAD00000000 : Nat)))))
         ((0x7FF8DEAD00000000 : Nat)))))
       (cond ((Nat.beq eq3 (2 : Nat)))
        (cond ((Nat.beq eq4 (1 : Nat)))
          (cond ((Nat.beq eq5 (0 : Nat)))
            (cond ((Nat.beq eq6 (1 : Nat)))
              ((0x4012cccccccccccd : Nat))
             ((0x7FF8DEAD00000000 : Nat)))
           (cond ((Nat.beq eq5 (1 : Nat)))
            (cond ((Nat.beq eq6 (1 : Nat)))
              ((0x4000cccccccccccd : Nat))
             ((0x7FF8DEAD00000000 : Nat)))
           (cond ((Nat.beq eq5 (2 : Nat)))
            (cond ((Nat.beq eq6 (1 : Nat)))
              ((0x3ff199999999999a : Nat))
             ((0x7FF8DEAD00000000 : Nat)))
           ((0x7FF8DEAD00000000 : Nat)))))
         (cond ((Nat.beq eq4 (0 : Nat)))
          (cond ((Nat.beq eq5 (0 : Nat)))
            (cond ((Nat.beq eq6 (1 : Nat)))
              ((0x401999999999999a : Nat))
             ((0x7FF8DEAD00000000 : Nat)))
           (cond ((Nat.beq eq5 (1 : Nat)))
            (cond ((Nat.beq eq6 (1 : Nat)))
              ((0x4014666666666666 : Nat))
             ((0x7FF8DEAD00000000 : Nat)))
           (cond ((Nat.beq eq5 (2 : Nat)))
            (cond ((Nat.beq eq6 (1 : Nat)))
              ((0x4000000000000000 : Nat))
             ((0x7FF8DEAD00000000 : Nat)))
           ((0x7FF8DEAD00000000 : Nat)))))
         (cond ((Nat.beq eq4 (2 : Nat)))
          (cond ((Nat.beq eq5 (0 : Nat)))
            (cond ((Nat.beq eq6 (1 : Nat)))
              ((0x4003333333333333 : Nat))
             ((0x7FF8DEAD00000000 : Nat)))
           (cond ((Nat.beq eq5 (2 : Nat)))
            (cond ((Nat.beq eq6 (1 : Nat)))
              ((0x3fd999999999999a : Nat))
             ((0x7FF8DEAD00000000 : Nat)))
           (cond ((Nat.beq eq5 (1 : Nat)))
            (cond ((Nat.beq eq6 (1 : Nat)))
              ((0x3feccccccccccccd : Nat))
             ((0x7FF8DEAD00000000 : Nat)))
           ((0x7FF8DEAD00000000 : Nat)))))
         ((0x7FF8DEAD00000000 : Nat)))))
       ((0x7FF8DEAD00000000 : Nat)))))
     ((0x7FF8DEAD00000000 : Nat))))
   ((0x7FF8DEAD00000000 : Nat))))

/-- abs  (cvss40.go) -/
def abs_ (x : Nat) : Nat :=
  cond (F64.lt x (0x0000000000000000 : Nat))
    ((F64.neg x))
    (x)

/-- table sevIdx (severity.go) -/
def tbl_sevIdx : (List (List Nat)) :=
  [[0, 1, 2, 3], [1, 0], [0, 1], [2, 1, 0], [0, 1, 2], [0, 1, 2], [0, 1, 2], [0, 1, 2], [0, 1, 2], [3, 0, 1, 2], [3, 0, 1, 2], [1, 2, 3], [1, 2, 3], [1, 2, 3], [1, 2, 3]]

/-- index  (severity.go) -/
def index_ (slc : (List Nat)) (val : Nat) : Nat :=
  F64.flet (0x0000000000000000 : Nat) fun i =>
  match Go.forRange slc i (fun v i =>
      cond (Nat.beq v val)
        (Go.Ctl.ret i)
        (F64.flet (F64.add i (0x3ff0000000000000 : Nat)) fun i =>
        Go.Ctl.next i)) with
  | Go.Ctl.ret r => r
  | Go.Ctl.brk i => (0x7FF8DEAD00000000 : Nat)
  | Go.Ctl.next i =>
  (0x7FF8DEAD00000000 : Nat)

/-- severityDistance  (severity.go) -/
def severityDistance (metric : Nat) (vecVal : Nat) (mxVal : Nat) : Nat :=
  let values := (Go.idx GenV40.tbl_sevIdx metric)
  (F64.sub (GenV40.index_ values vecVal) (GenV40.index_ values mxVal))

/-- table highestSeverityVectors (max.go) -/
def tbl_highestSeverityVectors : (List (List (List Nat))) :=
  [[], [[20], [120, 10, 21], [320, 111]], [[10], [11, 0]], [], [[33], [0], [111]], [[1], [2], [3]]]

/-- table highestSeverityVectorsEQ3EQ6 (max.go) -/
def tbl_highestSeverityVectorsEQ3EQ6 : (List (List (List Nat))) :=
  [[[111], [1221, 222]], [[100111, 10111], [10212, 11211, 100122, 101121, 110112]], [[], [111111]]]

/-- getDepth  (depth.go) -/
def getDepth (eq : Nat) (level : Nat) : Nat :=
  cond ((Nat.beq eq (1 : Nat)))
    (cond ((Nat.beq level (0 : Nat)))
      ((0x0000000000000000 : Nat))
     (cond ((Nat.beq level (1 : Nat)))
      ((0x4008000000000000 : Nat))
     (cond ((Nat.beq level (2 : Nat)))
      ((0x4010000000000000 : Nat))
     ((0x7FF8DEAD00000000 : Nat)))))
   (cond ((Nat.beq eq (2 : Nat)))
    (cond ((Nat.beq level (0 : Nat)))
      ((0x0000000000000000 : Nat))
     (cond ((Nat.beq level (1 : Nat)))
      ((0x3ff0000000000000 : Nat))
     ((0x7FF8DEAD00000000 : Nat))))
   (cond ((Nat.beq eq (4 : Nat)))
    (cond ((Nat.beq level (0 : Nat)))
      ((0x4014000000000000 : Nat))
     (cond ((Nat.beq level (1 : Nat)))
      ((0x4010000000000000 : Nat))
     (cond ((Nat.beq level (2 : Nat)))
      ((0x4008000000000000 : Nat))
     ((0x7FF8DEAD00000000 : Nat)))))
   (cond ((Nat.beq eq (5 : Nat)))
    ((0x0000000000000000 : Nat))
   ((0x7FF8DEAD00000000 : Nat)))))

/-- getDepthEQ3EQ6  (depth.go) -/
def getDepthEQ3EQ6 (leveleq3 : Nat) (leveleq6 : Nat) : Nat :=
  cond ((Nat.beq leveleq3 (0 : Nat)))
    (cond ((Nat.beq leveleq6 (0 : Nat)))
      ((0x4018000000000000 : Nat))
     (cond ((Nat.beq leveleq6 (1 : Nat)))
      ((0x4014000000000000 : Nat))
     ((0x7FF8DEAD00000000 : Nat))))
   (cond ((Nat.beq leveleq3 (1 : Nat)))
    ((0x401c000000000000 : Nat))
   (cond ((Nat.beq leveleq3 (2 : Nat)))
    ((0x4022000000000000 : Nat))
   ((0x7FF8DEAD00000000 : Nat))))

/-- roundup  (cvss40.go) -/
def roundup (x : Nat) : Nat :=
  (F64.div (F64.round (F64.mul (F64.add x (0x3eb0c6f7a0b5ed8d : Nat)) (0x4024000000000000 : Nat))) (0x4024000000000000 : Nat))

/-- Score  (cvss40.go) -/
--   r0 := (Nat.shiftRight (Nat.land u0 (192 : Nat)) (6 : Nat))
--   r1 := (Nat.shiftRight (Nat.land u3 (14 : Nat)) (1 : Nat))
--   r2 := (Nat.shiftRight (Nat.land u0 (32 : Nat)) (5 : Nat))
--   r3 := (Nat.lor (Nat.mod (Nat.shiftLeft (Nat.land u3 (1 : Nat)) (1 : Nat)) 256) (Nat.shiftRight (Nat.land u4 (128 : Nat)) (7 : Nat)))
--   r4 := (Nat.shiftRight (Nat.land u0 (16 : Nat)) (4 : Nat))
--   r5 := (Nat.shiftRight (Nat.land u4 (96 : Nat)) (5 : Nat))
--   r6 := (Nat.shiftRight (Nat.land u0 (12 : Nat)) (2 : Nat))
--   r7 := (Nat.shiftRight (Nat.land u4 (24 : Nat)) (3 : Nat))
--   r8 := (Nat.land u0 (3 : Nat))
--   r9 := (Nat.shiftRight (Nat.land u4 (6 : Nat)) (1 : Nat))
--   r10 := (Nat.shiftRight (Nat.land u1 (192 : Nat)) (6 : Nat))
--   r11 := (Nat.lor (Nat.mod (Nat.shiftLeft (Nat.land u4 (1 : Nat)) (1 : Nat)) 256) (Nat.shiftRight (Nat.land u5 (128 : Nat)) (7 : Nat)))
--   r12 := (Nat.shiftRight (Nat.land u1 (48 : Nat)) (4 : Nat))
--   r13 := (Nat.shiftRight (Nat.land u5 (6 : Nat)) (1 : Nat))
--   r14 := (Nat.shiftRight (Nat.land u1 (12 : Nat)) (2 : Nat))
--   r15 := (Nat.shiftRight (Nat.land u5 (96 : Nat)) (5 : Nat))
--   r16 := (Nat.land u1 (3 : Nat))
--   r17 := (Nat.lor (Nat.mod (Nat.shiftLeft (Nat.land u5 (1 : Nat)) (2 : Nat)) 256) (Nat.shiftRight (Nat.land u6 (192 : Nat)) (6 : Nat)))
--   r18 := (Nat.shiftRight (Nat.land u2 (192 : Nat)) (6 : Nat))
--   r19 := (Nat.shiftRight (Nat.land u5 (24 : Nat)) (3 : Nat))
--   r20 := (Nat.shiftRight (Nat.land u2 (48 : Nat)) (4 : Nat))
--   r21 := (Nat.shiftRight (Nat.land u6 (56 : Nat)) (3 : Nat))
--   r22 := (Nat.land u2 (3 : Nat))
--   r23 := (Nat.shiftRight (Nat.land u3 (192 : Nat)) (6 : Nat))
--   r24 := (Nat.shiftRight (Nat.land u3 (48 : Nat)) (4 : Nat))
--   r25 := (Nat.shiftRight (Nat.land u2 (12 : Nat)) (2 : Nat))
def Score_core (r0 : Nat) (r1 : Nat) (r2 : Nat) (r3 : Nat) (r4 : Nat) (r5 : Nat) (r6 : Nat) (r7 : Nat) (r8 : Nat) (r9 : Nat) (r10 : Nat) (r11 : Nat) (r12 : Nat) (r13 : Nat) (r14 : Nat) (r15 : Nat) (r16 : Nat) (r17 : Nat) (r18 : Nat) (r19 : Nat) (r20 : Nat) (r21 : Nat) (r22 : Nat) (r23 : Nat) (r24 : Nat) (r25 : Nat) : Nat :=
  F64.flet (GenV40.mod_ r0 r1) fun avVal =>
  F64.flet (GenV40.mod_ r2 r3) fun acVal =>
  F64.flet (GenV40.mod_ r4 r5) fun atVal =>
  F64.flet (GenV40.mod_ r6 r7) fun prVal =>
  F64.flet (GenV40.mod_ r8 r9) fun uiVal =>
  F64.flet (GenV40.mod_ r10 r11) fun vcVal =>
  F64.flet (GenV40.mod_ r12 r13) fun scVal =>
  F64.flet (GenV40.mod_ r14 r15) fun viVal =>
  F64.flet (GenV40.mod_ r16 r17) fun siVal =>
  F64.flet (GenV40.mod_ r18 r19) fun vaVal =>
  F64.flet (GenV40.mod_ r20 r21) fun saVal =>
  cond ((((((Nat.beq vcVal (2 : Nat)) && (Nat.beq viVal (2 : Nat))) && (Nat.beq vaVal (2 : Nat))) && (Nat.beq scVal (2 : Nat))) && (Nat.beq siVal (2 : Nat))) && (Nat.beq saVal (2 : Nat)))
    ((0x0000000000000000 : Nat))
    (F64.flet r22 fun crVal =>
    match (cond (Nat.beq crVal (0 : Nat))
      (F64.flet (1 : Nat) fun crVal =>
      crVal)
      (crVal)) with
    | crVal =>
    F64.flet r23 fun irVal =>
    match (cond (Nat.beq irVal (0 : Nat))
      (F64.flet (1 : Nat) fun irVal =>
      irVal)
      (irVal)) with
    | irVal =>
    F64.flet r24 fun arVal =>
    match (cond (Nat.beq arVal (0 : Nat))
      (F64.flet (1 : Nat) fun arVal =>
      arVal)
      (arVal)) with
    | arVal =>
    match (GenV40.macroVector_core r0 r1 r2 r3 r4 r5 r6 r7 r8 r9 r10 r11 r12 r13 r14 r15 r17 r16 r18 r19 r21 r20 r25 r22 r23 r24) with
    | (eq1, eq2, eq3, eq4, eq5, eq6) =>
    F64.flet (GenV40.lookupMV eq1 eq2 eq3 eq4 eq5 eq6) fun eqsv =>
    F64.flet (0 : Nat) fun lower =>
    F64.flet F64.NAN fun eq1nlm =>
    match (cond (Nat.blt eq1 (2 : Nat))
      (F64.flet (GenV40.lookupMV (Nat.add eq1 (1 : Nat)) eq2 eq3 eq4 eq5 eq6) fun eq1nlm =>
      F64.flet (Nat.add lower (1 : Nat)) fun lower =>
      (eq1nlm, lower))
      ((eq1nlm, lower))) with
    | (eq1nlm, lower) =>
    F64.flet F64.NAN fun eq2nlm =>
    match (cond (Nat.blt eq2 (1 : Nat))
      (F64.flet (GenV40.lookupMV eq1 (Nat.add eq2 (1 : Nat)) eq3 eq4 eq5 eq6) fun eq2nlm =>
      F64.flet (Nat.add lower (1 : Nat)) fun lower =>
      (eq2nlm, lower))
      ((eq2nlm, lower))) with
    | (eq2nlm, lower) =>
    F64.flet F64.NAN fun eq4nlm =>
    match (cond (Nat.blt eq4 (2 : Nat))
      (F64.flet (GenV40.lookupMV eq1 eq2 eq3 (Nat.add eq4 (1 : Nat)) eq5 eq6) fun eq4nlm =>
      F64.flet (Nat.add lower (1 : Nat)) fun lower =>
      (eq4nlm, lower))
      ((eq4nlm, lower))) with
    | (eq4nlm, lower) =>
    F64.flet F64.NAN fun eq5nlm =>
    match (cond (Nat.blt eq5 (2 : Nat))
      (F64.flet (GenV40.lookupMV eq1 eq2 eq3 eq4 (Nat.add eq5 (1 : Nat)) eq6) fun eq5nlm =>
      F64.flet (Nat.add lower (1 : Nat)) fun lower =>
      (eq5nlm, lower))
      ((eq5nlm, lower))) with
    | (eq5nlm, lower) =>
    F64.flet F64.NAN fun eq3eq6nlm =>
    match (cond ((Nat.beq eq3 (1 : Nat)) && (Nat.beq eq6 (1 : Nat)))
      (F64.flet (GenV40.lookupMV eq1 eq2 (Nat.add eq3 (1 : Nat)) eq4 eq5 eq6) fun eq3eq6nlm =>
      F64.flet (Nat.add lower (1 : Nat)) fun lower =>
      (eq3eq6nlm, lower))
      (match (cond ((Nat.beq eq3 (0 : Nat)) && (Nat.beq eq6 (1 : Nat)))
        (F64.flet (GenV40.lookupMV eq1 eq2 (Nat.add eq3 (1 : Nat)) eq4 eq5 eq6) fun eq3eq6nlm =>
        F64.flet (Nat.add lower (1 : Nat)) fun lower =>
        (eq3eq6nlm, lower))
        (match (cond ((Nat.beq eq3 (1 : Nat)) && (Nat.beq eq6 (0 : Nat)))
          (F64.flet (GenV40.lookupMV eq1 eq2 eq3 eq4 eq5 (Nat.add eq6 (1 : Nat))) fun eq3eq6nlm =>
          F64.flet (Nat.add lower (1 : Nat)) fun lower =>
          (eq3eq6nlm, lower))
          (match (cond ((Nat.beq eq3 (0 : Nat)) && (Nat.beq eq6 (0 : Nat)))
            (F64.flet (GenV40.lookupMV eq1 eq2 (Nat.add eq3 (1 : Nat)) eq4 eq5 eq6) fun eq3eq6nlm =>
            F64.flet (GenV40.lookupMV eq1 eq2 eq3 eq4 eq5 (Nat.add eq6 (1 : Nat))) fun eq6nlm =>
            match (cond (F64.lt eq3eq6nlm eq6nlm)
              (F64.flet eq6nlm fun eq3eq6nlm =>
              eq3eq6nlm)
              (eq3eq6nlm)) with
            | eq3eq6nlm =>
            F64.flet (Nat.add lower (1 : Nat)) fun lower =>
            (eq3eq6nlm, lower))
            ((eq3eq6nlm, lower))) with
          | (eq3eq6nlm, lower) =>
          (eq3eq6nlm, lower))) with
        | (eq3eq6nlm, lower) =>
        (eq3eq6nlm, lower))) with
      | (eq3eq6nlm, lower) =>
      (eq3eq6nlm, lower))) with
    | (eq3eq6nlm, lower) =>
    F64.flet (GenV40.abs_ (F64.sub eq1nlm eqsv)) fun eq1msd =>
    match (cond (F64.isNaN eq1msd)
      (F64.flet (0x0000000000000000 : Nat) fun eq1msd =>
      eq1msd)
      (eq1msd)) with
    | eq1msd =>
    F64.flet (GenV40.abs_ (F64.sub eq2nlm eqsv)) fun eq2msd =>
    match (cond (F64.isNaN eq2msd)
      (F64.flet (0x0000000000000000 : Nat) fun eq2msd =>
      eq2msd)
      (eq2msd)) with
    | eq2msd =>
    F64.flet (GenV40.abs_ (F64.sub eq3eq6nlm eqsv)) fun eq3eq6msd =>
    match (cond (F64.isNaN eq3eq6msd)
      (F64.flet (0x0000000000000000 : Nat) fun eq3eq6msd =>
      eq3eq6msd)
      (eq3eq6msd)) with
    | eq3eq6msd =>
    F64.flet (GenV40.abs_ (F64.sub eq4nlm eqsv)) fun eq4msd =>
    match (cond (F64.isNaN eq4msd)
      (F64.flet (0x0000000000000000 : Nat) fun eq4msd =>
      eq4msd)
      (eq4msd)) with
    | eq4msd =>
    F64.flet (GenV40.abs_ (F64.sub eq5nlm eqsv)) fun eq5msd =>
    match (cond (F64.isNaN eq5msd)
      (F64.flet (0x0000000000000000 : Nat) fun eq5msd =>
      eq5msd)
      (eq5msd)) with
    | eq5msd =>
    F64.flet (0 : Nat) fun eq1svdst =>
    F64.flet (0 : Nat) fun eq2svdst =>
    F64.flet (0 : Nat) fun eq3eq6svdst =>
    F64.flet (0 : Nat) fun eq4svdst =>
    F64.flet (0 : Nat) fun eq5svdst =>
    match Go.forRange (Go.idx (Go.idx GenV40.tbl_highestSeverityVectors (1 : Nat)) eq1) (eq1svdst, eq2svdst, eq3eq6svdst, eq4svdst, eq5svdst) (fun eq1mx (eq1svdst, eq2svdst, eq3eq6svdst, eq4svdst, eq5svdst) =>
        match Go.forRange (Go.idx (Go.idx GenV40.tbl_highestSeverityVectors (2 : Nat)) eq2) (eq1svdst, eq2svdst, eq3eq6svdst, eq4svdst, eq5svdst) (fun eq2mx (eq1svdst, eq2svdst, eq3eq6svdst, eq4svdst, eq5svdst) =>
            match Go.forRange (Go.idx (Go.idx GenV40.tbl_highestSeverityVectorsEQ3EQ6 eq3) eq6) (eq1svdst, eq2svdst, eq3eq6svdst, eq4svdst, eq5svdst) (fun eq3eq6mx (eq1svdst, eq2svdst, eq3eq6svdst, eq4svdst, eq5svdst) =>
                match Go.forRange (Go.idx (Go.idx GenV40.tbl_highestSeverityVectors (4 : Nat)) eq4) (eq1svdst, eq2svdst, eq3eq6svdst, eq4svdst, eq5svdst) (fun eq4mx (eq1svdst, eq2svdst, eq3eq6svdst, eq4svdst, eq5svdst) =>
                    F64.flet (Nat.mod (Nat.div (Nat.mod eq1mx (1000 : Nat)) (100 : Nat)) 256) fun avmx =>
                    F64.flet (Nat.mod (Nat.div (Nat.mod eq1mx (100 : Nat)) (10 : Nat)) 256) fun prmx =>
                    F64.flet (Nat.mod (Nat.div (Nat.mod eq1mx (10 : Nat)) (1 : Nat)) 256) fun uimx =>
                    F64.flet (Nat.mod (Nat.div (Nat.mod eq2mx (100 : Nat)) (10 : Nat)) 256) fun acmx =>
                    F64.flet (Nat.mod (Nat.div (Nat.mod eq2mx (10 : Nat)) (1 : Nat)) 256) fun atmx =>
                    F64.flet (Nat.mod (Nat.div (Nat.mod eq3eq6mx (1000000 : Nat)) (100000 : Nat)) 256) fun vcmx =>
                    F64.flet (Nat.mod (Nat.div (Nat.mod eq3eq6mx (100000 : Nat)) (10000 : Nat)) 256) fun vimx =>
                    F64.flet (Nat.mod (Nat.div (Nat.mod eq3eq6mx (10000 : Nat)) (1000 : Nat)) 256) fun vamx =>
                    F64.flet (Nat.mod (Nat.div (Nat.mod eq3eq6mx (1000 : Nat)) (100 : Nat)) 256) fun crmx =>
                    F64.flet (Nat.mod (Nat.div (Nat.mod eq3eq6mx (100 : Nat)) (10 : Nat)) 256) fun irmx =>
                    F64.flet (Nat.mod (Nat.div (Nat.mod eq3eq6mx (10 : Nat)) (1 : Nat)) 256) fun armx =>
                    F64.flet (Nat.mod (Nat.div (Nat.mod eq4mx (1000 : Nat)) (100 : Nat)) 256) fun scmx =>
                    F64.flet (Nat.mod (Nat.div (Nat.mod eq4mx (100 : Nat)) (10 : Nat)) 256) fun simx =>
                    F64.flet (Nat.mod (Nat.div (Nat.mod eq4mx (10 : Nat)) (1 : Nat)) 256) fun samx =>
                    F64.flet (GenV40.severityDistance (0 : Nat) avVal avmx) fun avsvdst =>
                    F64.flet (GenV40.severityDistance (1 : Nat) acVal acmx) fun acsvdst =>
                    F64.flet (GenV40.severityDistance (2 : Nat) atVal atmx) fun atsvdst =>
                    F64.flet (GenV40.severityDistance (3 : Nat) prVal prmx) fun prsvdst =>
                    F64.flet (GenV40.severityDistance (4 : Nat) uiVal uimx) fun uisvdst =>
                    F64.flet (GenV40.severityDistance (5 : Nat) vcVal vcmx) fun vcsvdst =>
                    F64.flet (GenV40.severityDistance (6 : Nat) viVal vimx) fun visvdst =>
                    F64.flet (GenV40.severityDistance (7 : Nat) vaVal vamx) fun vasvdst =>
                    F64.flet (GenV40.severityDistance (8 : Nat) scVal scmx) fun scsvdst =>
                    F64.flet (GenV40.severityDistance (9 : Nat) siVal simx) fun sisvdst =>
                    F64.flet (GenV40.severityDistance (10 : Nat) saVal samx) fun sasvdst =>
                    F64.flet (GenV40.severityDistance (12 : Nat) crVal crmx) fun crsvdst =>
                    F64.flet (GenV40.severityDistance (13 : Nat) irVal irmx) fun irsvdst =>
                    F64.flet (GenV40.severityDistance (14 : Nat) arVal armx) fun arsvdst =>
                    cond ((((((((((((((F64.lt avsvdst (0x0000000000000000 : Nat)) || (F64.lt prsvdst (0x0000000000000000 : Nat))) || (F64.lt uisvdst (0x0000000000000000 : Nat))) || (F64.lt acsvdst (0x0000000000000000 : Nat))) || (F64.lt atsvdst (0x0000000000000000 : Nat))) || (F64.lt vcsvdst (0x0000000000000000 : Nat))) || (F64.lt visvdst (0x0000000000000000 : Nat))) || (F64.lt vasvdst (0x0000000000000000 : Nat))) || (F64.lt scsvdst (0x0000000000000000 : Nat))) || (F64.lt sisvdst (0x0000000000000000 : Nat))) || (F64.lt sasvdst (0x0000000000000000 : Nat))) || (F64.lt crsvdst (0x0000000000000000 : Nat))) || (F64.lt irsvdst (0x0000000000000000 : Nat))) || (F64.lt arsvdst (0x0000000000000000 : Nat)))
                      (Go.Ctl.next (eq1svdst, eq2svdst, eq3eq6svdst, eq4svdst, eq5svdst))
                      (F64.flet (F64.add (F64.add avsvdst prsvdst) uisvdst) fun eq1svdst =>
                      F64.flet (F64.add acsvdst atsvdst) fun eq2svdst =>
                      F64.flet (F64.add (F64.add (F64.add (F64.add (F64.add vcsvdst visvdst) vasvdst) crsvdst) irsvdst) arsvdst) fun eq3eq6svdst =>
                      F64.flet (F64.add (F64.add scsvdst sisvdst) sasvdst) fun eq4svdst =>
                      F64.flet (0x0000000000000000 : Nat) fun eq5svdst =>
                      Go.Ctl.brk (eq1svdst, eq2svdst, eq3eq6svdst, eq4svdst, eq5svdst))) with
                | Go.Ctl.ret r => Go.Ctl.ret r
                | Go.Ctl.brk (eq1svdst, eq2svdst, eq3eq6svdst, eq4svdst, eq5svdst) => Go.Ctl.ret (0x7FF8DEAD00000000 : Nat)
                | Go.Ctl.next (eq1svdst, eq2svdst, eq3eq6svdst, eq4svdst, eq5svdst) =>
                Go.Ctl.next (eq1svdst, eq2svdst, eq3eq6svdst, eq4svdst, eq5svdst)) with
            | Go.Ctl.ret r => Go.Ctl.ret r
            | Go.Ctl.brk (eq1svdst, eq2svdst, eq3eq6svdst, eq4svdst, eq5svdst) => Go.Ctl.ret (0x7FF8DEAD00000000 : Nat)
            | Go.Ctl.next (eq1svdst, eq2svdst, eq3eq6svdst, eq4svdst, eq5svdst) =>
            Go.Ctl.next (eq1svdst, eq2svdst, eq3eq6svdst, eq4svdst, eq5svdst)) with
        | Go.Ctl.ret r => Go.Ctl.ret r
        | Go.Ctl.brk (eq1svdst, eq2svdst, eq3eq6svdst, eq4svdst, eq5svdst) => Go.Ctl.ret (0x7FF8DEAD00000000 : Nat)
        | Go.Ctl.next (eq1svdst, eq2svdst, eq3eq6svdst, eq4svdst, eq5svdst) =>
        Go.Ctl.next (eq1svdst, eq2svdst, eq3eq6svdst, eq4svdst, eq5svdst)) with
    | Go.Ctl.ret r => r
    | Go.Ctl.brk (eq1svdst, eq2svdst, eq3eq6svdst, eq4svdst, eq5svdst) => (0x7FF8DEAD00000000 : Nat)
    | Go.Ctl.next (eq1svdst, eq2svdst, eq3eq6svdst, eq4svdst, eq5svdst) =>
    F64.flet (F64.div eq1svdst (F64.add (GenV40.getDepth (1 : Nat) eq1) (0x3ff0000000000000 : Nat))) fun eq1prop =>
    F64.flet (F64.div eq2svdst (F64.add (GenV40.getDepth (2 : Nat) eq2) (0x3ff0000000000000 : Nat))) fun eq2prop =>
    F64.flet (F64.div eq3eq6svdst (F64.add (GenV40.getDepthEQ3EQ6 eq3 eq6) (0x3ff0000000000000 : Nat))) fun eq3eq6prop =>
    F64.flet (F64.div eq4svdst (F64.add (GenV40.getDepth (4 : Nat) eq4) (0x3ff0000000000000 : Nat))) fun eq4prop =>
    F64.flet (F64.div eq5svdst (F64.add (GenV40.getDepth (5 : Nat) eq5) (0x3ff0000000000000 : Nat))) fun eq5prop =>
    F64.flet (F64.mul eq1msd eq1prop) fun eq1msd =>
    F64.flet (F64.mul eq2msd eq2prop) fun eq2msd =>
    F64.flet (F64.mul eq3eq6msd eq3eq6prop) fun eq3eq6msd =>
    F64.flet (F64.mul eq4msd eq4prop) fun eq4msd =>
    F64.flet (F64.mul eq5msd eq5prop) fun eq5msd =>
    F64.flet (0x0000000000000000 : Nat) fun mean =>
    match (cond (!(Nat.beq lower (0 : Nat)))
      (F64.flet (F64.div (F64.add (F64.add (F64.add (F64.add eq1msd eq2msd) eq3eq6msd) eq4msd) eq5msd) (F64.ofNat lower)) fun mean =>
      mean)
      (mean)) with
    | mean =>
    (GenV40.roundup (F64.sub eqsv mean)))

def Score (u0 : Nat) (u1 : Nat) (u2 : Nat) (u3 : Nat) (u4 : Nat) (u5 : Nat) (u6 : Nat) (u7 : Nat) (u8 : Nat) : Nat :=
  Score_core (Nat.shiftRight (Nat.land u0 (192 : Nat)) (6 : Nat)) (Nat.shiftRight (Nat.land u3 (14 : Nat)) (1 : Nat)) (Nat.shiftRight (Nat.land u0 (32 : Nat)) (5 : Nat)) (Nat.lor (Nat.mod (Nat.shiftLeft (Nat.land u3 (1 : Nat)) (1 : Nat)) 256) (Nat.shiftRight (Nat.land u4 (128 : Nat)) (7 : Nat))) (Nat.shiftRight (Nat.land u0 (16 : Nat)) (4 : Nat)) (Nat.shiftRight (Nat.land u4 (96 : Nat)) (5 : Nat)) (Nat.shiftRight (Nat.land u0 (12 : Nat)) (2 : Nat)) (Nat.shiftRight (Nat.land u4 (24 : Nat)) (3 : Nat)) (Nat.land u0 (3 : Nat)) (Nat.shiftRight (Nat.land u4 (6 : Nat)) (1 : Nat)) (Nat.shiftRight (Nat.land u1 (192 : Nat)) (6 : Nat)) (Nat.lor (Nat.mod (Nat.shiftLeft (Nat.land u4 (1 : Nat)) (1 : Nat)) 256) (Nat.shiftRight (Nat.land u5 (128 : Nat)) (7 : Nat))) (Nat.shiftRight (Nat.land u1 (48 : Nat)) (4 : Nat)) (Nat.shiftRight (Nat.land u5 (6 : Nat)) (1 : Nat)) (Nat.shiftRight (Nat.land u1 (12 : Nat)) (2 : Nat)) (Nat.shiftRight (Nat.land u5 (96 : Nat)) (5 : Nat)) (Nat.land u1 (3 : Nat)) (Nat.lor (Nat.mod (Nat.shiftLeft (Nat.land u5 (1 : Nat)) (2 : Nat)) 256) (Nat.shiftRight (Nat.land u6 (192 : Nat)) (6 : Nat))) (Nat.shiftRight (Nat.land u2 (192 : Nat)) (6 : Nat)) (Nat.shiftRight (Nat.land u5 (24 : Nat)) (3 : Nat)) (Nat.shiftRight (Nat.land u2 (48 : Nat)) (4 : Nat)) (Nat.shiftRight (Nat.land u6 (56 : Nat)) (3 : Nat)) (Nat.land u2 (3 : Nat)) (Nat.shiftRight (Nat.land u3 (192 : Nat)) (6 : Nat)) (Nat.shiftRight (Nat.land u3 (48 : Nat)) (4 : Nat)) (Nat.shiftRight (Nat.land u2 (12 : Nat)) (2 : Nat))

/-- Nomenclature  (cvss40.go) -/
--   r0 := (Nat.land u2 (12 : Nat))
--   r1 := (Nat.land u2 (3 : Nat))
--   r2 := u3
--   r3 := u4
--   r4 := u5
--   r5 := (Nat.land u6 (248 : Nat))
def Nomenclature_core (r0 : Nat) (r1 : Nat) (r2 : Nat) (r3 : Nat) (r4 : Nat) (r5 : Nat) : (List Nat) :=
  let t := (!(Nat.beq r0 (0 : Nat)))
  let e_ := (((((!(Nat.beq r1 (0 : Nat))) || (!(Nat.beq r2 (0 : Nat)))) || (!(Nat.beq r3 (0 : Nat)))) || (!(Nat.beq r4 (0 : Nat)))) || (!(Nat.beq r5 (0 : Nat))))
  cond t
    (cond e_
      (([67, 86, 83, 83, 45, 66, 84, 69] : List Nat) /- CVSS-BTE -/)
      (([67, 86, 83, 83, 45, 66, 84] : List Nat) /- CVSS-BT -/))
    (cond e_
      (([67, 86, 83, 83, 45, 66, 69] : List Nat) /- CVSS-BE -/)
      (([67, 86, 83, 83, 45, 66] : List Nat) /- CVSS-B -/))

def Nomenclature (u0 : Nat) (u1 : Nat) (u2 : Nat) (u3 : Nat) (u4 : Nat) (u5 : Nat) (u6 : Nat) (u7 : Nat) (u8 : Nat) : (List Nat) :=
  Nomenclature_core (Nat.land u2 (12 : Nat)) (Nat.land u2 (3 : Nat)) u3 u4 u5 (Nat.land u6 (248 : Nat))

/-- Rating  (cvss40.go) -/
def Rating (score : Nat) : ((List Nat) × Go.Err) :=
  cond ((F64.lt score (0x0000000000000000 : Nat)) || (F64.lt (0x4024000000000000 : Nat) score))
    ((([] : List Nat) /-  -/, (Go.Err.mk 5 []) /- ErrOutOfBoundsScore -/))
    (cond (F64.le (0x4022000000000000 : Nat) score)
      ((([67, 82, 73, 84, 73, 67, 65, 76] : List Nat) /- CRITICAL -/, Go.errNil))
      (cond (F64.le (0x401c000000000000 : Nat) score)
        ((([72, 73, 71, 72] : List Nat) /- HIGH -/, Go.errNil))
        (cond (F64.le (0x4010000000000000 : Nat) score)
          ((([77, 69, 68, 73, 85, 77] : List Nat) /- MEDIUM -/, Go.errNil))
          (cond (F64.le (0x3fb999999999999a : Nat) score)
            ((([76, 79, 87] : List Nat) /- LOW -/, Go.errNil))
            ((([78, 79, 78, 69] : List Nat) /- NONE -/, Go.errNil))))))

/-- table order (cvss40.go) -/
def tbl_order : (List (List (List Nat))) :=
  [[([65, 86] : List Nat), ([65, 67] : List Nat), ([65, 84] : List Nat), ([80, 82] : List Nat), ([85, 73] : List Nat), ([86, 67] : List Nat), ([86, 73] : List Nat), ([86, 65] : List Nat), ([83, 67] : List Nat), ([83, 73] : List Nat), ([83, 65] : List Nat)], [([69] : List Nat)], [([67, 82] : List Nat), ([73, 82] : List Nat), ([65, 82] : List Nat), ([77, 65, 86] : List Nat), ([77, 65, 67] : List Nat), ([77, 65, 84] : List Nat), ([77, 80, 82] : List Nat), ([77, 85, 73] : List Nat), ([77, 86, 67] : List Nat), ([77, 86, 73] : List Nat), ([77, 86, 65] : List Nat), ([77, 83, 67] : List Nat), ([77, 83, 73] : List Nat), ([77, 83, 65] : List Nat)], [([83] : List Nat), ([65, 85] : List Nat), ([82] : List Nat), ([86] : List Nat), ([82, 69] : List Nat), ([85] : List Nat)]]

/-- constant header (cvss40.go) -/
def const_header : List Nat :=
  ([67, 86, 83, 83, 58, 52, 46, 48] : List Nat)

/-- functions containing a pre-sized buffer `make([]T, 0, cap)` (one entry per occurrence) -/
def pkg_presized : List String :=
  ["CVSS40.Vector"]

/-- every mention of package unsafe (function or `decl`:unsafe.X, one entry per occurrence) -/
def pkg_unsafe_all : List String :=
  ["CVSS40.Vector:unsafe.Pointer"]

/-- sha256 (first 16 hex digits) of each verification hooks file -/
def hook_sha : List String :=
  ["zz_verif_hooks.go:798c5105abf108ec"]

/-- import paths of the package's source files (alias=path when renamed) -/
def pkg_imports : List String :=
  ["errors", "fmt", "math", "strings", "unsafe"]

/-- fields of the object type (name:type), in declaration order -/
def obj_fields : List String :=
  ["u0:uint8", "u1:uint8", "u2:uint8", "u3:uint8", "u4:uint8", "u5:uint8", "u6:uint8", "u7:uint8", "u8:uint8"]

/-- methods of the object type with a pointer receiver (the only ones that can change the object) -/
def obj_ptr_methods : List String :=
  ["Score", "Set"]

/-- what each pointer-receiver method does with its receiver: writes / takes-address / passes-pointer / aliases / returns-pointer / calls:M, or reads-only -/
def obj_ptr_effects : List String :=
  ["Score:reads-only", "Set:writes"]

/-- declarations of the verification hooks files (verif build only; not translated): they may only add accessors -/
def hook_decls : List String :=
  ["zz_verif_hooks.go:func VerifBytes", "zz_verif_hooks.go:func VerifFromBytes", "zz_verif_hooks.go:func VerifLenVec", "zz_verif_hooks.go:func VerifLookupMV", "zz_verif_hooks.go:func VerifMacroVector", "zz_verif_hooks.go:func VerifRoundup"]

/-- files of the package directory that belong to neither the ordinary nor the verif build, and non-Go sources -/
def pkg_other_files : List String :=
  []

/-- `init` functions of the package (file:init) -/
def pkg_inits : List String :=
  []

/-- build constraints on non-test source files other than the verification hooks (file:constraint) -/
def pkg_build_tags : List String :=
  []

/-- package-level variables (name:type) -/
def pkg_vars : List String :=
  ["ErrInvalidCVSSHeader:error", "ErrInvalidMetricOrder:error", "ErrInvalidMetricValue:error", "ErrOutOfBoundsScore:error", "ErrTooShortVector:error", "highestSeverityVectors:[][][]int", "highestSeverityVectorsEQ3EQ6:[][][]int", "order:[][]string", "sevIdx:[][]uint8"]

/-- function:variable for every assignment to (or address-of) a package-level variable inside a function body -/
def pkg_writes : List String :=
  []

/-- function:variable.method for every method call on a package-level variable; function:go for goroutine starts -/
def pkg_calls : List String :=
  []

/-- package-level variables (blank ones included) whose initialiser runs code: name:calls and function literals in it -/
def pkg_var_inits : List String :=
  ["ErrInvalidCVSSHeader:call errors.New", "ErrInvalidMetricOrder:call errors.New", "ErrInvalidMetricValue:call errors.New", "ErrOutOfBoundsScore:call errors.New", "ErrTooShortVector:call errors.New"]

/-- function:variable for every mention of a package-level variable (other than the `error` sentinels) in a function body or initialiser -/
def pkg_var_uses : List String :=
  ["CVSS40.Score:highestSeverityVectors", "CVSS40.Score:highestSeverityVectorsEQ3EQ6", "ParseVector:order", "severityDistance:sevIdx"]

/-- sync.Pool variables and what their `New` makes -/
def pool_new : List String :=
  []

/-- every Get (with the canonical name of the variable that receives it) and Put (with what is handed back), in source order -/
def pool_uses : List String :=
  []

/-- function:unsafe.X for every use of package unsafe -/
def pkg_unsafe : List String :=
  ["CVSS40.Vector:unsafe.Pointer"]

end GenV40
