import Cvss.Base.Go
set_option linter.unusedVariables false
set_option maxRecDepth 100000
/-! GENERATED from package 20 — do not edit -/
namespace GenV20

/-- Get  (cvss20.go) -/
--   r0 := (Nat.shiftRight (Nat.land u0 (192 : Nat)) (6 : Nat))
--   r1 := (Nat.shiftRight (Nat.land u0 (48 : Nat)) (4 : Nat))
--   r2 := (Nat.shiftRight (Nat.land u0 (12 : Nat)) (2 : Nat))
--   r3 := (Nat.land u0 (3 : Nat))
--   r4 := (Nat.shiftRight (Nat.land u1 (192 : Nat)) (6 : Nat))
--   r5 := (Nat.shiftRight (Nat.land u1 (48 : Nat)) (4 : Nat))
--   r6 := (Nat.shiftRight (Nat.land u1 (14 : Nat)) (1 : Nat))
--   r7 := (Nat.lor (Nat.mod (Nat.shiftLeft (Nat.land u1 (1 : Nat)) (2 : Nat)) 256) (Nat.shiftRight (Nat.land u2 (192 : Nat)) (6 : Nat)))
--   r8 := (Nat.shiftRight (Nat.land u2 (48 : Nat)) (4 : Nat))
--   r9 := (Nat.shiftRight (Nat.land u2 (14 : Nat)) (1 : Nat))
--   r10 := (Nat.lor (Nat.mod (Nat.shiftLeft (Nat.land u2 (1 : Nat)) (2 : Nat)) 256) (Nat.shiftRight (Nat.land u3 (192 : Nat)) (6 : Nat)))
--   r11 := (Nat.shiftRight (Nat.land u3 (48 : Nat)) (4 : Nat))
--   r12 := (Nat.shiftRight (Nat.land u3 (12 : Nat)) (2 : Nat))
--   r13 := (Nat.land u3 (3 : Nat))
def Get_core (r0 : Nat) (r1 : Nat) (r2 : Nat) (r3 : Nat) (r4 : Nat) (r5 : Nat) (r6 : Nat) (r7 : Nat) (r8 : Nat) (r9 : Nat) (r10 : Nat) (r11 : Nat) (r12 : Nat) (r13 : Nat) (abv : (List Nat)) : ((List Nat) × Go.Err) :=
  let r := []
  let err := Go.errNil
  cond ((Go.strEq abv ([65, 86] : List Nat) /- AV -/))
    (F64.flet r0 fun v =>
    cond ((Nat.beq v (0 : Nat)))
      (let r := ([76] : List Nat) /- L -/
      (r, err))
     (cond ((Nat.beq v (1 : Nat)))
      (let r := ([65] : List Nat) /- A -/
      (r, err))
     (cond ((Nat.beq v (2 : Nat)))
      (let r := ([78] : List Nat) /- N -/
      (r, err))
     ((r, err)))))
   (cond ((Go.strEq abv ([65, 67] : List Nat) /- AC -/))
    (F64.flet r1 fun v =>
    cond ((Nat.beq v (0 : Nat)))
      (let r := ([76] : List Nat) /- L -/
      (r, err))
     (cond ((Nat.beq v (1 : Nat)))
      (let r := ([77] : List Nat) /- M -/
      (r, err))
     (cond ((Nat.beq v (2 : Nat)))
      (let r := ([72] : List Nat) /- H -/
      (r, err))
     ((r, err)))))
   (cond ((Go.strEq abv ([65, 117] : List Nat) /- Au -/))
    (F64.flet r2 fun v =>
    cond ((Nat.beq v (0 : Nat)))
      (let r := ([77] : List Nat) /- M -/
      (r, err))
     (cond ((Nat.beq v (1 : Nat)))
      (let r := ([83] : List Nat) /- S -/
      (r, err))
     (cond ((Nat.beq v (2 : Nat)))
      (let r := ([78] : List Nat) /- N -/
      (r, err))
     ((r, err)))))
   (cond ((Go.strEq abv ([67] : List Nat) /- C -/))
    (F64.flet r3 fun v =>
    cond ((Nat.beq v (0 : Nat)))
      (let r := ([78] : List Nat) /- N -/
      (r, err))
     (cond ((Nat.beq v (1 : Nat)))
      (let r := ([80] : List Nat) /- P -/
      (r, err))
     (cond ((Nat.beq v (2 : Nat)))
      (let r := ([67] : List Nat) /- C -/
      (r, err))
     ((r, err)))))
   (cond ((Go.strEq abv ([73] : List Nat) /- I -/))
    (F64.flet r4 fun v =>
    cond ((Nat.beq v (0 : Nat)))
      (let r := ([78] : List Nat) /- N -/
      (r, err))
     (cond ((Nat.beq v (1 : Nat)))
      (let r := ([80] : List Nat) /- P -/
      (r, err))
     (cond ((Nat.beq v (2 : Nat)))
      (let r := ([67] : List Nat) /- C -/
      (r, err))
     ((r, err)))))
   (cond ((Go.strEq abv ([65] : List Nat) /- A -/))
    (F64.flet r5 fun v =>
    cond ((Nat.beq v (0 : Nat)))
      (let r := ([78] : List Nat) /- N -/
      (r, err))
     (cond ((Nat.beq v (1 : Nat)))
      (let r := ([80] : List Nat) /- P -/
      (r, err))
     (cond ((Nat.beq v (2 : Nat)))
      (let r := ([67] : List Nat) /- C -/
      (r, err))
     ((r, err)))))
   (cond ((Go.strEq abv ([69] : List Nat) /- E -/))
    (F64.flet r6 fun v =>
    cond ((Nat.beq v (0 : Nat)))
      (let r := ([78, 68] : List Nat) /- ND -/
      (r, err))
     (cond ((Nat.beq v (1 : Nat)))
      (let r := ([85] : List Nat) /- U -/
      (r, err))
     (cond ((Nat.beq v (2 : Nat)))
      (let r := ([80, 79, 67] : List Nat) /- POC -/
      (r, err))
     (cond ((Nat.beq v (3 : Nat)))
      (let r := ([70] : List Nat) /- F -/
      (r, err))
     (cond ((Nat.beq v (4 : Nat)))
      (let r := ([72] : List Nat) /- H -/
      (r, err))
     ((r, err)))))))
   (cond ((Go.strEq abv ([82, 76] : List Nat) /- RL -/))
    (F64.flet r7 fun v =>
    cond ((Nat.beq v (0 : Nat)))
      (let r := ([78, 68] : List Nat) /- ND -/
      (r, err))
     (cond ((Nat.beq v (1 : Nat)))
      (let r := ([79, 70] : List Nat) /- OF -/
      (r, err))
     (cond ((Nat.beq v (2 : Nat)))
      (let r := ([84, 70] : List Nat) /- TF -/
      (r, err))
     (cond ((Nat.beq v (3 : Nat)))
      (let r := ([87] : List Nat) /- W -/
      (r, err))
     (cond ((Nat.beq v (4 : Nat)))
      (let r := ([85] : List Nat) /- U -/
      (r, err))
     ((r, err)))))))
   (cond ((Go.strEq abv ([82, 67] : List Nat) /- RC -/))
    (F64.flet r8 fun v =>
    cond ((Nat.beq v (0 : Nat)))
      (let r := ([78, 68] : List Nat) /- ND -/
      (r, err))
     (cond ((Nat.beq v (1 : Nat)))
      (let r := ([85, 67] : List Nat) /- UC -/
      (r, err))
     (cond ((Nat.beq v (2 : Nat)))
      (let r := ([85, 82] : List Nat) /- UR -/
      (r, err))
     (cond ((Nat.beq v (3 : Nat)))
      (let r := ([67] : List Nat) /- C -/
      (r, err))
     ((r, err))))))
   (cond ((Go.strEq abv ([67, 68, 80] : List Nat) /- CDP -/))
    (F64.flet r9 fun v =>
    cond ((Nat.beq v (0 : Nat)))
      (let r := ([78, 68] : List Nat) /- ND -/
      (r, err))
     (cond ((Nat.beq v (1 : Nat)))
      (let r := ([78] : List Nat) /- N -/
      (r, err))
     (cond ((Nat.beq v (2 : Nat)))
      (let r := ([76] : List Nat) /- L -/
      (r, err))
     (cond ((Nat.beq v (3 : Nat)))
      (let r := ([76, 77] : List Nat) /- LM -/
      (r, err))
     (cond ((Nat.beq v (4 : Nat)))
      (let r := ([77, 72] : List Nat) /- MH -/
      (r, err))
     (cond ((Nat.beq v (5 : Nat)))
      (let r := ([72] : List Nat) /- H -/
      (r, err))
     ((r, err))))))))
   (cond ((Go.strEq abv ([84, 68] : List Nat) /- TD -/))
    (F64.flet r10 fun v =>
    cond ((Nat.beq v (0 : Nat)))
      (let r := ([78, 68] : List Nat) /- ND -/
      (r, err))
     (cond ((Nat.beq v (1 : Nat)))
      (let r := ([78] : List Nat) /- N -/
      (r, err))
     (cond ((Nat.beq v (2 : Nat)))
      (let r := ([76] : List Nat) /- L -/
      (r, err))
     (cond ((Nat.beq v (3 : Nat)))
      (let r := ([77] : List Nat) /- M -/
      (r, err))
     (cond ((Nat.beq v (4 : Nat)))
      (let r := ([72] : List Nat) /- H -/
      (r, err))
     ((r, err)))))))
   (cond ((Go.strEq abv ([67, 82] : List Nat) /- CR -/))
    (F64.flet r11 fun v =>
    cond ((Nat.beq v (0 : Nat)))
      (let r := ([78, 68] : List Nat) /- ND -/
      (r, err))
     (cond ((Nat.beq v (1 : Nat)))
      (let r := ([76] : List Nat) /- L -/
      (r, err))
     (cond ((Nat.beq v (2 : Nat)))
      (let r := ([77] : List Nat) /- M -/
      (r, err))
     (cond ((Nat.beq v (3 : Nat)))
      (let r := ([72] : List Nat) /- H -/
      (r, err))
     ((r, err))))))
   (cond ((Go.strEq abv ([73, 82] : List Nat) /- IR -/))
    (F64.flet r12 fun v =>
    cond ((Nat.beq v (0 : Nat)))
      (let r := ([78, 68] : List Nat) /- ND -/
      (r, err))
     (cond ((Nat.beq v (1 : Nat)))
      (let r := ([76] : List Nat) /- L -/
      (r, err))
     (cond ((Nat.beq v (2 : Nat)))
      (let r := ([77] : List Nat) /- M -/
      (r, err))
     (cond ((Nat.beq v (3 : Nat)))
      (let r := ([72] : List Nat) /- H -/
      (r, err))
     ((r, err))))))
   (cond ((Go.strEq abv ([65, 82] : List Nat) /- AR -/))
    (F64.flet r13 fun v =>
    cond ((Nat.beq v (0 : Nat)))
      (let r := ([78, 68] : List Nat) /- ND -/
      (r, err))
     (cond ((Nat.beq v (1 : Nat)))
      (let r := ([76] : List Nat) /- L -/
      (r, err))
     (cond ((Nat.beq v (2 : Nat)))
      (let r := ([77] : List Nat) /- M -/
      (r, err))
     (cond ((Nat.beq v (3 : Nat)))
      (let r := ([72] : List Nat) /- H -/
      (r, err))
     ((r, err))))))
   ((([] : List Nat) /-  -/, (Go.Err.mk 101 abv) /- ErrInvalidMetric -/)))))))))))))))

def Get (u0 : Nat) (u1 : Nat) (u2 : Nat) (u3 : Nat) (abv : (List Nat)) : ((List Nat) × Go.Err) :=
  Get_core (Nat.shiftRight (Nat.land u0 (192 : Nat)) (6 : Nat)) (Nat.shiftRight (Nat.land u0 (48 : Nat)) (4 : Nat)) (Nat.shiftRight (Nat.land u0 (12 : Nat)) (2 : Nat)) (Nat.land u0 (3 : Nat)) (Nat.shiftRight (Nat.land u1 (192 : Nat)) (6 : Nat)) (Nat.shiftRight (Nat.land u1 (48 : Nat)) (4 : Nat)) (Nat.shiftRight (Nat.land u1 (14 : Nat)) (1 : Nat)) (Nat.lor (Nat.mod (Nat.shiftLeft (Nat.land u1 (1 : Nat)) (2 : Nat)) 256) (Nat.shiftRight (Nat.land u2 (192 : Nat)) (6 : Nat))) (Nat.shiftRight (Nat.land u2 (48 : Nat)) (4 : Nat)) (Nat.shiftRight (Nat.land u2 (14 : Nat)) (1 : Nat)) (Nat.lor (Nat.mod (Nat.shiftLeft (Nat.land u2 (1 : Nat)) (2 : Nat)) 256) (Nat.shiftRight (Nat.land u3 (192 : Nat)) (6 : Nat))) (Nat.shiftRight (Nat.land u3 (48 : Nat)) (4 : Nat)) (Nat.shiftRight (Nat.land u3 (12 : Nat)) (2 : Nat)) (Nat.land u3 (3 : Nat)) abv

/-- validate  (cvss20.go) -/
def validate (value : (List Nat)) (enabled : (List (List Nat))) : (Nat × Go.Err) :=
  F64.flet (0 : Nat) fun i =>
  let err := Go.errNil
  match Go.forRange enabled i (fun enbl i =>
      cond (Go.strEq value enbl)
        (Go.Ctl.ret (i, Go.errNil))
        (F64.flet (Nat.mod (Nat.add i (1 : Nat)) 256) fun i =>
        Go.Ctl.next i)) with
  | Go.Ctl.ret r => r
  | Go.Ctl.brk i => ((0x7FF8DEAD00000000 : Nat), Go.errPanic)
  | Go.Ctl.next i =>
  ((0 : Nat), (Go.Err.mk 4 []) /- ErrInvalidMetricValue -/)

/-- Set  (cvss20.go) -/
def Set (u0 : Nat) (u1 : Nat) (u2 : Nat) (u3 : Nat) (abv : (List Nat)) (value : (List Nat)) : (Nat × Nat × Nat × Nat × Go.Err) :=
  cond ((Go.strEq abv ([65, 86] : List Nat) /- AV -/))
    (match (GenV20.validate value [([76] : List Nat) /- L -/, ([65] : List Nat) /- A -/, ([78] : List Nat) /- N -/]) with
    | (v, err) =>
    cond (!(Go.Err.beq err Go.errNil))
      ((u0, u1, u2, u3, err))
      (F64.flet (Nat.lor (Nat.land u0 (63 : Nat)) (Nat.mod (Nat.shiftLeft v (6 : Nat)) 256)) fun u0 =>
      (u0, u1, u2, u3, Go.errNil)))
   (cond ((Go.strEq abv ([65, 67] : List Nat) /- AC -/))
    (match (GenV20.validate value [([76] : List Nat) /- L -/, ([77] : List Nat) /- M -/, ([72] : List Nat) /- H -/]) with
    | (v, err) =>
    cond (!(Go.Err.beq err Go.errNil))
      ((u0, u1, u2, u3, err))
      (F64.flet (Nat.lor (Nat.land u0 (207 : Nat)) (Nat.mod (Nat.shiftLeft v (4 : Nat)) 256)) fun u0 =>
      (u0, u1, u2, u3, Go.errNil)))
   (cond ((Go.strEq abv ([65, 117] : List Nat) /- Au -/))
    (match (GenV20.validate value [([77] : List Nat) /- M -/, ([83] : List Nat) /- S -/, ([78] : List Nat) /- N -/]) with
    | (v, err) =>
    cond (!(Go.Err.beq err Go.errNil))
      ((u0, u1, u2, u3, err))
      (F64.flet (Nat.lor (Nat.land u0 (243 : Nat)) (Nat.mod (Nat.shiftLeft v (2 : Nat)) 256)) fun u0 =>
      (u0, u1, u2, u3, Go.errNil)))
   (cond ((Go.strEq abv ([67] : List Nat) /- C -/))
    (match (GenV20.validate value [([78] : List Nat) /- N -/, ([80] : List Nat) /- P -/, ([67] : List Nat) /- C -/]) with
    | (v, err) =>
    cond (!(Go.Err.beq err Go.errNil))
      ((u0, u1, u2, u3, err))
      (F64.flet (Nat.lor (Nat.land u0 (252 : Nat)) v) fun u0 =>
      (u0, u1, u2, u3, Go.errNil)))
   (cond ((Go.strEq abv ([73] : List Nat) /- I -/))
    (match (GenV20.validate value [([78] : List Nat) /- N -/, ([80] : List Nat) /- P -/, ([67] : List Nat) /- C -/]) with
    | (v, err) =>
    cond (!(Go.Err.beq err Go.errNil))
      ((u0, u1, u2, u3, err))
      (F64.flet (Nat.lor (Nat.land u1 (63 : Nat)) (Nat.mod (Nat.shiftLeft v (6 : Nat)) 256)) fun u1 =>
      (u0, u1, u2, u3, Go.errNil)))
   (cond ((Go.strEq abv ([65] : List Nat) /- A -/))
    (match (GenV20.validate value [([78] : List Nat) /- N -/, ([80] : List Nat) /- P -/, ([67] : List Nat) /- C -/]) with
    | (v, err) =>
    cond (!(Go.Err.beq err Go.errNil))
      ((u0, u1, u2, u3, err))
      (F64.flet (Nat.lor (Nat.land u1 (207 : Nat)) (Nat.mod (Nat.shiftLeft v (4 : Nat)) 256)) fun u1 =>
      (u0, u1, u2, u3, Go.errNil)))
   (cond ((Go.strEq abv ([69] : List Nat) /- E -/))
    (match (GenV20.validate value [([78, 68] : List Nat) /- ND -/, ([85] : List Nat) /- U -/, ([80, 79, 67] : List Nat) /- POC -/, ([70] : List Nat) /- F -/, ([72] : List Nat) /- H -/]) with
    | (v, err) =>
    cond (!(Go.Err.beq err Go.errNil))
      ((u0, u1, u2, u3, err))
      (F64.flet (Nat.lor (Nat.land u1 (241 : Nat)) (Nat.mod (Nat.shiftLeft v (1 : Nat)) 256)) fun u1 =>
      (u0, u1, u2, u3, Go.errNil)))
   (cond ((Go.strEq abv ([82, 76] : List Nat) /- RL -/))
    (match (GenV20.validate value [([78, 68] : List Nat) /- ND -/, ([79, 70] : List Nat) /- OF -/, ([84, 70] : List Nat) /- TF -/, ([87] : List Nat) /- W -/, ([85] : List Nat) /- U -/]) with
    | (v, err) =>
    cond (!(Go.Err.beq err Go.errNil))
      ((u0, u1, u2, u3, err))
      (F64.flet (Nat.lor (Nat.land u1 (254 : Nat)) (Nat.shiftRight (Nat.land v (4 : Nat)) (2 : Nat))) fun u1 =>
      F64.flet (Nat.lor (Nat.land u2 (63 : Nat)) (Nat.mod (Nat.shiftLeft (Nat.land v (3 : Nat)) (6 : Nat)) 256)) fun u2 =>
      (u0, u1, u2, u3, Go.errNil)))
   (cond ((Go.strEq abv ([82, 67] : List Nat) /- RC -/))
    (match (GenV20.validate value [([78, 68] : List Nat) /- ND -/, ([85, 67] : List Nat) /- UC -/, ([85, 82] : List Nat) /- UR -/, ([67] : List Nat) /- C -/]) with
    | (v, err) =>
    cond (!(Go.Err.beq err Go.errNil))
      ((u0, u1, u2, u3, err))
      (F64.flet (Nat.lor (Nat.land u2 (207 : Nat)) (Nat.mod (Nat.shiftLeft v (4 : Nat)) 256)) fun u2 =>
      (u0, u1, u2, u3, Go.errNil)))
   (cond ((Go.strEq abv ([67, 68, 80] : List Nat) /- CDP -/))
    (match (GenV20.validate value [([78, 68] : List Nat) /- ND -/, ([78] : List Nat) /- N -/, ([76] : List Nat) /- L -/, ([76, 77] : List Nat) /- LM -/, ([77, 72] : List Nat) /- MH -/, ([72] : List Nat) /- H -/]) with
    | (v, err) =>
    cond (!(Go.Err.beq err Go.errNil))
      ((u0, u1, u2, u3, err))
      (F64.flet (Nat.lor (Nat.land u2 (241 : Nat)) (Nat.mod (Nat.shiftLeft v (1 : Nat)) 256)) fun u2 =>
      (u0, u1, u2, u3, Go.errNil)))
   (cond ((Go.strEq abv ([84, 68] : List Nat) /- TD -/))
    (match (GenV20.validate value [([78, 68] : List Nat) /- ND -/, ([78] : List Nat) /- N -/, ([76] : List Nat) /- L -/, ([77] : List Nat) /- M -/, ([72] : List Nat) /- H -/]) with
    | (v, err) =>
    cond (!(Go.Err.beq err Go.errNil))
      ((u0, u1, u2, u3, err))
      (F64.flet (Nat.lor (Nat.land u2 (254 : Nat)) (Nat.shiftRight (Nat.land v (4 : Nat)) (2 : Nat))) fun u2 =>
      F64.flet (Nat.lor (Nat.land u3 (63 : Nat)) (Nat.mod (Nat.shiftLeft (Nat.land v (3 : Nat)) (6 : Nat)) 256)) fun u3 =>
      (u0, u1, u2, u3, Go.errNil)))
   (cond ((Go.strEq abv ([67, 82] : List Nat) /- CR -/))
    (match (GenV20.validate value [([78, 68] : List Nat) /- ND -/, ([76] : List Nat) /- L -/, ([77] : List Nat) /- M -/, ([72] : List Nat) /- H -/]) with
    | (v, err) =>
    cond (!(Go.Err.beq err Go.errNil))
      ((u0, u1, u2, u3, err))
      (F64.flet (Nat.lor (Nat.land u3 (207 : Nat)) (Nat.mod (Nat.shiftLeft v (4 : Nat)) 256)) fun u3 =>
      (u0, u1, u2, u3, Go.errNil)))
   (cond ((Go.strEq abv ([73, 82] : List Nat) /- IR -/))
    (match (GenV20.validate value [([78, 68] : List Nat) /- ND -/, ([76] : List Nat) /- L -/, ([77] : List Nat) /- M -/, ([72] : List Nat) /- H -/]) with
    | (v, err) =>
    cond (!(Go.Err.beq err Go.errNil))
      ((u0, u1, u2, u3, err))
      (F64.flet (Nat.lor (Nat.land u3 (243 : Nat)) (Nat.mod (Nat.shiftLeft v (2 : Nat)) 256)) fun u3 =>
      (u0, u1, u2, u3, Go.errNil)))
   (cond ((Go.strEq abv ([65, 82] : List Nat) /- AR -/))
    (match (GenV20.validate value [([78, 68] : List Nat) /- ND -/, ([76] : List Nat) /- L -/, ([77] : List Nat) /- M -/, ([72] : List Nat) /- H -/]) with
    | (v, err) =>
    cond (!(Go.Err.beq err Go.errNil))
      ((u0, u1, u2, u3, err))
      (F64.flet (Nat.lor (Nat.land u3 (252 : Nat)) v) fun u3 =>
      (u0, u1, u2, u3, Go.errNil)))
   ((u0, u1, u2, u3, (Go.Err.mk 101 abv) /- ErrInvalidMetric -/)))))))))))))))

/-- get  (cvss20.go) -/
--   r0 := (Nat.shiftRight (Nat.land u0 (192 : Nat)) (6 : Nat))
--   r1 := (Nat.shiftRight (Nat.land u0 (48 : Nat)) (4 : Nat))
--   r2 := (Nat.shiftRight (Nat.land u0 (12 : Nat)) (2 : Nat))
--   r3 := (Nat.land u0 (3 : Nat))
--   r4 := (Nat.shiftRight (Nat.land u1 (192 : Nat)) (6 : Nat))
--   r5 := (Nat.shiftRight (Nat.land u1 (48 : Nat)) (4 : Nat))
--   r6 := (Nat.shiftRight (Nat.land u1 (14 : Nat)) (1 : Nat))
--   r7 := (Nat.lor (Nat.mod (Nat.shiftLeft (Nat.land u1 (1 : Nat)) (2 : Nat)) 256) (Nat.shiftRight (Nat.land u2 (192 : Nat)) (6 : Nat)))
--   r8 := (Nat.shiftRight (Nat.land u2 (48 : Nat)) (4 : Nat))
--   r9 := (Nat.shiftRight (Nat.land u2 (14 : Nat)) (1 : Nat))
--   r10 := (Nat.lor (Nat.mod (Nat.shiftLeft (Nat.land u2 (1 : Nat)) (2 : Nat)) 256) (Nat.shiftRight (Nat.land u3 (192 : Nat)) (6 : Nat)))
--   r11 := (Nat.shiftRight (Nat.land u3 (48 : Nat)) (4 : Nat))
--   r12 := (Nat.shiftRight (Nat.land u3 (12 : Nat)) (2 : Nat))
--   r13 := (Nat.land u3 (3 : Nat))
def get_core (r0 : Nat) (r1 : Nat) (r2 : Nat) (r3 : Nat) (r4 : Nat) (r5 : Nat) (r6 : Nat) (r7 : Nat) (r8 : Nat) (r9 : Nat) (r10 : Nat) (r11 : Nat) (r12 : Nat) (r13 : Nat) (abv : (List Nat)) : (List Nat) :=
  match (GenV20.Get_core r0 r1 r2 r3 r4 r5 r6 r7 r8 r9 r10 r11 r12 r13 abv) with
  | (str, err) =>
  cond (!(Go.Err.beq err Go.errNil))
    (Go.panicStr)
    (str)

def get (u0 : Nat) (u1 : Nat) (u2 : Nat) (u3 : Nat) (abv : (List Nat)) : (List Nat) :=
  get_core (Nat.shiftRight (Nat.land u0 (192 : Nat)) (6 : Nat)) (Nat.shiftRight (Nat.land u0 (48 : Nat)) (4 : Nat)) (Nat.shiftRight (Nat.land u0 (12 : Nat)) (2 : Nat)) (Nat.land u0 (3 : Nat)) (Nat.shiftRight (Nat.land u1 (192 : Nat)) (6 : Nat)) (Nat.shiftRight (Nat.land u1 (48 : Nat)) (4 : Nat)) (Nat.shiftRight (Nat.land u1 (14 : Nat)) (1 : Nat)) (Nat.lor (Nat.mod (Nat.shiftLeft (Nat.land u1 (1 : Nat)) (2 : Nat)) 256) (Nat.shiftRight (Nat.land u2 (192 : Nat)) (6 : Nat))) (Nat.shiftRight (Nat.land u2 (48 : Nat)) (4 : Nat)) (Nat.shiftRight (Nat.land u2 (14 : Nat)) (1 : Nat)) (Nat.lor (Nat.mod (Nat.shiftLeft (Nat.land u2 (1 : Nat)) (2 : Nat)) 256) (Nat.shiftRight (Nat.land u3 (192 : Nat)) (6 : Nat))) (Nat.shiftRight (Nat.land u3 (48 : Nat)) (4 : Nat)) (Nat.shiftRight (Nat.land u3 (12 : Nat)) (2 : Nat)) (Nat.land u3 (3 : Nat)) abv

/-- lenVec  (cvss20.go) -/
--   r0 := (Nat.shiftRight (Nat.land u0 (192 : Nat)) (6 : Nat))
--   r1 := (Nat.shiftRight (Nat.land u0 (48 : Nat)) (4 : Nat))
--   r2 := (Nat.shiftRight (Nat.land u0 (12 : Nat)) (2 : Nat))
--   r3 := (Nat.land u0 (3 : Nat))
--   r4 := (Nat.shiftRight (Nat.land u1 (192 : Nat)) (6 : Nat))
--   r5 := (Nat.shiftRight (Nat.land u1 (48 : Nat)) (4 : Nat))
--   r6 := (Nat.shiftRight (Nat.land u1 (14 : Nat)) (1 : Nat))
--   r7 := (Nat.lor (Nat.mod (Nat.shiftLeft (Nat.land u1 (1 : Nat)) (2 : Nat)) 256) (Nat.shiftRight (Nat.land u2 (192 : Nat)) (6 : Nat)))
--   r8 := (Nat.shiftRight (Nat.land u2 (48 : Nat)) (4 : Nat))
--   r9 := (Nat.shiftRight (Nat.land u2 (14 : Nat)) (1 : Nat))
--   r10 := (Nat.lor (Nat.mod (Nat.shiftLeft (Nat.land u2 (1 : Nat)) (2 : Nat)) 256) (Nat.shiftRight (Nat.land u3 (192 : Nat)) (6 : Nat)))
--   r11 := (Nat.shiftRight (Nat.land u3 (48 : Nat)) (4 : Nat))
--   r12 := (Nat.shiftRight (Nat.land u3 (12 : Nat)) (2 : Nat))
--   r13 := (Nat.land u3 (3 : Nat))
def lenVec_core (r0 : Nat) (r1 : Nat) (r2 : Nat) (r3 : Nat) (r4 : Nat) (r5 : Nat) (r6 : Nat) (r7 : Nat) (r8 : Nat) (r9 : Nat) (r10 : Nat) (r11 : Nat) (r12 : Nat) (r13 : Nat) : Nat :=
  F64.flet (26 : Nat) fun l =>
  let e_ := (GenV20.get_core r0 r1 r2 r3 r4 r5 r6 r7 r8 r9 r10 r11 r12 r13 ([69] : List Nat) /- E -/)
  let rl := (GenV20.get_core r0 r1 r2 r3 r4 r5 r6 r7 r8 r9 r10 r11 r12 r13 ([82, 76] : List Nat) /- RL -/)
  let rc := (GenV20.get_core r0 r1 r2 r3 r4 r5 r6 r7 r8 r9 r10 r11 r12 r13 ([82, 67] : List Nat) /- RC -/)
  match (cond (((!(Go.strEq e_ ([78, 68] : List Nat) /- ND -/)) || (!(Go.strEq rl ([78, 68] : List Nat) /- ND -/))) || (!(Go.strEq rc ([78, 68] : List Nat) /- ND -/)))
    (F64.flet (Nat.add l (Nat.add (Nat.add (Nat.add (11 : Nat) (List.length e_)) (List.length rl)) (List.length rc))) fun l =>
    l)
    (l)) with
  | l =>
  let cdp := (GenV20.get_core r0 r1 r2 r3 r4 r5 r6 r7 r8 r9 r10 r11 r12 r13 ([67, 68, 80] : List Nat) /- CDP -/)
  let td := (GenV20.get_core r0 r1 r2 r3 r4 r5 r6 r7 r8 r9 r10 r11 r12 r13 ([84, 68] : List Nat) /- TD -/)
  let cr := (GenV20.get_core r0 r1 r2 r3 r4 r5 r6 r7 r8 r9 r10 r11 r12 r13 ([67, 82] : List Nat) /- CR -/)
  let ir := (GenV20.get_core r0 r1 r2 r3 r4 r5 r6 r7 r8 r9 r10 r11 r12 r13 ([73, 82] : List Nat) /- IR -/)
  let ar := (GenV20.get_core r0 r1 r2 r3 r4 r5 r6 r7 r8 r9 r10 r11 r12 r13 ([65, 82] : List Nat) /- AR -/)
  match (cond (((((!(Go.strEq cdp ([78, 68] : List Nat) /- ND -/)) || (!(Go.strEq td ([78, 68] : List Nat) /- ND -/))) || (!(Go.strEq cr ([78, 68] : List Nat) /- ND -/))) || (!(Go.strEq ir ([78, 68] : List Nat) /- ND -/))) || (!(Go.strEq ar ([78, 68] : List Nat) /- ND -/)))
    (F64.flet (Nat.add l (Nat.add (Nat.add (Nat.add (Nat.add (Nat.add (21 : Nat) (List.length cdp)) (List.length td)) (List.length cr)) (List.length ir)) (List.length ar))) fun l =>
    l)
    (l)) with
  | l =>
  l

def lenVec (u0 : Nat) (u1 : Nat) (u2 : Nat) (u3 : Nat) : Nat :=
  lenVec_core (Nat.shiftRight (Nat.land u0 (192 : Nat)) (6 : Nat)) (Nat.shiftRight (Nat.land u0 (48 : Nat)) (4 : Nat)) (Nat.shiftRight (Nat.land u0 (12 : Nat)) (2 : Nat)) (Nat.land u0 (3 : Nat)) (Nat.shiftRight (Nat.land u1 (192 : Nat)) (6 : Nat)) (Nat.shiftRight (Nat.land u1 (48 : Nat)) (4 : Nat)) (Nat.shiftRight (Nat.land u1 (14 : Nat)) (1 : Nat)) (Nat.lor (Nat.mod (Nat.shiftLeft (Nat.land u1 (1 : Nat)) (2 : Nat)) 256) (Nat.shiftRight (Nat.land u2 (192 : Nat)) (6 : Nat))) (Nat.shiftRight (Nat.land u2 (48 : Nat)) (4 : Nat)) (Nat.shiftRight (Nat.land u2 (14 : Nat)) (1 : Nat)) (Nat.lor (Nat.mod (Nat.shiftLeft (Nat.land u2 (1 : Nat)) (2 : Nat)) 256) (Nat.shiftRight (Nat.land u3 (192 : Nat)) (6 : Nat))) (Nat.shiftRight (Nat.land u3 (48 : Nat)) (4 : Nat)) (Nat.shiftRight (Nat.land u3 (12 : Nat)) (2 : Nat)) (Nat.land u3 (3 : Nat))

/-- app  (cvss20.go) -/
def app (b : (List Nat)) (pre : (List Nat)) (v : (List Nat)) : (List Nat) :=
  let b := (b ++ pre)
  let b := (b ++ v)
  b

/-- Vector  (cvss20.go) -/
--   r0 := (Nat.shiftRight (Nat.land u0 (192 : Nat)) (6 : Nat))
--   r1 := (Nat.shiftRight (Nat.land u0 (48 : Nat)) (4 : Nat))
--   r2 := (Nat.shiftRight (Nat.land u0 (12 : Nat)) (2 : Nat))
--   r3 := (Nat.land u0 (3 : Nat))
--   r4 := (Nat.shiftRight (Nat.land u1 (192 : Nat)) (6 : Nat))
--   r5 := (Nat.shiftRight (Nat.land u1 (48 : Nat)) (4 : Nat))
--   r6 := (Nat.shiftRight (Nat.land u1 (14 : Nat)) (1 : Nat))
--   r7 := (Nat.lor (Nat.mod (Nat.shiftLeft (Nat.land u1 (1 : Nat)) (2 : Nat)) 256) (Nat.shiftRight (Nat.land u2 (192 : Nat)) (6 : Nat)))
--   r8 := (Nat.shiftRight (Nat.land u2 (48 : Nat)) (4 : Nat))
--   r9 := (Nat.shiftRight (Nat.land u2 (14 : Nat)) (1 : Nat))
--   r10 := (Nat.lor (Nat.mod (Nat.shiftLeft (Nat.land u2 (1 : Nat)) (2 : Nat)) 256) (Nat.shiftRight (Nat.land u3 (192 : Nat)) (6 : Nat)))
--   r11 := (Nat.shiftRight (Nat.land u3 (48 : Nat)) (4 : Nat))
--   r12 := (Nat.shiftRight (Nat.land u3 (12 : Nat)) (2 : Nat))
--   r13 := (Nat.land u3 (3 : Nat))
def Vector_core (r0 : Nat) (r1 : Nat) (r2 : Nat) (r3 : Nat) (r4 : Nat) (r5 : Nat) (r6 : Nat) (r7 : Nat) (r8 : Nat) (r9 : Nat) (r10 : Nat) (r11 : Nat) (r12 : Nat) (r13 : Nat) : (List Nat) :=
  F64.flet (GenV20.lenVec_core r0 r1 r2 r3 r4 r5 r6 r7 r8 r9 r10 r11 r12 r13) fun l =>
  let b := ([] : List Nat)
  let b := (GenV20.app b ([65, 86, 58] : List Nat) /- AV: -/ (GenV20.get_core r0 r1 r2 r3 r4 r5 r6 r7 r8 r9 r10 r11 r12 r13 ([65, 86] : List Nat) /- AV -/))
  let b := (GenV20.app b ([47, 65, 67, 58] : List Nat) /- /AC: -/ (GenV20.get_core r0 r1 r2 r3 r4 r5 r6 r7 r8 r9 r10 r11 r12 r13 ([65, 67] : List Nat) /- AC -/))
  let b := (GenV20.app b ([47, 65, 117, 58] : List Nat) /- /Au: -/ (GenV20.get_core r0 r1 r2 r3 r4 r5 r6 r7 r8 r9 r10 r11 r12 r13 ([65, 117] : List Nat) /- Au -/))
  let b := (GenV20.app b ([47, 67, 58] : List Nat) /- /C: -/ (GenV20.get_core r0 r1 r2 r3 r4 r5 r6 r7 r8 r9 r10 r11 r12 r13 ([67] : List Nat) /- C -/))
  let b := (GenV20.app b ([47, 73, 58] : List Nat) /- /I: -/ (GenV20.get_core r0 r1 r2 r3 r4 r5 r6 r7 r8 r9 r10 r11 r12 r13 ([73] : List Nat) /- I -/))
  let b := (GenV20.app b ([47, 65, 58] : List Nat) /- /A: -/ (GenV20.get_core r0 r1 r2 r3 r4 r5 r6 r7 r8 r9 r10 r11 r12 r13 ([65] : List Nat) /- A -/))
  let e_ := (GenV20.get_core r0 r1 r2 r3 r4 r5 r6 r7 r8 r9 r10 r11 r12 r13 ([69] : List Nat) /- E -/)
  let rl := (GenV20.get_core r0 r1 r2 r3 r4 r5 r6 r7 r8 r9 r10 r11 r12 r13 ([82, 76] : List Nat) /- RL -/)
  let rc := (GenV20.get_core r0 r1 r2 r3 r4 r5 r6 r7 r8 r9 r10 r11 r12 r13 ([82, 67] : List Nat) /- RC -/)
  match (cond (((!(Go.strEq e_ ([78, 68] : List Nat) /- ND -/)) || (!(Go.strEq rl ([78, 68] : List Nat) /- ND -/))) || (!(Go.strEq rc ([78, 68] : List Nat) /- ND -/)))
    (let b := (GenV20.app b ([47, 69, 58] : List Nat) /- /E: -/ e_)
    let b := (GenV20.app b ([47, 82, 76, 58] : List Nat) /- /RL: -/ rl)
    let b := (GenV20.app b ([47, 82, 67, 58] : List Nat) /- /RC: -/ rc)
    b)
    (b)) with
  | b =>
  let cdp := (GenV20.get_core r0 r1 r2 r3 r4 r5 r6 r7 r8 r9 r10 r11 r12 r13 ([67, 68, 80] : List Nat) /- CDP -/)
  let td := (GenV20.get_core r0 r1 r2 r3 r4 r5 r6 r7 r8 r9 r10 r11 r12 r13 ([84, 68] : List Nat) /- TD -/)
  let cr := (GenV20.get_core r0 r1 r2 r3 r4 r5 r6 r7 r8 r9 r10 r11 r12 r13 ([67, 82] : List Nat) /- CR -/)
  let ir := (GenV20.get_core r0 r1 r2 r3 r4 r5 r6 r7 r8 r9 r10 r11 r12 r13 ([73, 82] : List Nat) /- IR -/)
  let ar := (GenV20.get_core r0 r1 r2 r3 r4 r5 r6 r7 r8 r9 r10 r11 r12 r13 ([65, 82] : List Nat) /- AR -/)
  match (cond (((((!(Go.strEq cdp ([78, 68] : List Nat) /- ND -/)) || (!(Go.strEq td ([78, 68] : List Nat) /- ND -/))) || (!(Go.strEq cr ([78, 68] : List Nat) /- ND -/))) || (!(Go.strEq ir ([78, 68] : List Nat) /- ND -/))) || (!(Go.strEq ar ([78, 68] : List Nat) /- ND -/)))
    (let b := (GenV20.app b ([47, 67, 68, 80, 58] : List Nat) /- /CDP: -/ cdp)
    let b := (GenV20.app b ([47, 84, 68, 58] : List Nat) /- /TD: -/ td)
    let b := (GenV20.app b ([47, 67, 82, 58] : List Nat) /- /CR: -/ cr)
    let b := (GenV20.app b ([47, 73, 82, 58] : List Nat) /- /IR: -/ ir)
    let b := (GenV20.app b ([47, 65, 82, 58] : List Nat) /- /AR: -/ ar)
    b)
    (b)) with
  | b =>
  b

/-- capacity argument of the `make` in Vector -/
def Vector_cap_core (r0 : Nat) (r1 : Nat) (r2 : Nat) (r3 : Nat) (r4 : Nat) (r5 : Nat) (r6 : Nat) (r7 : Nat) (r8 : Nat) (r9 : Nat) (r10 : Nat) (r11 : Nat) (r12 : Nat) (r13 : Nat) : Nat :=
  F64.flet (GenV20.lenVec_core r0 r1 r2 r3 r4 r5 r6 r7 r8 r9 r10 r11 r12 r13) fun l =>
  l

def Vector (u0 : Nat) (u1 : Nat) (u2 : Nat) (u3 : Nat) : (List Nat) :=
  Vector_core (Nat.shiftRight (Nat.land u0 (192 : Nat)) (6 : Nat)) (Nat.shiftRight (Nat.land u0 (48 : Nat)) (4 : Nat)) (Nat.shiftRight (Nat.land u0 (12 : Nat)) (2 : Nat)) (Nat.land u0 (3 : Nat)) (Nat.shiftRight (Nat.land u1 (192 : Nat)) (6 : Nat)) (Nat.shiftRight (Nat.land u1 (48 : Nat)) (4 : Nat)) (Nat.shiftRight (Nat.land u1 (14 : Nat)) (1 : Nat)) (Nat.lor (Nat.mod (Nat.shiftLeft (Nat.land u1 (1 : Nat)) (2 : Nat)) 256) (Nat.shiftRight (Nat.land u2 (192 : Nat)) (6 : Nat))) (Nat.shiftRight (Nat.land u2 (48 : Nat)) (4 : Nat)) (Nat.shiftRight (Nat.land u2 (14 : Nat)) (1 : Nat)) (Nat.lor (Nat.mod (Nat.shiftLeft (Nat.land u2 (1 : Nat)) (2 : Nat)) 256) (Nat.shiftRight (Nat.land u3 (192 : Nat)) (6 : Nat))) (Nat.shiftRight (Nat.land u3 (48 : Nat)) (4 : Nat)) (Nat.shiftRight (Nat.land u3 (12 : Nat)) (2 : Nat)) (Nat.land u3 (3 : Nat))

def Vector_cap (u0 : Nat) (u1 : Nat) (u2 : Nat) (u3 : Nat) : Nat :=
  Vector_cap_core (Nat.shiftRight (Nat.land u0 (192 : Nat)) (6 : Nat)) (Nat.shiftRight (Nat.land u0 (48 : Nat)) (4 : Nat)) (Nat.shiftRight (Nat.land u0 (12 : Nat)) (2 : Nat)) (Nat.land u0 (3 : Nat)) (Nat.shiftRight (Nat.land u1 (192 : Nat)) (6 : Nat)) (Nat.shiftRight (Nat.land u1 (48 : Nat)) (4 : Nat)) (Nat.shiftRight (Nat.land u1 (14 : Nat)) (1 : Nat)) (Nat.lor (Nat.mod (Nat.shiftLeft (Nat.land u1 (1 : Nat)) (2 : Nat)) 256) (Nat.shiftRight (Nat.land u2 (192 : Nat)) (6 : Nat))) (Nat.shiftRight (Nat.land u2 (48 : Nat)) (4 : Nat)) (Nat.shiftRight (Nat.land u2 (14 : Nat)) (1 : Nat)) (Nat.lor (Nat.mod (Nat.shiftLeft (Nat.land u2 (1 : Nat)) (2 : Nat)) 256) (Nat.shiftRight (Nat.land u3 (192 : Nat)) (6 : Nat))) (Nat.shiftRight (Nat.land u3 (48 : Nat)) (4 : Nat)) (Nat.shiftRight (Nat.land u3 (12 : Nat)) (2 : Nat)) (Nat.land u3 (3 : Nat))

/-- cia  (cvss20.go) -/
def cia (v : Nat) : Nat :=
  cond ((Nat.beq v (0 : Nat)))
    ((0x0000000000000000 : Nat))
   (cond ((Nat.beq v (1 : Nat)))
    ((0x3fd199999999999a : Nat))
   (cond ((Nat.beq v (2 : Nat)))
    ((0x3fe51eb851eb851f : Nat))
   ((0x7FF8DEAD00000000 : Nat))))

/-- Impact  (cvss20.go) -/
--   r0 := (Nat.land u0 (3 : Nat))
--   r1 := (Nat.shiftRight (Nat.land u1 (192 : Nat)) (6 : Nat))
--   r2 := (Nat.shiftRight (Nat.land u1 (48 : Nat)) (4 : Nat))
def Impact_core (r0 : Nat) (r1 : Nat) (r2 : Nat) : Nat :=
  F64.flet (GenV20.cia r0) fun c =>
  F64.flet (GenV20.cia r1) fun i =>
  F64.flet (GenV20.cia r2) fun a =>
  (F64.mul (0x4024d1eb851eb852 : Nat) (F64.sub (0x3ff0000000000000 : Nat) (F64.mul (F64.mul (F64.sub (0x3ff0000000000000 : Nat) c) (F64.sub (0x3ff0000000000000 : Nat) i)) (F64.sub (0x3ff0000000000000 : Nat) a))))

def Impact (u0 : Nat) (u1 : Nat) (u2 : Nat) (u3 : Nat) : Nat :=
  Impact_core (Nat.land u0 (3 : Nat)) (Nat.shiftRight (Nat.land u1 (192 : Nat)) (6 : Nat)) (Nat.shiftRight (Nat.land u1 (48 : Nat)) (4 : Nat))

/-- accessVector  (cvss20.go) -/
def accessVector (v : Nat) : Nat :=
  cond ((Nat.beq v (0 : Nat)))
    ((0x3fd947ae147ae148 : Nat))
   (cond ((Nat.beq v (1 : Nat)))
    ((0x3fe4ac083126e979 : Nat))
   (cond ((Nat.beq v (2 : Nat)))
    ((0x3ff0000000000000 : Nat))
   ((0x7FF8DEAD00000000 : Nat))))

/-- accessComplexity  (cvss20.go) -/
def accessComplexity (v : Nat) : Nat :=
  cond ((Nat.beq v (2 : Nat)))
    ((0x3fd6666666666666 : Nat))
   (cond ((Nat.beq v (1 : Nat)))
    ((0x3fe3851eb851eb85 : Nat))
   (cond ((Nat.beq v (0 : Nat)))
    ((0x3fe6b851eb851eb8 : Nat))
   ((0x7FF8DEAD00000000 : Nat))))

/-- authentication  (cvss20.go) -/
def authentication (v : Nat) : Nat :=
  cond ((Nat.beq v (0 : Nat)))
    ((0x3fdccccccccccccd : Nat))
   (cond ((Nat.beq v (1 : Nat)))
    ((0x3fe1eb851eb851ec : Nat))
   (cond ((Nat.beq v (2 : Nat)))
    ((0x3fe6872b020c49ba : Nat))
   ((0x7FF8DEAD00000000 : Nat))))

/-- Exploitability  (cvss20.go) -/
--   r0 := (Nat.shiftRight (Nat.land u0 (192 : Nat)) (6 : Nat))
--   r1 := (Nat.shiftRight (Nat.land u0 (48 : Nat)) (4 : Nat))
--   r2 := (Nat.shiftRight (Nat.land u0 (12 : Nat)) (2 : Nat))
def Exploitability_core (r0 : Nat) (r1 : Nat) (r2 : Nat) : Nat :=
  F64.flet (GenV20.accessVector r0) fun av =>
  F64.flet (GenV20.accessComplexity r1) fun ac =>
  F64.flet (GenV20.authentication r2) fun au =>
  (F64.mul (F64.mul (F64.mul (0x4034000000000000 : Nat) av) ac) au)

def Exploitability (u0 : Nat) (u1 : Nat) (u2 : Nat) (u3 : Nat) : Nat :=
  Exploitability_core (Nat.shiftRight (Nat.land u0 (192 : Nat)) (6 : Nat)) (Nat.shiftRight (Nat.land u0 (48 : Nat)) (4 : Nat)) (Nat.shiftRight (Nat.land u0 (12 : Nat)) (2 : Nat))

/-- roundTo1Decimal  (cvss20.go) -/
def roundTo1Decimal (x : Nat) : Nat :=
  (F64.div (F64.round (F64.mul x (0x4024000000000000 : Nat))) (0x4024000000000000 : Nat))

/-- BaseScore  (cvss20.go) -/
--   r0 := (Nat.land u0 (3 : Nat))
--   r1 := (Nat.shiftRight (Nat.land u1 (192 : Nat)) (6 : Nat))
--   r2 := (Nat.shiftRight (Nat.land u1 (48 : Nat)) (4 : Nat))
--   r3 := (Nat.shiftRight (Nat.land u0 (192 : Nat)) (6 : Nat))
--   r4 := (Nat.shiftRight (Nat.land u0 (48 : Nat)) (4 : Nat))
--   r5 := (Nat.shiftRight (Nat.land u0 (12 : Nat)) (2 : Nat))
def BaseScore_core (r0 : Nat) (r1 : Nat) (r2 : Nat) (r3 : Nat) (r4 : Nat) (r5 : Nat) : Nat :=
  F64.flet (GenV20.Impact_core r0 r1 r2) fun impact =>
  F64.flet (0x0000000000000000 : Nat) fun fimpact =>
  match (cond (!(F64.eq impact (0x0000000000000000 : Nat)))
    (F64.flet (0x3ff2d0e560418937 : Nat) fun fimpact =>
    fimpact)
    (fimpact)) with
  | fimpact =>
  F64.flet (GenV20.Exploitability_core r3 r4 r5) fun exploitability =>
  (GenV20.roundTo1Decimal (F64.mul (F64.sub (F64.add (F64.mul (0x3fe3333333333333 : Nat) impact) (F64.mul (0x3fd999999999999a : Nat) exploitability)) (0x3ff8000000000000 : Nat)) fimpact))

def BaseScore (u0 : Nat) (u1 : Nat) (u2 : Nat) (u3 : Nat) : Nat :=
  BaseScore_core (Nat.land u0 (3 : Nat)) (Nat.shiftRight (Nat.land u1 (192 : Nat)) (6 : Nat)) (Nat.shiftRight (Nat.land u1 (48 : Nat)) (4 : Nat)) (Nat.shiftRight (Nat.land u0 (192 : Nat)) (6 : Nat)) (Nat.shiftRight (Nat.land u0 (48 : Nat)) (4 : Nat)) (Nat.shiftRight (Nat.land u0 (12 : Nat)) (2 : Nat))

/-- exploitability  (cvss20.go) -/
def exploitability (v : Nat) : Nat :=
  cond ((Nat.beq v (1 : Nat)))
    ((0x3feb333333333333 : Nat))
   (cond ((Nat.beq v (2 : Nat)))
    ((0x3feccccccccccccd : Nat))
   (cond ((Nat.beq v (3 : Nat)))
    ((0x3fee666666666666 : Nat))
   (cond ((Nat.beq v (4 : Nat)) || (Nat.beq v (0 : Nat)))
    ((0x3ff0000000000000 : Nat))
   ((0x7FF8DEAD00000000 : Nat)))))

/-- remediationLevel  (cvss20.go) -/
def remediationLevel (v : Nat) : Nat :=
  cond ((Nat.beq v (1 : Nat)))
    ((0x3febd70a3d70a3d7 : Nat))
   (cond ((Nat.beq v (2 : Nat)))
    ((0x3feccccccccccccd : Nat))
   (cond ((Nat.beq v (3 : Nat)))
    ((0x3fee666666666666 : Nat))
   (cond ((Nat.beq v (4 : Nat)) || (Nat.beq v (0 : Nat)))
    ((0x3ff0000000000000 : Nat))
   ((0x7FF8DEAD00000000 : Nat)))))

/-- reportConfidence  (cvss20.go) -/
def reportConfidence (v : Nat) : Nat :=
  cond ((Nat.beq v (1 : Nat)))
    ((0x3feccccccccccccd : Nat))
   (cond ((Nat.beq v (2 : Nat)))
    ((0x3fee666666666666 : Nat))
   (cond ((Nat.beq v (3 : Nat)) || (Nat.beq v (0 : Nat)))
    ((0x3ff0000000000000 : Nat))
   ((0x7FF8DEAD00000000 : Nat))))

/-- TemporalScore  (cvss20.go) -/
--   r0 := (Nat.shiftRight (Nat.land u1 (14 : Nat)) (1 : Nat))
--   r1 := (Nat.lor (Nat.mod (Nat.shiftLeft (Nat.land u1 (1 : Nat)) (2 : Nat)) 256) (Nat.shiftRight (Nat.land u2 (192 : Nat)) (6 : Nat)))
--   r2 := (Nat.shiftRight (Nat.land u2 (48 : Nat)) (4 : Nat))
--   r3 := (Nat.land u0 (3 : Nat))
--   r4 := (Nat.shiftRight (Nat.land u1 (192 : Nat)) (6 : Nat))
--   r5 := (Nat.shiftRight (Nat.land u1 (48 : Nat)) (4 : Nat))
--   r6 := (Nat.shiftRight (Nat.land u0 (192 : Nat)) (6 : Nat))
--   r7 := (Nat.shiftRight (Nat.land u0 (48 : Nat)) (4 : Nat))
--   r8 := (Nat.shiftRight (Nat.land u0 (12 : Nat)) (2 : Nat))
def TemporalScore_core (r0 : Nat) (r1 : Nat) (r2 : Nat) (r3 : Nat) (r4 : Nat) (r5 : Nat) (r6 : Nat) (r7 : Nat) (r8 : Nat) : Nat :=
  F64.flet (GenV20.exploitability r0) fun e_ =>
  F64.flet (GenV20.remediationLevel r1) fun rl =>
  F64.flet (GenV20.reportConfidence r2) fun rc =>
  (GenV20.roundTo1Decimal (F64.mul (F64.mul (F64.mul (GenV20.BaseScore_core r3 r4 r5 r6 r7 r8) e_) rl) rc))

def TemporalScore (u0 : Nat) (u1 : Nat) (u2 : Nat) (u3 : Nat) : Nat :=
  TemporalScore_core (Nat.shiftRight (Nat.land u1 (14 : Nat)) (1 : Nat)) (Nat.lor (Nat.mod (Nat.shiftLeft (Nat.land u1 (1 : Nat)) (2 : Nat)) 256) (Nat.shiftRight (Nat.land u2 (192 : Nat)) (6 : Nat))) (Nat.shiftRight (Nat.land u2 (48 : Nat)) (4 : Nat)) (Nat.land u0 (3 : Nat)) (Nat.shiftRight (Nat.land u1 (192 : Nat)) (6 : Nat)) (Nat.shiftRight (Nat.land u1 (48 : Nat)) (4 : Nat)) (Nat.shiftRight (Nat.land u0 (192 : Nat)) (6 : Nat)) (Nat.shiftRight (Nat.land u0 (48 : Nat)) (4 : Nat)) (Nat.shiftRight (Nat.land u0 (12 : Nat)) (2 : Nat))

/-- ciar  (cvss20.go) -/
def ciar (v : Nat) : Nat :=
  cond ((Nat.beq v (1 : Nat)))
    ((0x3fe0000000000000 : Nat))
   (cond ((Nat.beq v (2 : Nat)) || (Nat.beq v (0 : Nat)))
    ((0x3ff0000000000000 : Nat))
   (cond ((Nat.beq v (3 : Nat)))
    ((0x3ff828f5c28f5c29 : Nat))
   ((0x7FF8DEAD00000000 : Nat))))

/-- collateralDamagePotential  (cvss20.go) -/
def collateralDamagePotential (v : Nat) : Nat :=
  cond ((Nat.beq v (1 : Nat)) || (Nat.beq v (0 : Nat)))
    ((0x0000000000000000 : Nat))
   (cond ((Nat.beq v (2 : Nat)))
    ((0x3fb999999999999a : Nat))
   (cond ((Nat.beq v (3 : Nat)))
    ((0x3fd3333333333333 : Nat))
   (cond ((Nat.beq v (4 : Nat)))
    ((0x3fd999999999999a : Nat))
   (cond ((Nat.beq v (5 : Nat)))
    ((0x3fe0000000000000 : Nat))
   ((0x7FF8DEAD00000000 : Nat))))))

/-- targetDistribution  (cvss20.go) -/
def targetDistribution (v : Nat) : Nat :=
  cond ((Nat.beq v (1 : Nat)))
    ((0x0000000000000000 : Nat))
   (cond ((Nat.beq v (2 : Nat)))
    ((0x3fd0000000000000 : Nat))
   (cond ((Nat.beq v (3 : Nat)))
    ((0x3fe8000000000000 : Nat))
   (cond ((Nat.beq v (4 : Nat)) || (Nat.beq v (0 : Nat)))
    ((0x3ff0000000000000 : Nat))
   ((0x7FF8DEAD00000000 : Nat)))))

/-- EnvironmentalScore  (cvss20.go) -/
--   r0 := (Nat.land u0 (3 : Nat))
--   r1 := (Nat.shiftRight (Nat.land u1 (192 : Nat)) (6 : Nat))
--   r2 := (Nat.shiftRight (Nat.land u1 (48 : Nat)) (4 : Nat))
--   r3 := (Nat.shiftRight (Nat.land u3 (48 : Nat)) (4 : Nat))
--   r4 := (Nat.shiftRight (Nat.land u3 (12 : Nat)) (2 : Nat))
--   r5 := (Nat.land u3 (3 : Nat))
--   r6 := (Nat.shiftRight (Nat.land u0 (192 : Nat)) (6 : Nat))
--   r7 := (Nat.shiftRight (Nat.land u0 (48 : Nat)) (4 : Nat))
--   r8 := (Nat.shiftRight (Nat.land u0 (12 : Nat)) (2 : Nat))
--   r9 := (Nat.shiftRight (Nat.land u1 (14 : Nat)) (1 : Nat))
--   r10 := (Nat.lor (Nat.mod (Nat.shiftLeft (Nat.land u1 (1 : Nat)) (2 : Nat)) 256) (Nat.shiftRight (Nat.land u2 (192 : Nat)) (6 : Nat)))
--   r11 := (Nat.shiftRight (Nat.land u2 (48 : Nat)) (4 : Nat))
--   r12 := (Nat.shiftRight (Nat.land u2 (14 : Nat)) (1 : Nat))
--   r13 := (Nat.lor (Nat.mod (Nat.shiftLeft (Nat.land u2 (1 : Nat)) (2 : Nat)) 256) (Nat.shiftRight (Nat.land u3 (192 : Nat)) (6 : Nat)))
def EnvironmentalScore_core (r0 : Nat) (r1 : Nat) (r2 : Nat) (r3 : Nat) (r4 : Nat) (r5 : Nat) (r6 : Nat) (r7 : Nat) (r8 : Nat) (r9 : Nat) (r10 : Nat) (r11 : Nat) (r12 : Nat) (r13 : Nat) : Nat :=
  F64.flet (GenV20.cia r0) fun c =>
  F64.flet (GenV20.cia r1) fun i =>
  F64.flet (GenV20.cia r2) fun a =>
  F64.flet (GenV20.ciar r3) fun cr =>
  F64.flet (GenV20.ciar r4) fun ir =>
  F64.flet (GenV20.ciar r5) fun ar =>
  F64.flet (F64.min (0x4024000000000000 : Nat) (F64.mul (0x4024d1eb851eb852 : Nat) (F64.sub (0x3ff0000000000000 : Nat) (F64.mul (F64.mul (F64.sub (0x3ff0000000000000 : Nat) (F64.mul c cr)) (F64.sub (0x3ff0000000000000 : Nat) (F64.mul i ir))) (F64.sub (0x3ff0000000000000 : Nat) (F64.mul a ar)))))) fun adjustedImpact =>
  F64.flet (0x0000000000000000 : Nat) fun fimpactBase =>
  match (cond (!(F64.eq adjustedImpact (0x0000000000000000 : Nat)))
    (F64.flet (0x3ff2d0e560418937 : Nat) fun fimpactBase =>
    fimpactBase)
    (fimpactBase)) with
  | fimpactBase =>
  F64.flet (GenV20.Exploitability_core r6 r7 r8) fun expltBase =>
  F64.flet (GenV20.exploitability r9) fun e_ =>
  F64.flet (GenV20.remediationLevel r10) fun rl =>
  F64.flet (GenV20.reportConfidence r11) fun rc =>
  F64.flet (GenV20.roundTo1Decimal (F64.mul (F64.sub (F64.add (F64.mul (0x3fe3333333333333 : Nat) adjustedImpact) (F64.mul (0x3fd999999999999a : Nat) expltBase)) (0x3ff8000000000000 : Nat)) fimpactBase)) fun recBase =>
  F64.flet (GenV20.roundTo1Decimal (F64.mul (F64.mul (F64.mul recBase e_) rl) rc)) fun adjustedTemporal =>
  F64.flet (GenV20.collateralDamagePotential r12) fun cdp =>
  F64.flet (GenV20.targetDistribution r13) fun td =>
  (GenV20.roundTo1Decimal (F64.mul (F64.add adjustedTemporal (F64.mul (F64.sub (0x4024000000000000 : Nat) adjustedTemporal) cdp)) td))

def EnvironmentalScore (u0 : Nat) (u1 : Nat) (u2 : Nat) (u3 : Nat) : Nat :=
  EnvironmentalScore_core (Nat.land u0 (3 : Nat)) (Nat.shiftRight (Nat.land u1 (192 : Nat)) (6 : Nat)) (Nat.shiftRight (Nat.land u1 (48 : Nat)) (4 : Nat)) (Nat.shiftRight (Nat.land u3 (48 : Nat)) (4 : Nat)) (Nat.shiftRight (Nat.land u3 (12 : Nat)) (2 : Nat)) (Nat.land u3 (3 : Nat)) (Nat.shiftRight (Nat.land u0 (192 : Nat)) (6 : Nat)) (Nat.shiftRight (Nat.land u0 (48 : Nat)) (4 : Nat)) (Nat.shiftRight (Nat.land u0 (12 : Nat)) (2 : Nat)) (Nat.shiftRight (Nat.land u1 (14 : Nat)) (1 : Nat)) (Nat.lor (Nat.mod (Nat.shiftLeft (Nat.land u1 (1 : Nat)) (2 : Nat)) 256) (Nat.shiftRight (Nat.land u2 (192 : Nat)) (6 : Nat))) (Nat.shiftRight (Nat.land u2 (48 : Nat)) (4 : Nat)) (Nat.shiftRight (Nat.land u2 (14 : Nat)) (1 : Nat)) (Nat.lor (Nat.mod (Nat.shiftLeft (Nat.land u2 (1 : Nat)) (2 : Nat)) 256) (Nat.shiftRight (Nat.land u3 (192 : Nat)) (6 : Nat)))

/-- table order (cvss20.go) -/
def tbl_order : (List (List (List Nat))) :=
  [[([65, 86] : List Nat), ([65, 67] : List Nat), ([65, 117] : List Nat), ([67] : List Nat), ([73] : List Nat), ([65] : List Nat)], [([69] : List Nat), ([82, 76] : List Nat), ([82, 67] : List Nat)], [([67, 68, 80] : List Nat), ([84, 68] : List Nat), ([67, 82] : List Nat), ([73, 82] : List Nat), ([65, 82] : List Nat)]]

/-- functions containing a pre-sized buffer `make([]T, 0, cap)` (one entry per occurrence) -/
def pkg_presized : List String :=
  ["CVSS20.Vector"]

/-- every mention of package unsafe (function or `decl`:unsafe.X, one entry per occurrence) -/
def pkg_unsafe_all : List String :=
  ["CVSS20.Vector:unsafe.Pointer"]

/-- sha256 (first 16 hex digits) of each verification hooks file -/
def hook_sha : List String :=
  ["zz_verif_hooks.go:a7e96d94804e9cda"]

/-- import paths of the package's source files (alias=path when renamed) -/
def pkg_imports : List String :=
  ["errors", "fmt", "math", "strings", "sync", "unsafe"]

/-- fields of the object type (name:type), in declaration order -/
def obj_fields : List String :=
  ["u0:uint8", "u1:uint8", "u2:uint8", "u3:uint8"]

/-- methods of the object type with a pointer receiver (the only ones that can change the object) -/
def obj_ptr_methods : List String :=
  ["Set"]

/-- what each pointer-receiver method does with its receiver: writes / takes-address / passes-pointer / aliases / returns-pointer / calls:M, or reads-only -/
def obj_ptr_effects : List String :=
  ["Set:writes"]

/-- declarations of the verification hooks files (verif build only; not translated): they may only add accessors -/
def hook_decls : List String :=
  ["zz_verif_hooks.go:func VerifBytes", "zz_verif_hooks.go:func VerifFromBytes", "zz_verif_hooks.go:func VerifLenVec", "zz_verif_hooks.go:func VerifPoolGet", "zz_verif_hooks.go:func VerifPoolPut", "zz_verif_hooks.go:func VerifRound", "zz_verif_hooks.go:func VerifSplit"]

/-- files of the package directory that belong to neither the ordinary nor the verif build, and non-Go sources -/
def pkg_other_files : List String :=
  []

/-- `init` functions of the package (file:init) -/
def pkg_inits : List String :=
  []

/-- build constraints on non-test source files other than the verification hooks (file:constraint) -/
def pkg_build_tags : List String :=
  []

/-- package-level variables (name:type) -/
def pkg_vars : List String :=
  ["ErrInvalidMetricOrder:error", "ErrInvalidMetricValue:error", "ErrTooShortVector:error", "order:[][]string", "splitPool:sync.Pool"]

/-- function:variable for every assignment to (or address-of) a package-level variable inside a function body -/
def pkg_writes : List String :=
  []

/-- function:variable.method for every method call on a package-level variable; function:go for goroutine starts -/
def pkg_calls : List String :=
  ["ParseVector:splitPool.Get", "ParseVector:splitPool.Put"]

/-- package-level variables (blank ones included) whose initialiser runs code: name:calls and function literals in it -/
def pkg_var_inits : List String :=
  ["ErrInvalidMetricOrder:call errors.New", "ErrInvalidMetricValue:call errors.New", "ErrTooShortVector:call errors.New", "splitPool:call make,funclit"]

/-- function:variable for every mention of a package-level variable (other than the `error` sentinels) in a function body or initialiser -/
def pkg_var_uses : List String :=
  ["ParseVector:order", "ParseVector:splitPool"]

/-- sync.Pool variables and what their `New` makes -/
def pool_new : List String :=
  ["splitPool:New=make([]string, 14)"]

/-- every Get (with the canonical name of the variable that receives it) and Put (with what is handed back), in source order -/
def pool_uses : List String :=
  ["ParseVector:v0 := splitPool.Get()", "ParseVector:defer splitPool.Put(v0)"]

/-- function:unsafe.X for every use of package unsafe -/
def pkg_unsafe : List String :=
  ["CVSS20.Vector:unsafe.Pointer"]

end GenV20
