import Cvss.Base.Go
set_option linter.unusedVariables false
set_option maxRecDepth 100000
/-! GENERATED from package 31 — do not edit -/
namespace GenK31

/-- cia_ok  (zz_ok.go) -/
def cia_ok (v : Nat) : Bool :=
  let okResult := true
  cond ((Nat.beq v (0 : Nat)))
    (okResult)
   (cond ((Nat.beq v (1 : Nat)))
    (okResult)
   (cond ((Nat.beq v (2 : Nat)))
    (okResult)
   (let okResult := false
    okResult)))

/-- cia  (cvss31.go) -/
def cia (v : Nat) : Nat :=
  cond ((Nat.beq v (0 : Nat)))
    ((0x3fe1eb851eb851ec : Nat))
   (cond ((Nat.beq v (1 : Nat)))
    ((0x3fcc28f5c28f5c29 : Nat))
   (cond ((Nat.beq v (2 : Nat)))
    ((0x0000000000000000 : Nat))
   ((0x7FF8DEAD00000000 : Nat))))

/-- Impact_ok  (zz_ok.go) -/
--   r0 := (Nat.lor (Nat.mod (Nat.shiftLeft (Nat.land u0 (1 : Nat)) (1 : Nat)) 256) (Nat.shiftRight (Nat.land u1 (128 : Nat)) (7 : Nat)))
--   r1 := (Nat.shiftRight (Nat.land u1 (96 : Nat)) (5 : Nat))
--   r2 := (Nat.shiftRight (Nat.land u1 (24 : Nat)) (3 : Nat))
--   r3 := (Nat.land u0 (2 : Nat))
def Impact_ok_core (r0 : Nat) (r1 : Nat) (r2 : Nat) (r3 : Nat) : Bool :=
  let okResult := true
  let okResult := (okResult && (GenK31.cia_ok r0))
  F64.flet (GenK31.cia r0) fun c =>
  let okResult := (okResult && (GenK31.cia_ok r1))
  F64.flet (GenK31.cia r1) fun i =>
  let okResult := (okResult && (GenK31.cia_ok r2))
  F64.flet (GenK31.cia r2) fun a =>
  F64.flet (F64.sub (0x3ff0000000000000 : Nat) (F64.mul (F64.mul (F64.sub (0x3ff0000000000000 : Nat) c) (F64.sub (0x3ff0000000000000 : Nat) i)) (F64.sub (0x3ff0000000000000 : Nat) a))) fun iss =>
  cond (Nat.beq r3 (0 : Nat))
    (okResult)
    (okResult)

def Impact_ok (u0 : Nat) (u1 : Nat) (u2 : Nat) (u3 : Nat) (u4 : Nat) (u5 : Nat) : Bool :=
  Impact_ok_core (Nat.lor (Nat.mod (Nat.shiftLeft (Nat.land u0 (1 : Nat)) (1 : Nat)) 256) (Nat.shiftRight (Nat.land u1 (128 : Nat)) (7 : Nat))) (Nat.shiftRight (Nat.land u1 (96 : Nat)) (5 : Nat)) (Nat.shiftRight (Nat.land u1 (24 : Nat)) (3 : Nat)) (Nat.land u0 (2 : Nat))

/-- pow13  (cvss31.go) -/
def pow13 (f : Nat) : Nat :=
  F64.flet (F64.mul f f) fun f2 =>
  F64.flet (F64.mul f2 f2) fun f4 =>
  F64.flet (F64.mul (F64.mul f4 f4) f4) fun f12 =>
  (F64.mul f f12)

/-- pow15  (cvss31.go) -/
def pow15 (f : Nat) : Nat :=
  (F64.mul (F64.mul (GenK31.pow13 f) f) f)

/-- Impact  (cvss31.go) -/
--   r0 := (Nat.lor (Nat.mod (Nat.shiftLeft (Nat.land u0 (1 : Nat)) (1 : Nat)) 256) (Nat.shiftRight (Nat.land u1 (128 : Nat)) (7 : Nat)))
--   r1 := (Nat.shiftRight (Nat.land u1 (96 : Nat)) (5 : Nat))
--   r2 := (Nat.shiftRight (Nat.land u1 (24 : Nat)) (3 : Nat))
--   r3 := (Nat.land u0 (2 : Nat))
def Impact_core (r0 : Nat) (r1 : Nat) (r2 : Nat) (r3 : Nat) : Nat :=
  F64.flet (GenK31.cia r0) fun c =>
  F64.flet (GenK31.cia r1) fun i =>
  F64.flet (GenK31.cia r2) fun a =>
  F64.flet (F64.sub (0x3ff0000000000000 : Nat) (F64.mul (F64.mul (F64.sub (0x3ff0000000000000 : Nat) c) (F64.sub (0x3ff0000000000000 : Nat) i)) (F64.sub (0x3ff0000000000000 : Nat) a))) fun iss =>
  cond (Nat.beq r3 (0 : Nat))
    ((F64.mul (0x4019ae147ae147ae : Nat) iss))
    ((F64.sub (F64.mul (0x401e147ae147ae14 : Nat) (F64.sub iss (0x3f9db22d0e560419 : Nat))) (F64.mul (0x400a000000000000 : Nat) (GenK31.pow15 (F64.sub iss (0x3f947ae147ae147b : Nat))))))

def Impact (u0 : Nat) (u1 : Nat) (u2 : Nat) (u3 : Nat) (u4 : Nat) (u5 : Nat) : Nat :=
  Impact_core (Nat.lor (Nat.mod (Nat.shiftLeft (Nat.land u0 (1 : Nat)) (1 : Nat)) 256) (Nat.shiftRight (Nat.land u1 (128 : Nat)) (7 : Nat))) (Nat.shiftRight (Nat.land u1 (96 : Nat)) (5 : Nat)) (Nat.shiftRight (Nat.land u1 (24 : Nat)) (3 : Nat)) (Nat.land u0 (2 : Nat))

/-- attackVector_ok  (zz_ok.go) -/
def attackVector_ok (v : Nat) : Bool :=
  let okResult := true
  cond ((Nat.beq v (0 : Nat)))
    (okResult)
   (cond ((Nat.beq v (1 : Nat)))
    (okResult)
   (cond ((Nat.beq v (2 : Nat)))
    (okResult)
   (cond ((Nat.beq v (3 : Nat)))
    (okResult)
   (let okResult := false
    okResult))))

/-- attackVector  (cvss31.go) -/
def attackVector (v : Nat) : Nat :=
  cond ((Nat.beq v (0 : Nat)))
    ((0x3feb333333333333 : Nat))
   (cond ((Nat.beq v (1 : Nat)))
    ((0x3fe3d70a3d70a3d7 : Nat))
   (cond ((Nat.beq v (2 : Nat)))
    ((0x3fe199999999999a : Nat))
   (cond ((Nat.beq v (3 : Nat)))
    ((0x3fc999999999999a : Nat))
   ((0x7FF8DEAD00000000 : Nat)))))

/-- attackComplexity_ok  (zz_ok.go) -/
def attackComplexity_ok (v : Nat) : Bool :=
  let okResult := true
  cond ((Nat.beq v (0 : Nat)))
    (okResult)
   (cond ((Nat.beq v (1 : Nat)))
    (okResult)
   (let okResult := false
    okResult))

/-- attackComplexity  (cvss31.go) -/
def attackComplexity (v : Nat) : Nat :=
  cond ((Nat.beq v (0 : Nat)))
    ((0x3fe8a3d70a3d70a4 : Nat))
   (cond ((Nat.beq v (1 : Nat)))
    ((0x3fdc28f5c28f5c29 : Nat))
   ((0x7FF8DEAD00000000 : Nat)))

/-- privilegesRequired_ok  (zz_ok.go) -/
def privilegesRequired_ok (v : Nat) (scope : Nat) : Bool :=
  let okResult := true
  cond ((Nat.beq v (0 : Nat)))
    (okResult)
   (cond ((Nat.beq v (1 : Nat)))
    (cond (Nat.beq scope (1 : Nat))
      (okResult)
      (okResult))
   (cond ((Nat.beq v (2 : Nat)))
    (cond (Nat.beq scope (1 : Nat))
      (okResult)
      (okResult))
   (let okResult := false
    okResult)))

/-- privilegesRequired  (cvss31.go) -/
def privilegesRequired (v : Nat) (scope : Nat) : Nat :=
  cond ((Nat.beq v (0 : Nat)))
    ((0x3feb333333333333 : Nat))
   (cond ((Nat.beq v (1 : Nat)))
    (cond (Nat.beq scope (1 : Nat))
      ((0x3fe5c28f5c28f5c3 : Nat))
      ((0x3fe3d70a3d70a3d7 : Nat)))
   (cond ((Nat.beq v (2 : Nat)))
    (cond (Nat.beq scope (1 : Nat))
      ((0x3fe0000000000000 : Nat))
      ((0x3fd147ae147ae148 : Nat)))
   ((0x7FF8DEAD00000000 : Nat))))

/-- userInteraction_ok  (zz_ok.go) -/
def userInteraction_ok (v : Nat) : Bool :=
  let okResult := true
  cond ((Nat.beq v (0 : Nat)))
    (okResult)
   (cond ((Nat.beq v (1 : Nat)))
    (okResult)
   (let okResult := false
    okResult))

/-- userInteraction  (cvss31.go) -/
def userInteraction (v : Nat) : Nat :=
  cond ((Nat.beq v (0 : Nat)))
    ((0x3feb333333333333 : Nat))
   (cond ((Nat.beq v (1 : Nat)))
    ((0x3fe3d70a3d70a3d7 : Nat))
   ((0x7FF8DEAD00000000 : Nat)))

/-- Exploitability_ok  (zz_ok.go) -/
--   r0 := (Nat.shiftRight (Nat.land u0 (192 : Nat)) (6 : Nat))
--   r1 := (Nat.shiftRight (Nat.land u0 (32 : Nat)) (5 : Nat))
--   r2 := (Nat.shiftRight (Nat.land u0 (24 : Nat)) (3 : Nat))
--   r3 := (Nat.shiftRight (Nat.land u0 (2 : Nat)) (1 : Nat))
--   r4 := (Nat.shiftRight (Nat.land u0 (4 : Nat)) (2 : Nat))
def Exploitability_ok_core (r0 : Nat) (r1 : Nat) (r2 : Nat) (r3 : Nat) (r4 : Nat) : Bool :=
  let okResult := true
  let okResult := (okResult && (GenK31.attackVector_ok r0))
  F64.flet (GenK31.attackVector r0) fun av =>
  let okResult := (okResult && (GenK31.attackComplexity_ok r1))
  F64.flet (GenK31.attackComplexity r1) fun ac =>
  let okResult := (okResult && (GenK31.privilegesRequired_ok r2 r3))
  F64.flet (GenK31.privilegesRequired r2 r3) fun pr_ =>
  let okResult := (okResult && (GenK31.userInteraction_ok r4))
  F64.flet (GenK31.userInteraction r4) fun ui =>
  okResult

def Exploitability_ok (u0 : Nat) (u1 : Nat) (u2 : Nat) (u3 : Nat) (u4 : Nat) (u5 : Nat) : Bool :=
  Exploitability_ok_core (Nat.shiftRight (Nat.land u0 (192 : Nat)) (6 : Nat)) (Nat.shiftRight (Nat.land u0 (32 : Nat)) (5 : Nat)) (Nat.shiftRight (Nat.land u0 (24 : Nat)) (3 : Nat)) (Nat.shiftRight (Nat.land u0 (2 : Nat)) (1 : Nat)) (Nat.shiftRight (Nat.land u0 (4 : Nat)) (2 : Nat))

/-- Exploitability  (cvss31.go) -/
--   r0 := (Nat.shiftRight (Nat.land u0 (192 : Nat)) (6 : Nat))
--   r1 := (Nat.shiftRight (Nat.land u0 (32 : Nat)) (5 : Nat))
--   r2 := (Nat.shiftRight (Nat.land u0 (24 : Nat)) (3 : Nat))
--   r3 := (Nat.shiftRight (Nat.land u0 (2 : Nat)) (1 : Nat))
--   r4 := (Nat.shiftRight (Nat.land u0 (4 : Nat)) (2 : Nat))
def Exploitability_core (r0 : Nat) (r1 : Nat) (r2 : Nat) (r3 : Nat) (r4 : Nat) : Nat :=
  F64.flet (GenK31.attackVector r0) fun av =>
  F64.flet (GenK31.attackComplexity r1) fun ac =>
  F64.flet (GenK31.privilegesRequired r2 r3) fun pr_ =>
  F64.flet (GenK31.userInteraction r4) fun ui =>
  (F64.mul (F64.mul (F64.mul (F64.mul (0x402070a3d70a3d71 : Nat) av) ac) pr_) ui)

def Exploitability (u0 : Nat) (u1 : Nat) (u2 : Nat) (u3 : Nat) (u4 : Nat) (u5 : Nat) : Nat :=
  Exploitability_core (Nat.shiftRight (Nat.land u0 (192 : Nat)) (6 : Nat)) (Nat.shiftRight (Nat.land u0 (32 : Nat)) (5 : Nat)) (Nat.shiftRight (Nat.land u0 (24 : Nat)) (3 : Nat)) (Nat.shiftRight (Nat.land u0 (2 : Nat)) (1 : Nat)) (Nat.shiftRight (Nat.land u0 (4 : Nat)) (2 : Nat))

/-- BaseScore_ok  (zz_ok.go) -/
--   r0 := (Nat.lor (Nat.mod (Nat.shiftLeft (Nat.land u0 (1 : Nat)) (1 : Nat)) 256) (Nat.shiftRight (Nat.land u1 (128 : Nat)) (7 : Nat)))
--   r1 := (Nat.shiftRight (Nat.land u1 (96 : Nat)) (5 : Nat))
--   r2 := (Nat.shiftRight (Nat.land u1 (24 : Nat)) (3 : Nat))
--   r3 := (Nat.land u0 (2 : Nat))
--   r4 := (Nat.shiftRight (Nat.land u0 (192 : Nat)) (6 : Nat))
--   r5 := (Nat.shiftRight (Nat.land u0 (32 : Nat)) (5 : Nat))
--   r6 := (Nat.shiftRight (Nat.land u0 (24 : Nat)) (3 : Nat))
--   r7 := (Nat.shiftRight (Nat.land u0 (2 : Nat)) (1 : Nat))
--   r8 := (Nat.shiftRight (Nat.land u0 (4 : Nat)) (2 : Nat))
def BaseScore_ok_core (r0 : Nat) (r1 : Nat) (r2 : Nat) (r3 : Nat) (r4 : Nat) (r5 : Nat) (r6 : Nat) (r7 : Nat) (r8 : Nat) : Bool :=
  let okResult := true
  let okResult := (okResult && (GenK31.Impact_ok_core r0 r1 r2 r3))
  F64.flet (GenK31.Impact_core r0 r1 r2 r3) fun impact =>
  let okResult := (okResult && (GenK31.Exploitability_ok_core r4 r5 r6 r7 r8))
  F64.flet (GenK31.Exploitability_core r4 r5 r6 r7 r8) fun exploitability =>
  cond (F64.le impact (0x0000000000000000 : Nat))
    (okResult)
    (cond (Nat.beq r3 (0 : Nat))
      (okResult)
      (okResult))

def BaseScore_ok (u0 : Nat) (u1 : Nat) (u2 : Nat) (u3 : Nat) (u4 : Nat) (u5 : Nat) : Bool :=
  BaseScore_ok_core (Nat.lor (Nat.mod (Nat.shiftLeft (Nat.land u0 (1 : Nat)) (1 : Nat)) 256) (Nat.shiftRight (Nat.land u1 (128 : Nat)) (7 : Nat))) (Nat.shiftRight (Nat.land u1 (96 : Nat)) (5 : Nat)) (Nat.shiftRight (Nat.land u1 (24 : Nat)) (3 : Nat)) (Nat.land u0 (2 : Nat)) (Nat.shiftRight (Nat.land u0 (192 : Nat)) (6 : Nat)) (Nat.shiftRight (Nat.land u0 (32 : Nat)) (5 : Nat)) (Nat.shiftRight (Nat.land u0 (24 : Nat)) (3 : Nat)) (Nat.shiftRight (Nat.land u0 (2 : Nat)) (1 : Nat)) (Nat.shiftRight (Nat.land u0 (4 : Nat)) (2 : Nat))

/-- mod  (cvss31.go) -/
def mod_ (base : Nat) (modified : Nat) : Nat :=
  cond (!(Nat.beq modified (0 : Nat)))
    ((Nat.mod (Nat.sub (Nat.add modified 256) (1 : Nat)) 256))
    (base)

/-- ciar_ok  (zz_ok.go) -/
def ciar_ok (v : Nat) : Bool :=
  let okResult := true
  cond ((Nat.beq v (0 : Nat)) || (Nat.beq v (2 : Nat)))
    (okResult)
   (cond ((Nat.beq v (1 : Nat)))
    (okResult)
   (cond ((Nat.beq v (3 : Nat)))
    (okResult)
   (let okResult := false
    okResult)))

/-- ciar  (cvss31.go) -/
def ciar (v : Nat) : Nat :=
  cond ((Nat.beq v (0 : Nat)) || (Nat.beq v (2 : Nat)))
    ((0x3ff0000000000000 : Nat))
   (cond ((Nat.beq v (1 : Nat)))
    ((0x3ff8000000000000 : Nat))
   (cond ((Nat.beq v (3 : Nat)))
    ((0x3fe0000000000000 : Nat))
   ((0x7FF8DEAD00000000 : Nat))))

/-- exploitCodeMaturity_ok  (zz_ok.go) -/
def exploitCodeMaturity_ok (v : Nat) : Bool :=
  let okResult := true
  cond ((Nat.beq v (0 : Nat)) || (Nat.beq v (1 : Nat)))
    (okResult)
   (cond ((Nat.beq v (2 : Nat)))
    (okResult)
   (cond ((Nat.beq v (3 : Nat)))
    (okResult)
   (cond ((Nat.beq v (4 : Nat)))
    (okResult)
   (let okResult := false
    okResult))))

/-- exploitCodeMaturity  (cvss31.go) -/
def exploitCodeMaturity (v : Nat) : Nat :=
  cond ((Nat.beq v (0 : Nat)) || (Nat.beq v (1 : Nat)))
    ((0x3ff0000000000000 : Nat))
   (cond ((Nat.beq v (2 : Nat)))
    ((0x3fef0a3d70a3d70a : Nat))
   (cond ((Nat.beq v (3 : Nat)))
    ((0x3fee147ae147ae14 : Nat))
   (cond ((Nat.beq v (4 : Nat)))
    ((0x3fed1eb851eb851f : Nat))
   ((0x7FF8DEAD00000000 : Nat)))))

/-- remediationLevel_ok  (zz_ok.go) -/
def remediationLevel_ok (v : Nat) : Bool :=
  let okResult := true
  cond ((Nat.beq v (0 : Nat)) || (Nat.beq v (1 : Nat)))
    (okResult)
   (cond ((Nat.beq v (2 : Nat)))
    (okResult)
   (cond ((Nat.beq v (3 : Nat)))
    (okResult)
   (cond ((Nat.beq v (4 : Nat)))
    (okResult)
   (let okResult := false
    okResult))))

/-- remediationLevel  (cvss31.go) -/
def remediationLevel (v : Nat) : Nat :=
  cond ((Nat.beq v (0 : Nat)) || (Nat.beq v (1 : Nat)))
    ((0x3ff0000000000000 : Nat))
   (cond ((Nat.beq v (2 : Nat)))
    ((0x3fef0a3d70a3d70a : Nat))
   (cond ((Nat.beq v (3 : Nat)))
    ((0x3feeb851eb851eb8 : Nat))
   (cond ((Nat.beq v (4 : Nat)))
    ((0x3fee666666666666 : Nat))
   ((0x7FF8DEAD00000000 : Nat)))))

/-- reportConfidence_ok  (zz_ok.go) -/
def reportConfidence_ok (v : Nat) : Bool :=
  let okResult := true
  cond ((Nat.beq v (0 : Nat)) || (Nat.beq v (1 : Nat)))
    (okResult)
   (cond ((Nat.beq v (2 : Nat)))
    (okResult)
   (cond ((Nat.beq v (3 : Nat)))
    (okResult)
   (let okResult := false
    okResult)))

/-- reportConfidence  (cvss31.go) -/
def reportConfidence (v : Nat) : Nat :=
  cond ((Nat.beq v (0 : Nat)) || (Nat.beq v (1 : Nat)))
    ((0x3ff0000000000000 : Nat))
   (cond ((Nat.beq v (2 : Nat)))
    ((0x3feeb851eb851eb8 : Nat))
   (cond ((Nat.beq v (3 : Nat)))
    ((0x3fed70a3d70a3d71 : Nat))
   ((0x7FF8DEAD00000000 : Nat))))

/-- EnvironmentalScore_ok  (zz_ok.go) -/
--   r0 := (Nat.shiftRight (Nat.land u0 (192 : Nat)) (6 : Nat))
--   r1 := (Nat.shiftRight (Nat.land u3 (28 : Nat)) (2 : Nat))
--   r2 := (Nat.shiftRight (Nat.land u0 (32 : Nat)) (5 : Nat))
--   r3 := (Nat.land u3 (3 : Nat))
--   r4 := (Nat.shiftRight (Nat.land u0 (24 : Nat)) (3 : Nat))
--   r5 := (Nat.shiftRight (Nat.land u4 (192 : Nat)) (6 : Nat))
--   r6 := (Nat.shiftRight (Nat.land u0 (4 : Nat)) (2 : Nat))
--   r7 := (Nat.shiftRight (Nat.land u4 (48 : Nat)) (4 : Nat))
--   r8 := (Nat.shiftRight (Nat.land u0 (2 : Nat)) (1 : Nat))
--   r9 := (Nat.shiftRight (Nat.land u4 (12 : Nat)) (2 : Nat))
--   r10 := (Nat.lor (Nat.mod (Nat.shiftLeft (Nat.land u0 (1 : Nat)) (1 : Nat)) 256) (Nat.shiftRight (Nat.land u1 (128 : Nat)) (7 : Nat)))
--   r11 := (Nat.land u4 (3 : Nat))
--   r12 := (Nat.shiftRight (Nat.land u1 (96 : Nat)) (5 : Nat))
--   r13 := (Nat.shiftRight (Nat.land u5 (192 : Nat)) (6 : Nat))
--   r14 := (Nat.shiftRight (Nat.land u1 (24 : Nat)) (3 : Nat))
--   r15 := (Nat.shiftRight (Nat.land u5 (48 : Nat)) (4 : Nat))
--   r16 := (Nat.shiftRight (Nat.land u2 (6 : Nat)) (1 : Nat))
--   r17 := (Nat.lor (Nat.mod (Nat.shiftLeft (Nat.land u2 (1 : Nat)) (1 : Nat)) 256) (Nat.shiftRight (Nat.land u3 (128 : Nat)) (7 : Nat)))
--   r18 := (Nat.shiftRight (Nat.land u3 (96 : Nat)) (5 : Nat))
--   r19 := (Nat.land u1 (7 : Nat))
--   r20 := (Nat.shiftRight (Nat.land u2 (224 : Nat)) (5 : Nat))
--   r21 := (Nat.shiftRight (Nat.land u2 (24 : Nat)) (3 : Nat))
def EnvironmentalScore_ok_core (r0 : Nat) (r1 : Nat) (r2 : Nat) (r3 : Nat) (r4 : Nat) (r5 : Nat) (r6 : Nat) (r7 : Nat) (r8 : Nat) (r9 : Nat) (r10 : Nat) (r11 : Nat) (r12 : Nat) (r13 : Nat) (r14 : Nat) (r15 : Nat) (r16 : Nat) (r17 : Nat) (r18 : Nat) (r19 : Nat) (r20 : Nat) (r21 : Nat) : Bool :=
  let okResult := true
  F64.flet (GenK31.mod_ r0 r1) fun mav =>
  F64.flet (GenK31.mod_ r2 r3) fun mac =>
  F64.flet (GenK31.mod_ r4 r5) fun mpr =>
  F64.flet (GenK31.mod_ r6 r7) fun mui =>
  F64.flet (GenK31.mod_ r8 r9) fun ms =>
  F64.flet (GenK31.mod_ r10 r11) fun mc =>
  F64.flet (GenK31.mod_ r12 r13) fun mi =>
  F64.flet (GenK31.mod_ r14 r15) fun ma =>
  let okResult := (okResult && (GenK31.ciar_ok r16))
  F64.flet (GenK31.ciar r16) fun cr =>
  let okResult := (okResult && (GenK31.ciar_ok r17))
  F64.flet (GenK31.ciar r17) fun ir =>
  let okResult := (okResult && (GenK31.ciar_ok r18))
  F64.flet (GenK31.ciar r18) fun ar =>
  let okResult := (okResult && (GenK31.exploitCodeMaturity_ok r19))
  F64.flet (GenK31.exploitCodeMaturity r19) fun e_ =>
  let okResult := (okResult && (GenK31.remediationLevel_ok r20))
  F64.flet (GenK31.remediationLevel r20) fun rl =>
  let okResult := (okResult && (GenK31.reportConfidence_ok r21))
  F64.flet (GenK31.reportConfidence r21) fun rc =>
  let okResult := (okResult && (((GenK31.cia_ok mc) && (GenK31.cia_ok mi)) && (GenK31.cia_ok ma)))
  F64.flet (F64.min (F64.sub (0x3ff0000000000000 : Nat) (F64.mul (F64.mul (F64.sub (0x3ff0000000000000 : Nat) (F64.mul cr (GenK31.cia mc))) (F64.sub (0x3ff0000000000000 : Nat) (F64.mul ir (GenK31.cia mi)))) (F64.sub (0x3ff0000000000000 : Nat) (F64.mul ar (GenK31.cia ma))))) (0x3fed47ae147ae148 : Nat)) fun miss =>
  F64.flet (0 : Nat) fun modifiedImpact =>
  match (cond (Nat.beq ms (0 : Nat))
    (F64.flet (F64.mul (0x4019ae147ae147ae : Nat) miss) fun modifiedImpact =>
    modifiedImpact)
    (F64.flet (F64.sub (F64.mul (0x401e147ae147ae14 : Nat) (F64.sub miss (0x3f9db22d0e560419 : Nat))) (F64.mul (0x400a000000000000 : Nat) (GenK31.pow13 (F64.sub (F64.mul miss (0x3fef23a29c779a6b : Nat)) (0x3f947ae147ae147b : Nat))))) fun modifiedImpact =>
    modifiedImpact)) with
  | modifiedImpact =>
  let okResult := (okResult && ((((GenK31.attackVector_ok mav) && (GenK31.attackComplexity_ok mac)) && (GenK31.privilegesRequired_ok mpr ms)) && (GenK31.userInteraction_ok mui)))
  F64.flet (F64.mul (F64.mul (F64.mul (F64.mul (0x402070a3d70a3d71 : Nat) (GenK31.attackVector mav)) (GenK31.attackComplexity mac)) (GenK31.privilegesRequired mpr ms)) (GenK31.userInteraction mui)) fun modifiedExploitability =>
  cond (F64.le modifiedImpact (0x0000000000000000 : Nat))
    (okResult)
    (cond (Nat.beq ms (0 : Nat))
      (okResult)
      (F64.flet (F64.min (F64.mul (0x3ff147ae147ae148 : Nat) (F64.add modifiedImpact modifiedExploitability)) (0x4024000000000000 : Nat)) fun r =>
      okResult))

def EnvironmentalScore_ok (u0 : Nat) (u1 : Nat) (u2 : Nat) (u3 : Nat) (u4 : Nat) (u5 : Nat) : Bool :=
  EnvironmentalScore_ok_core (Nat.shiftRight (Nat.land u0 (192 : Nat)) (6 : Nat)) (Nat.shiftRight (Nat.land u3 (28 : Nat)) (2 : Nat)) (Nat.shiftRight (Nat.land u0 (32 : Nat)) (5 : Nat)) (Nat.land u3 (3 : Nat)) (Nat.shiftRight (Nat.land u0 (24 : Nat)) (3 : Nat)) (Nat.shiftRight (Nat.land u4 (192 : Nat)) (6 : Nat)) (Nat.shiftRight (Nat.land u0 (4 : Nat)) (2 : Nat)) (Nat.shiftRight (Nat.land u4 (48 : Nat)) (4 : Nat)) (Nat.shiftRight (Nat.land u0 (2 : Nat)) (1 : Nat)) (Nat.shiftRight (Nat.land u4 (12 : Nat)) (2 : Nat)) (Nat.lor (Nat.mod (Nat.shiftLeft (Nat.land u0 (1 : Nat)) (1 : Nat)) 256) (Nat.shiftRight (Nat.land u1 (128 : Nat)) (7 : Nat))) (Nat.land u4 (3 : Nat)) (Nat.shiftRight (Nat.land u1 (96 : Nat)) (5 : Nat)) (Nat.shiftRight (Nat.land u5 (192 : Nat)) (6 : Nat)) (Nat.shiftRight (Nat.land u1 (24 : Nat)) (3 : Nat)) (Nat.shiftRight (Nat.land u5 (48 : Nat)) (4 : Nat)) (Nat.shiftRight (Nat.land u2 (6 : Nat)) (1 : Nat)) (Nat.lor (Nat.mod (Nat.shiftLeft (Nat.land u2 (1 : Nat)) (1 : Nat)) 256) (Nat.shiftRight (Nat.land u3 (128 : Nat)) (7 : Nat))) (Nat.shiftRight (Nat.land u3 (96 : Nat)) (5 : Nat)) (Nat.land u1 (7 : Nat)) (Nat.shiftRight (Nat.land u2 (224 : Nat)) (5 : Nat)) (Nat.shiftRight (Nat.land u2 (24 : Nat)) (3 : Nat))

/-- TemporalScore_ok  (zz_ok.go) -/
--   r0 := (Nat.land u1 (7 : Nat))
--   r1 := (Nat.shiftRight (Nat.land u2 (224 : Nat)) (5 : Nat))
--   r2 := (Nat.shiftRight (Nat.land u2 (24 : Nat)) (3 : Nat))
--   r3 := (Nat.lor (Nat.mod (Nat.shiftLeft (Nat.land u0 (1 : Nat)) (1 : Nat)) 256) (Nat.shiftRight (Nat.land u1 (128 : Nat)) (7 : Nat)))
--   r4 := (Nat.shiftRight (Nat.land u1 (96 : Nat)) (5 : Nat))
--   r5 := (Nat.shiftRight (Nat.land u1 (24 : Nat)) (3 : Nat))
--   r6 := (Nat.land u0 (2 : Nat))
--   r7 := (Nat.shiftRight (Nat.land u0 (192 : Nat)) (6 : Nat))
--   r8 := (Nat.shiftRight (Nat.land u0 (32 : Nat)) (5 : Nat))
--   r9 := (Nat.shiftRight (Nat.land u0 (24 : Nat)) (3 : Nat))
--   r10 := (Nat.shiftRight (Nat.land u0 (2 : Nat)) (1 : Nat))
--   r11 := (Nat.shiftRight (Nat.land u0 (4 : Nat)) (2 : Nat))
def TemporalScore_ok_core (r0 : Nat) (r1 : Nat) (r2 : Nat) (r3 : Nat) (r4 : Nat) (r5 : Nat) (r6 : Nat) (r7 : Nat) (r8 : Nat) (r9 : Nat) (r10 : Nat) (r11 : Nat) : Bool :=
  let okResult := true
  let okResult := (okResult && (GenK31.exploitCodeMaturity_ok r0))
  F64.flet (GenK31.exploitCodeMaturity r0) fun e_ =>
  let okResult := (okResult && (GenK31.remediationLevel_ok r1))
  F64.flet (GenK31.remediationLevel r1) fun rl =>
  let okResult := (okResult && (GenK31.reportConfidence_ok r2))
  F64.flet (GenK31.reportConfidence r2) fun rc =>
  (okResult && (GenK31.BaseScore_ok_core r3 r4 r5 r6 r7 r8 r9 r10 r11))

def TemporalScore_ok (u0 : Nat) (u1 : Nat) (u2 : Nat) (u3 : Nat) (u4 : Nat) (u5 : Nat) : Bool :=
  TemporalScore_ok_core (Nat.land u1 (7 : Nat)) (Nat.shiftRight (Nat.land u2 (224 : Nat)) (5 : Nat)) (Nat.shiftRight (Nat.land u2 (24 : Nat)) (3 : Nat)) (Nat.lor (Nat.mod (Nat.shiftLeft (Nat.land u0 (1 : Nat)) (1 : Nat)) 256) (Nat.shiftRight (Nat.land u1 (128 : Nat)) (7 : Nat))) (Nat.shiftRight (Nat.land u1 (96 : Nat)) (5 : Nat)) (Nat.shiftRight (Nat.land u1 (24 : Nat)) (3 : Nat)) (Nat.land u0 (2 : Nat)) (Nat.shiftRight (Nat.land u0 (192 : Nat)) (6 : Nat)) (Nat.shiftRight (Nat.land u0 (32 : Nat)) (5 : Nat)) (Nat.shiftRight (Nat.land u0 (24 : Nat)) (3 : Nat)) (Nat.shiftRight (Nat.land u0 (2 : Nat)) (1 : Nat)) (Nat.shiftRight (Nat.land u0 (4 : Nat)) (2 : Nat))

/-- table okPanicFree (zz_ok.go) -/
def tbl_okPanicFree : (List (List Nat)) :=
  [([67, 86, 83, 83, 51, 49, 46, 71, 101, 116] : List Nat), ([67, 86, 83, 83, 51, 49, 46, 83, 101, 116] : List Nat), ([67, 86, 83, 83, 51, 49, 46, 86, 101, 99, 116, 111, 114] : List Nat), ([67, 86, 83, 83, 51, 49, 46, 103, 101, 116] : List Nat), ([69, 114, 114, 68, 101, 102, 105, 110, 101, 100, 78, 46, 69, 114, 114, 111, 114] : List Nat), ([69, 114, 114, 73, 110, 118, 97, 108, 105, 100, 77, 101, 116, 114, 105, 99, 46, 69, 114, 114, 111, 114] : List Nat), ([69, 114, 114, 77, 105, 115, 115, 105, 110, 103, 46, 69, 114, 114, 111, 114] : List Nat), ([82, 97, 116, 105, 110, 103] : List Nat), ([108, 101, 110, 86, 101, 99] : List Nat), ([109, 97, 110, 100, 97, 116, 111, 114, 121] : List Nat), ([109, 111, 100] : List Nat), ([110, 111, 116, 77, 97, 110, 100, 97, 116, 111, 114, 121] : List Nat), ([112, 111, 119, 49, 51] : List Nat), ([112, 111, 119, 49, 53] : List Nat), ([114, 111, 117, 110, 100, 117, 112] : List Nat), ([118, 97, 108, 105, 100, 97, 116, 101] : List Nat)]

/-- functions containing a pre-sized buffer `make([]T, 0, cap)` (one entry per occurrence) -/
def pkg_presized : List String :=
  ["CVSS31.Vector"]

/-- every mention of package unsafe (function or `decl`:unsafe.X, one entry per occurrence) -/
def pkg_unsafe_all : List String :=
  ["CVSS31.Vector:unsafe.Pointer"]

/-- sha256 (first 16 hex digits) of each verification hooks file -/
def hook_sha : List String :=
  []

/-- import paths of the package's source files (alias=path when renamed) -/
def pkg_imports : List String :=
  ["errors", "fmt", "math", "strings", "unsafe"]

/-- fields of the object type (name:type), in declaration order -/
def obj_fields : List String :=
  ["u0:uint8", "u1:uint8", "u2:uint8", "u3:uint8", "u4:uint8", "u5:uint8"]

/-- methods of the object type with a pointer receiver (the only ones that can change the object) -/
def obj_ptr_methods : List String :=
  ["Set"]

/-- what each pointer-receiver method does with its receiver: writes / takes-address / passes-pointer / aliases / returns-pointer / calls:M, or reads-only -/
def obj_ptr_effects : List String :=
  ["Set:writes"]

/-- declarations of the verification hooks files (verif build only; not translated): they may only add accessors -/
def hook_decls : List String :=
  []

/-- files of the package directory that belong to neither the ordinary nor the verif build, and non-Go sources -/
def pkg_other_files : List String :=
  []

/-- `init` functions of the package (file:init) -/
def pkg_inits : List String :=
  []

/-- build constraints on non-test source files other than the verification hooks (file:constraint) -/
def pkg_build_tags : List String :=
  []

/-- package-level variables (name:type) -/
def pkg_vars : List String :=
  ["ErrInvalidCVSSHeader:error", "ErrInvalidMetricValue:error", "ErrOutOfBoundsScore:error", "ErrTooShortVector:error", "okPanicFree:[]string"]

/-- function:variable for every assignment to (or address-of) a package-level variable inside a function body -/
def pkg_writes : List String :=
  []

/-- function:variable.method for every method call on a package-level variable; function:go for goroutine starts -/
def pkg_calls : List String :=
  []

/-- package-level variables (blank ones included) whose initialiser runs code: name:calls and function literals in it -/
def pkg_var_inits : List String :=
  ["ErrInvalidCVSSHeader:call errors.New", "ErrInvalidMetricValue:call errors.New", "ErrOutOfBoundsScore:call errors.New", "ErrTooShortVector:call errors.New"]

/-- function:variable for every mention of a package-level variable (other than the `error` sentinels) in a function body or initialiser -/
def pkg_var_uses : List String :=
  []

/-- sync.Pool variables and what their `New` makes -/
def pool_new : List String :=
  []

/-- every Get (with the canonical name of the variable that receives it) and Put (with what is handed back), in source order -/
def pool_uses : List String :=
  []

/-- function:unsafe.X for every use of package unsafe -/
def pkg_unsafe : List String :=
  ["CVSS31.Vector:unsafe.Pointer"]

end GenK31
