import Cvss.Base.Go
import Cvss.Gen.V40
set_option linter.unusedVariables false
/-! GENERATED from package 40 (parser mode) — do not edit -/
namespace GenP40

/-- ParseVector: body of the loop at cvss40.go -/
def ParseVector_for2 (abv : (List Nat)) : (Nat × Nat) → Go.Ctl (Nat × Nat) (Go.Res (Nat × Nat × Nat × Nat × Nat × Nat × Nat × Nat × Nat))
  | (orderi, slci) =>
    match (cond (Nat.beq slci (0 : Nat))
        (Go.index GenV40.tbl_order (0 : Nat) (none) fun t7 =>
        Go.index t7 orderi (none) fun t8 =>
        some (!(Go.strEq abv t8)))
        (some false) : Option Bool) with
    | none => Go.Ctl.ret Go.Res.panic
    | some c9 =>
    cond (c9 || (Nat.beq slci (List.length GenV40.tbl_order)))
      (Go.Ctl.ret (Go.Res.err (Go.Err.mk 3 []) /- ErrInvalidMetricOrder -/))
      (Go.index GenV40.tbl_order slci (Go.Ctl.ret Go.Res.panic) fun t10 =>
      Go.index t10 orderi (Go.Ctl.ret Go.Res.panic) fun t11 =>
      let out := (Go.strEq abv t11)
      let orderi := (Nat.add orderi (1 : Nat))
      Go.index GenV40.tbl_order slci (Go.Ctl.ret Go.Res.panic) fun t12 =>
      match (cond (Nat.beq orderi (List.length t12))
        (let slci := (Nat.add slci (1 : Nat))
        let orderi := (0 : Nat)
        (slci, orderi))
        ((slci, orderi))) with
      | (slci, orderi) =>
      cond out
        (Go.Ctl.brk (orderi, slci))
        (Go.Ctl.next (orderi, slci)))

/-- ParseVector: body of the loop at cvss40.go -/
def ParseVector_for1 (vector : (List Nat)) : (Nat × Nat × Nat × Nat × Nat × Nat × Nat × Nat × Nat × Nat × Nat × Nat × Nat) → Go.Ctl (Nat × Nat × Nat × Nat × Nat × Nat × Nat × Nat × Nat × Nat × Nat × Nat × Nat) (Go.Res (Nat × Nat × Nat × Nat × Nat × Nat × Nat × Nat × Nat))
  | (i, cut, orderi, slci, u0, u1, u2, u3, u4, u5, u6, u7, u8) =>
    match (cond (!(Nat.beq i (List.length vector)))
        (Go.index vector i (none) fun t3 =>
        some (!(Nat.beq t3 (47 : Nat))))
        (some false) : Option Bool) with
    | none => Go.Ctl.ret Go.Res.panic
    | some c4 =>
    cond c4
      (Go.Ctl.next (i, cut, orderi, slci, u0, u1, u2, u3, u4, u5, u6, u7, u8))
      (let m := i
      match (cond (Nat.blt (List.length vector) i)
        (let m := (List.length vector)
        m)
        (m)) with
      | m =>
      Go.slice vector cut m (Go.Ctl.ret Go.Res.panic) fun t5 =>
      let pt := t5
      let cut := i
      cond (!(Go.hasPrefix pt ([47] : List Nat) /- / -/))
        (Go.Ctl.ret (Go.Res.err (Go.Err.mk 4 []) /- ErrInvalidMetricValue -/))
        (Go.sliceFrom pt (1 : Nat) (Go.Ctl.ret Go.Res.panic) fun t6 =>
        let pt := t6
        match (Go.cut pt ([58] : List Nat) /- : -/) with
        | (abv, v, _) =>
        match Go.forN (64 : Nat) /- fuel of an unconditional for: translator option -/ (orderi, slci)
            (fun _ => true)
            (fun st => st)
            (GenP40.ParseVector_for2 abv) with
        | Go.Loop.ret r => Go.Ctl.ret (r)
        | Go.Loop.fuel => Go.Ctl.ret Go.Res.panic
        | Go.Loop.done (orderi, slci) =>
        match (GenV40.Set u0 u1 u2 u3 u4 u5 u6 u7 u8 abv v) with
        | (u0, u1, u2, u3, u4, u5, u6, u7, u8, err) =>
        cond (!(Go.Err.beq err Go.errNil))
          (Go.Ctl.ret (Go.Res.err err))
          (Go.Ctl.next (i, cut, orderi, slci, u0, u1, u2, u3, u4, u5, u6, u7, u8))))

/-- ParseVector  (cvss40.go)
    result: `Go.Res.ok fields` = `return obj, nil`; `Go.Res.err e` = `return nil, e`; `Go.Res.panic` -/
def ParseVector (vector : (List Nat)) : (Go.Res (Nat × Nat × Nat × Nat × Nat × Nat × Nat × Nat × Nat)) :=
  cond (!(Go.hasPrefix vector ([67, 86, 83, 83, 58, 52, 46, 48] : List Nat) /- CVSS:4.0 -/))
    (Go.Res.err (Go.Err.mk 1 []) /- ErrInvalidCVSSHeader -/)
    (match (cond (Nat.blt (8 : Nat) (List.length vector))
        (Go.index vector (8 : Nat) (none) fun t0 =>
        some (!(Nat.beq t0 (47 : Nat))))
        (some false) : Option Bool) with
    | none => Go.Res.panic
    | some c1 =>
    cond c1
      (Go.Res.err (Go.Err.mk 1 []) /- ErrInvalidCVSSHeader -/)
      (Go.sliceFrom vector (8 : Nat) (Go.Res.panic) fun t2 =>
      let vector := t2
      let u0 := (0 : Nat)
      let u1 := (0 : Nat)
      let u2 := (0 : Nat)
      let u3 := (0 : Nat)
      let u4 := (0 : Nat)
      let u5 := (0 : Nat)
      let u6 := (0 : Nat)
      let u7 := (0 : Nat)
      let u8 := (0 : Nat)
      let cut := (0 : Nat)
      let slci := (0 : Nat)
      let orderi := (0 : Nat)
      let i := (1 : Nat)
      match Go.forN (Nat.add (List.length vector) (2 : Nat)) (i, cut, orderi, slci, u0, u1, u2, u3, u4, u5, u6, u7, u8)
          (fun (i, cut, orderi, slci, u0, u1, u2, u3, u4, u5, u6, u7, u8) => (Nat.ble i (List.length vector)))
          (fun (i, cut, orderi, slci, u0, u1, u2, u3, u4, u5, u6, u7, u8) => let i := (Nat.add i (1 : Nat)); (i, cut, orderi, slci, u0, u1, u2, u3, u4, u5, u6, u7, u8))
          (GenP40.ParseVector_for1 vector) with
      | Go.Loop.ret r => r
      | Go.Loop.fuel => Go.Res.panic
      | Go.Loop.done (i, cut, orderi, slci, u0, u1, u2, u3, u4, u5, u6, u7, u8) =>
      cond (Nat.beq slci (0 : Nat))
        (Go.Res.err (Go.Err.mk 2 []) /- ErrTooShortVector -/)
        (Go.Res.ok (u0, u1, u2, u3, u4, u5, u6, u7, u8))))

end GenP40
