import Cvss.Base.Go
import Cvss.Gen.V20
set_option linter.unusedVariables false
/-! GENERATED from package 20 (parser mode) — do not edit -/
namespace GenP20

/-- split: body of the loop at cvss20.go -/
def split_for1 (vector : (List Nat)) : ((List (List Nat)) × Nat × Nat × Nat) → Go.Ctl ((List (List Nat)) × Nat × Nat × Nat) (Option ((List (List Nat)) × Nat))
  | (dst, start, curr, i) =>
    Go.index vector i (Go.Ctl.ret none) fun t0 =>
    cond (Nat.beq t0 (47 : Nat))
      (Go.slice vector start i (Go.Ctl.ret none) fun t1 =>
      Go.setIndex dst curr t1 (Go.Ctl.ret none) fun dst =>
      let start := (Nat.add i (1 : Nat))
      let curr := (Nat.add curr (1 : Nat))
      cond (Nat.beq curr (13 : Nat))
        (Go.Ctl.brk (dst, start, curr, i))
        (Go.Ctl.next (dst, start, curr, i)))
      (Go.Ctl.next (dst, start, curr, i))

/-- split  (cvss20.go)
    result: `none` = panic; `some (dst, results…)` -/
def split (dst : (List (List Nat))) (vector : (List Nat)) : (Option ((List (List Nat)) × Nat)) :=
  let start := (0 : Nat)
  let curr := (0 : Nat)
  let l := (List.length vector)
  let i := (0 : Nat)
  match Go.forN (Nat.add l (2 : Nat)) (dst, start, curr, i)
      (fun (dst, start, curr, i) => (Nat.blt i l))
      (fun (dst, start, curr, i) => let i := (Nat.add i (1 : Nat)); (dst, start, curr, i))
      (GenP20.split_for1 vector) with
  | Go.Loop.ret r => r
  | Go.Loop.fuel => none
  | Go.Loop.done (dst, start, curr, i) =>
  Go.sliceFrom vector start (none) fun t2 =>
  Go.setIndex dst curr t2 (none) fun dst =>
  some (dst, curr)

/-- ParseVector: body of the loop at cvss20.go -/
def ParseVector_range1 (pt : (List Nat)) : (Nat × Nat × Nat × Nat × Nat × Nat) → Go.Ctl (Nat × Nat × Nat × Nat × Nat × Nat) (Go.Res (Nat × Nat × Nat × Nat))
  | (slci, u0, u1, u2, u3, i) =>
    match (Go.cut pt ([58] : List Nat) /- : -/) with
    | (abv, v, _) =>
    let tgt := ([] : List Nat) /-  -/
    cond ((Nat.beq slci (0 : Nat)) || (Nat.beq slci (2 : Nat)))
      (Go.index GenV20.tbl_order slci (Go.Ctl.ret Go.Res.panic) fun t1 =>
      Go.index t1 i (Go.Ctl.ret Go.Res.panic) fun t2 =>
      let tgt := t2
      cond (!(Go.strEq abv tgt))
        (Go.Ctl.ret (Go.Res.err (Go.Err.mk 3 []) /- ErrInvalidMetricOrder -/))
        (match (GenV20.Set u0 u1 u2 u3 abv v) with
        | (u0, u1, u2, u3, err) =>
        cond (!(Go.Err.beq err Go.errNil))
          (Go.Ctl.ret (Go.Res.err err))
          (let i := (Nat.add i (1 : Nat))
          Go.index GenV20.tbl_order slci (Go.Ctl.ret Go.Res.panic) fun t3 =>
          match (cond (Nat.beq i (List.length t3))
            (let slci := (Nat.add slci (1 : Nat))
            let i := (0 : Nat)
            (slci, i))
            ((slci, i))) with
          | (slci, i) =>
          Go.Ctl.next (slci, u0, u1, u2, u3, i))))
     (cond ((Nat.beq slci (1 : Nat)))
      (Go.index GenV20.tbl_order (1 : Nat) (Go.Ctl.ret Go.Res.panic) fun t4 =>
      Go.index t4 i (Go.Ctl.ret Go.Res.panic) fun t5 =>
      let tgt := t5
      cond ((Nat.beq i (0 : Nat)) && (!(Go.strEq tgt abv)))
        (let slci := (Nat.add slci (1 : Nat))
        Go.index GenV20.tbl_order (2 : Nat) (Go.Ctl.ret Go.Res.panic) fun t6 =>
        Go.index t6 (0 : Nat) (Go.Ctl.ret Go.Res.panic) fun t7 =>
        let tgt := t7
        cond (!(Go.strEq abv tgt))
          (Go.Ctl.ret (Go.Res.err (Go.Err.mk 3 []) /- ErrInvalidMetricOrder -/))
          (match (GenV20.Set u0 u1 u2 u3 abv v) with
          | (u0, u1, u2, u3, err) =>
          cond (!(Go.Err.beq err Go.errNil))
            (Go.Ctl.ret (Go.Res.err err))
            (let i := (Nat.add i (1 : Nat))
            Go.index GenV20.tbl_order slci (Go.Ctl.ret Go.Res.panic) fun t8 =>
            match (cond (Nat.beq i (List.length t8))
              (let slci := (Nat.add slci (1 : Nat))
              let i := (0 : Nat)
              (slci, i))
              ((slci, i))) with
            | (slci, i) =>
            Go.Ctl.next (slci, u0, u1, u2, u3, i))))
        (cond (!(Go.strEq abv tgt))
          (Go.Ctl.ret (Go.Res.err (Go.Err.mk 3 []) /- ErrInvalidMetricOrder -/))
          (match (GenV20.Set u0 u1 u2 u3 abv v) with
          | (u0, u1, u2, u3, err) =>
          cond (!(Go.Err.beq err Go.errNil))
            (Go.Ctl.ret (Go.Res.err err))
            (let i := (Nat.add i (1 : Nat))
            Go.index GenV20.tbl_order slci (Go.Ctl.ret Go.Res.panic) fun t9 =>
            match (cond (Nat.beq i (List.length t9))
              (let slci := (Nat.add slci (1 : Nat))
              let i := (0 : Nat)
              (slci, i))
              ((slci, i))) with
            | (slci, i) =>
            Go.Ctl.next (slci, u0, u1, u2, u3, i)))))
     (Go.Ctl.ret (Go.Res.err (Go.Err.mk 4 []) /- ErrInvalidMetricValue -/)))

/-- ParseVector  (cvss20.go)
    result: `Go.Res.ok fields` = `return obj, nil`; `Go.Res.err e` = `return nil, e`; `Go.Res.panic`
    `buf` is what the sync.Pool hands out (stale content of earlier calls) -/
def ParseVector (buf : (List (List Nat))) (vector : (List Nat)) : (Go.Res (Nat × Nat × Nat × Nat)) :=
  let partsPtr := buf /- splitPool.Get(): the pooled buffer is the extra parameter -/
  /- defer splitPool.Put(partsPtr): dropped (the buffer goes back to the pool) -/
  let pts := partsPtr
  match (GenP20.split pts vector) with
  | none => Go.Res.panic
  | some (pts, ei) =>
  Go.sliceTo pts (Nat.add ei (1 : Nat)) (Go.Res.panic) fun t0 =>
  let pts := t0
  let u0 := (0 : Nat)
  let u1 := (0 : Nat)
  let u2 := (0 : Nat)
  let u3 := (0 : Nat)
  let slci := (0 : Nat)
  let i := (0 : Nat)
  match Go.forRange pts (slci, u0, u1, u2, u3, i) (GenP20.ParseVector_range1 ) with
  | Go.Ctl.ret r => r
  | Go.Ctl.brk (slci, u0, u1, u2, u3, i) => Go.Res.panic
  | Go.Ctl.next (slci, u0, u1, u2, u3, i) =>
  cond (!(Nat.beq i (0 : Nat)))
    (Go.Res.err (Go.Err.mk 2 []) /- ErrTooShortVector -/)
    (Go.Res.ok (u0, u1, u2, u3))

end GenP20
