import Cvss.Base.Go
set_option linter.unusedVariables false
set_option maxRecDepth 100000
/-! GENERATED from package 40 — do not edit -/
namespace GenK40

/-- mod  (cvss40.go) -/
def mod_ (base : Nat) (modified : Nat) : Nat :=
  cond (!(Nat.beq modified (0 : Nat)))
    ((Nat.mod (Nat.sub (Nat.add modified 256) (1 : Nat)) 256))
    (base)

/-- macroVector  (cvss40.go) -/
--   r0 := (Nat.shiftRight (Nat.land u0 (192 : Nat)) (6 : Nat))
--   r1 := (Nat.shiftRight (Nat.land u3 (14 : Nat)) (1 : Nat))
--   r2 := (Nat.shiftRight (Nat.land u0 (32 : Nat)) (5 : Nat))
--   r3 := (Nat.lor (Nat.mod (Nat.shiftLeft (Nat.land u3 (1 : Nat)) (1 : Nat)) 256) (Nat.shiftRight (Nat.land u4 (128 : Nat)) (7 : Nat)))
--   r4 := (Nat.shiftRight (Nat.land u0 (16 : Nat)) (4 : Nat))
--   r5 := (Nat.shiftRight (Nat.land u4 (96 : Nat)) (5 : Nat))
--   r6 := (Nat.shiftRight (Nat.land u0 (12 : Nat)) (2 : Nat))
--   r7 := (Nat.shiftRight (Nat.land u4 (24 : Nat)) (3 : Nat))
--   r8 := (Nat.land u0 (3 : Nat))
--   r9 := (Nat.shiftRight (Nat.land u4 (6 : Nat)) (1 : Nat))
--   r10 := (Nat.shiftRight (Nat.land u1 (192 : Nat)) (6 : Nat))
--   r11 := (Nat.lor (Nat.mod (Nat.shiftLeft (Nat.land u4 (1 : Nat)) (1 : Nat)) 256) (Nat.shiftRight (Nat.land u5 (128 : Nat)) (7 : Nat)))
--   r12 := (Nat.shiftRight (Nat.land u1 (48 : Nat)) (4 : Nat))
--   r13 := (Nat.shiftRight (Nat.land u5 (6 : Nat)) (1 : Nat))
--   r14 := (Nat.shiftRight (Nat.land u1 (12 : Nat)) (2 : Nat))
--   r15 := (Nat.shiftRight (Nat.land u5 (96 : Nat)) (5 : Nat))
--   r16 := (Nat.lor (Nat.mod (Nat.shiftLeft (Nat.land u5 (1 : Nat)) (2 : Nat)) 256) (Nat.shiftRight (Nat.land u6 (192 : Nat)) (6 : Nat)))
--   r17 := (Nat.land u1 (3 : Nat))
--   r18 := (Nat.shiftRight (Nat.land u2 (192 : Nat)) (6 : Nat))
--   r19 := (Nat.shiftRight (Nat.land u5 (24 : Nat)) (3 : Nat))
--   r20 := (Nat.shiftRight (Nat.land u6 (56 : Nat)) (3 : Nat))
--   r21 := (Nat.shiftRight (Nat.land u2 (48 : Nat)) (4 : Nat))
--   r22 := (Nat.shiftRight (Nat.land u2 (12 : Nat)) (2 : Nat))
--   r23 := (Nat.land u2 (3 : Nat))
--   r24 := (Nat.shiftRight (Nat.land u3 (192 : Nat)) (6 : Nat))
--   r25 := (Nat.shiftRight (Nat.land u3 (48 : Nat)) (4 : Nat))
def macroVector_core (r0 : Nat) (r1 : Nat) (r2 : Nat) (r3 : Nat) (r4 : Nat) (r5 : Nat) (r6 : Nat) (r7 : Nat) (r8 : Nat) (r9 : Nat) (r10 : Nat) (r11 : Nat) (r12 : Nat) (r13 : Nat) (r14 : Nat) (r15 : Nat) (r16 : Nat) (r17 : Nat) (r18 : Nat) (r19 : Nat) (r20 : Nat) (r21 : Nat) (r22 : Nat) (r23 : Nat) (r24 : Nat) (r25 : Nat) : (Nat × Nat × Nat × Nat × Nat × Nat) :=
  F64.flet (GenK40.mod_ r0 r1) fun av =>
  F64.flet (GenK40.mod_ r2 r3) fun ac =>
  F64.flet (GenK40.mod_ r4 r5) fun at_ =>
  F64.flet (GenK40.mod_ r6 r7) fun pr_ =>
  F64.flet (GenK40.mod_ r8 r9) fun ui =>
  F64.flet (GenK40.mod_ r10 r11) fun vc =>
  F64.flet (GenK40.mod_ r12 r13) fun sc_ =>
  F64.flet (GenK40.mod_ r14 r15) fun vi =>
  F64.flet r16 fun msi =>
  F64.flet (GenK40.mod_ r17 msi) fun si =>
  F64.flet (GenK40.mod_ r18 r19) fun va =>
  F64.flet r20 fun msa =>
  F64.flet (GenK40.mod_ r21 msa) fun sa =>
  F64.flet r22 fun e_ =>
  F64.flet r23 fun cr =>
  F64.flet r24 fun ir =>
  F64.flet r25 fun ar =>
  F64.flet (0 : Nat) fun eq1 =>
  match (cond (((Nat.beq av (0 : Nat)) && (Nat.beq pr_ (2 : Nat))) && (Nat.beq ui (0 : Nat)))
    (F64.flet (0 : Nat) fun eq1 =>
    eq1)
    (match (cond (((((Nat.beq av (0 : Nat)) || (Nat.beq pr_ (2 : Nat))) || (Nat.beq ui (0 : Nat))) && (!(((Nat.beq av (0 : Nat)) && (Nat.beq pr_ (2 : Nat))) && (Nat.beq ui (0 : Nat))))) && (!(Nat.beq av (3 : Nat))))
      (F64.flet (1 : Nat) fun eq1 =>
      eq1)
      (match (cond ((Nat.beq av (3 : Nat)) || (!(((Nat.beq av (0 : Nat)) || (Nat.beq pr_ (2 : Nat))) || (Nat.beq ui (0 : Nat)))))
        (F64.flet (2 : Nat) fun eq1 =>
        eq1)
        (eq1)) with
      | eq1 =>
      eq1)) with
    | eq1 =>
    eq1)) with
  | eq1 =>
  F64.flet (0 : Nat) fun eq2 =>
  match (cond (!((Nat.beq ac (1 : Nat)) && (Nat.beq at_ (0 : Nat))))
    (F64.flet (1 : Nat) fun eq2 =>
    eq2)
    (eq2)) with
  | eq2 =>
  F64.flet (0 : Nat) fun eq3 =>
  match (cond ((Nat.beq vc (0 : Nat)) && (Nat.beq vi (0 : Nat)))
    (F64.flet (0 : Nat) fun eq3 =>
    eq3)
    (match (cond ((!((Nat.beq vc (0 : Nat)) && (Nat.beq vi (0 : Nat)))) && (((Nat.beq vc (0 : Nat)) || (Nat.beq vi (0 : Nat))) || (Nat.beq va (0 : Nat))))
      (F64.flet (1 : Nat) fun eq3 =>
      eq3)
      (match (cond (!(((Nat.beq vc (0 : Nat)) || (Nat.beq vi (0 : Nat))) || (Nat.beq va (0 : Nat))))
        (F64.flet (2 : Nat) fun eq3 =>
        eq3)
        (eq3)) with
      | eq3 =>
      eq3)) with
    | eq3 =>
    eq3)) with
  | eq3 =>
  F64.flet (0 : Nat) fun eq4 =>
  match (cond ((Nat.beq msi (4 : Nat)) || (Nat.beq msa (4 : Nat)))
    (F64.flet (0 : Nat) fun eq4 =>
    eq4)
    (match (cond ((!((Nat.beq msi (4 : Nat)) || (Nat.beq msa (4 : Nat)))) && (((Nat.beq sc_ (0 : Nat)) || (Nat.beq si (0 : Nat))) || (Nat.beq sa (0 : Nat))))
      (F64.flet (1 : Nat) fun eq4 =>
      eq4)
      (match (cond ((!((Nat.beq msi (4 : Nat)) || (Nat.beq msa (4 : Nat)))) && (!(((Nat.beq sc_ (0 : Nat)) || (Nat.beq si (0 : Nat))) || (Nat.beq sa (0 : Nat)))))
        (F64.flet (2 : Nat) fun eq4 =>
        eq4)
        (eq4)) with
      | eq4 =>
      eq4)) with
    | eq4 =>
    eq4)) with
  | eq4 =>
  F64.flet (0 : Nat) fun eq5 =>
  match (cond ((Nat.beq e_ (1 : Nat)) || (Nat.beq e_ (0 : Nat)))
    (F64.flet (0 : Nat) fun eq5 =>
    eq5)
    (match (cond (Nat.beq e_ (2 : Nat))
      (F64.flet (1 : Nat) fun eq5 =>
      eq5)
      (match (cond (Nat.beq e_ (3 : Nat))
        (F64.flet (2 : Nat) fun eq5 =>
        eq5)
        (eq5)) with
      | eq5 =>
      eq5)) with
    | eq5 =>
    eq5)) with
  | eq5 =>
  F64.flet (0 : Nat) fun eq6 =>
  let crh := ((Nat.beq cr (1 : Nat)) || (Nat.beq cr (0 : Nat)))
  let irh := ((Nat.beq ir (1 : Nat)) || (Nat.beq ir (0 : Nat)))
  let arh := ((Nat.beq ar (1 : Nat)) || (Nat.beq ar (0 : Nat)))
  match (cond (((crh && (Nat.beq vc (0 : Nat))) || (irh && (Nat.beq vi (0 : Nat)))) || (arh && (Nat.beq va (0 : Nat))))
    (F64.flet (0 : Nat) fun eq6 =>
    eq6)
    (match (cond (((!(crh && (Nat.beq vc (0 : Nat)))) && (!(irh && (Nat.beq vi (0 : Nat))))) && (!(arh && (Nat.beq va (0 : Nat)))))
      (F64.flet (1 : Nat) fun eq6 =>
      eq6)
      (eq6)) with
    | eq6 =>
    eq6)) with
  | eq6 =>
  (eq1, eq2, eq3, eq4, eq5, eq6)

def macroVector (u0 : Nat) (u1 : Nat) (u2 : Nat) (u3 : Nat) (u4 : Nat) (u5 : Nat) (u6 : Nat) (u7 : Nat) (u8 : Nat) : (Nat × Nat × Nat × Nat × Nat × Nat) :=
  macroVector_core (Nat.shiftRight (Nat.land u0 (192 : Nat)) (6 : Nat)) (Nat.shiftRight (Nat.land u3 (14 : Nat)) (1 : Nat)) (Nat.shiftRight (Nat.land u0 (32 : Nat)) (5 : Nat)) (Nat.lor (Nat.mod (Nat.shiftLeft (Nat.land u3 (1 : Nat)) (1 : Nat)) 256) (Nat.shiftRight (Nat.land u4 (128 : Nat)) (7 : Nat))) (Nat.shiftRight (Nat.land u0 (16 : Nat)) (4 : Nat)) (Nat.shiftRight (Nat.land u4 (96 : Nat)) (5 : Nat)) (Nat.shiftRight (Nat.land u0 (12 : Nat)) (2 : Nat)) (Nat.shiftRight (Nat.land u4 (24 : Nat)) (3 : Nat)) (Nat.land u0 (3 : Nat)) (Nat.shiftRight (Nat.land u4 (6 : Nat)) (1 : Nat)) (Nat.shiftRight (Nat.land u1 (192 : Nat)) (6 : Nat)) (Nat.lor (Nat.mod (Nat.shiftLeft (Nat.land u4 (1 : Nat)) (1 : Nat)) 256) (Nat.shiftRight (Nat.land u5 (128 : Nat)) (7 : Nat))) (Nat.shiftRight (Nat.land u1 (48 : Nat)) (4 : Nat)) (Nat.shiftRight (Nat.land u5 (6 : Nat)) (1 : Nat)) (Nat.shiftRight (Nat.land u1 (12 : Nat)) (2 : Nat)) (Nat.shiftRight (Nat.land u5 (96 : Nat)) (5 : Nat)) (Nat.lor (Nat.mod (Nat.shiftLeft (Nat.land u5 (1 : Nat)) (2 : Nat)) 256) (Nat.shiftRight (Nat.land u6 (192 : Nat)) (6 : Nat))) (Nat.land u1 (3 : Nat)) (Nat.shiftRight (Nat.land u2 (192 : Nat)) (6 : Nat)) (Nat.shiftRight (Nat.land u5 (24 : Nat)) (3 : Nat)) (Nat.shiftRight (Nat.land u6 (56 : Nat)) (3 : Nat)) (Nat.shiftRight (Nat.land u2 (48 : Nat)) (4 : Nat)) (Nat.shiftRight (Nat.land u2 (12 : Nat)) (2 : Nat)) (Nat.land u2 (3 : Nat)) (Nat.shiftRight (Nat.land u3 (192 : Nat)) (6 : Nat)) (Nat.shiftRight (Nat.land u3 (48 : Nat)) (4 : Nat))

/-- lookupMV_ok  (zz_ok.go) -/
def lookupMV_ok (eq1 : Nat) (eq2 : Nat) (eq3 : Nat) (eq4 : Nat) (eq5 : Nat) (eq6 : Nat) : Bool :=
  let okResult := true
  cond ((Nat.beq eq1 (0 : Nat)))
    (cond ((Nat.beq eq2 (1 : Nat)))
      (cond ((Nat.beq eq3 (0 : Nat)))
        (cond ((Nat.beq eq4 (2 : Nat)))
          (cond ((Nat.beq eq5 (0 : Nat)))
            (cond ((Nat.beq eq6 (0 : Nat)))
              (okResult)
             (cond ((Nat.beq eq6 (1 : Nat)))
              (okResult)
             (let okResult := false
              okResult)))
           (cond ((Nat.beq eq5 (1 : Nat)))
            (cond ((Nat.beq eq6 (1 : Nat)))
              (okResult)
             (cond ((Nat.beq eq6 (0 : Nat)))
              (okResult)
             (let okResult := false
              okResult)))
           (cond ((Nat.beq eq5 (2 : Nat)))
            (cond ((Nat.beq eq6 (0 : Nat)))
              (okResult)
             (cond ((Nat.beq eq6 (1 : Nat)))
              (okResult)
             (let okResult := false
              okResult)))
           (let okResult := false
            okResult))))
         (cond ((Nat.beq eq4 (0 : Nat)))
          (cond ((Nat.beq eq5 (1 : Nat)))
            (cond ((Nat.beq eq6 (0 : Nat)))
              (okResult)
             (cond ((Nat.beq eq6 (1 : Nat)))
              (okResult)
             (let okResult := false
              okResult)))
           (cond ((Nat.beq eq5 (2 : Nat)))
            (cond ((Nat.beq eq6 (0 : Nat)))
              (okResult)
             (cond ((Nat.beq eq6 (1 : Nat)))
              (okResult)
             (let okResult := false
              okResult)))
           (cond ((Nat.beq eq5 (0 : Nat)))
            (cond ((Nat.beq eq6 (1 : Nat)))
              (okResult)
             (cond ((Nat.beq eq6 (0 : Nat)))
              (okResult)
             (let okResult := false
              okResult)))
           (let okResult := false
            okResult))))
         (cond ((Nat.beq eq4 (1 : Nat)))
          (cond ((Nat.beq eq5 (1 : Nat)))
            (cond ((Nat.beq eq6 (0 : Nat)))
              (okResult)
             (cond ((Nat.beq eq6 (1 : Nat)))
              (okResult)
             (let okResult := false
              okResult)))
           (cond ((Nat.beq eq5 (0 : Nat)))
            (cond ((Nat.beq eq6 (1 : Nat)))
              (okResult)
             (cond ((Nat.beq eq6 (0 : Nat)))
              (okResult)
             (let okResult := false
              okResult)))
           (cond ((Nat.beq eq5 (2 : Nat)))
            (cond ((Nat.beq eq6 (1 : Nat)))
              (okResult)
             (cond ((Nat.beq eq6 (0 : Nat)))
              (okResult)
             (let okResult := false
              okResult)))
           (let okResult := false
            okResult))))
         (let okResult := false
          okResult))))
       (cond ((Nat.beq eq3 (1 : Nat)))
        (cond ((Nat.beq eq4 (0 : Nat)))
          (cond ((Nat.beq eq5 (0 : Nat)))
            (cond ((Nat.beq eq6 (1 : Nat)))
              (okResult)
             (cond ((Nat.beq eq6 (0 : Nat)))
              (okResult)
             (let okResult := false
              okResult)))
           (cond ((Nat.beq eq5 (1 : Nat)))
            (cond ((Nat.beq eq6 (0 : Nat)))
              (okResult)
             (cond ((Nat.beq eq6 (1 : Nat)))
              (okResult)
             (let okResult := false
              okResult)))
           (cond ((Nat.beq eq5 (2 : Nat)))
            (cond ((Nat.beq eq6 (0 : Nat)))
              (okResult)
             (cond ((Nat.beq eq6 (1 : Nat)))
              (okResult)
             (let okResult := false
              okResult)))
           (let okResult := false
            okResult))))
         (cond ((Nat.beq eq4 (2 : Nat)))
          (cond ((Nat.beq eq5 (0 : Nat)))
            (cond ((Nat.beq eq6 (1 : Nat)))
              (okResult)
             (cond ((Nat.beq eq6 (0 : Nat)))
              (okResult)
             (let okResult := false
              okResult)))
           (cond ((Nat.beq eq5 (1 : Nat)))
            (cond ((Nat.beq eq6 (1 : Nat)))
              (okResult)
             (cond ((Nat.beq eq6 (0 : Nat)))
              (okResult)
             (let okResult := false
              okResult)))
           (cond ((Nat.beq eq5 (2 : Nat)))
            (cond ((Nat.beq eq6 (1 : Nat)))
              (okResult)
             (cond ((Nat.beq eq6 (0 : Nat)))
              (okResult)
             (let okResult := false
              okResult)))
           (let okResult := false
            okResult))))
         (cond ((Nat.beq eq4 (1 : Nat)))
          (cond ((Nat.beq eq5 (0 : Nat)))
            (cond ((Nat.beq eq6 (0 : Nat)))
              (okResult)
             (cond ((Nat.beq eq6 (1 : Nat)))
              (okResult)
             (let okResult := false
              okResult)))
           (cond ((Nat.beq eq5 (1 : Nat)))
            (cond ((Nat.beq eq6 (0 : Nat)))
              (okResult)
             (cond ((Nat.beq eq6 (1 : Nat)))
              (okResult)
             (let okResult := false
              okResult)))
           (cond ((Nat.beq eq5 (2 : Nat)))
            (cond ((Nat.beq eq6 (1 : Nat)))
              (okResult)
             (cond ((Nat.beq eq6 (0 : Nat)))
              (okResult)
             (let okResult := false
              okResult)))
           (let okResult := false
            okResult))))
         (let okResult := false
          okResult))))
       (cond ((Nat.beq eq3 (2 : Nat)))
        (cond ((Nat.beq eq4 (1 : Nat)))
          (cond ((Nat.beq eq5 (1 : Nat)))
            (cond ((Nat.beq eq6 (1 : Nat)))
              (okResult)
             (let okResult := false
              okResult))
           (cond ((Nat.beq eq5 (0 : Nat)))
            (cond ((Nat.beq eq6 (1 : Nat)))
              (okResult)
             (let okResult := false
              okResult))
           (cond ((Nat.beq eq5 (2 : Nat)))
            (cond ((Nat.beq eq6 (1 : Nat)))
              (okResult)
             (let okResult := false
              okResult))
           (let okResult := false
            okResult))))
         (cond ((Nat.beq eq4 (2 : Nat)))
          (cond ((Nat.beq eq5 (2 : Nat)))
            (cond ((Nat.beq eq6 (1 : Nat)))
              (okResult)
             (let okResult := false
              okResult))
           (cond ((Nat.beq eq5 (1 : Nat)))
            (cond ((Nat.beq eq6 (1 : Nat)))
              (okResult)
             (let okResult := false
              okResult))
           (cond ((Nat.beq eq5 (0 : Nat)))
            (cond ((Nat.beq eq6 (1 : Nat)))
              (okResult)
             (let okResult := false
              okResult))
           (let okResult := false
            okResult))))
         (cond ((Nat.beq eq4 (0 : Nat)))
          (cond ((Nat.beq eq5 (1 : Nat)))
            (cond ((Nat.beq eq6 (1 : Nat)))
              (okResult)
             (let okResult := false
              okResult))
           (cond ((Nat.beq eq5 (2 : Nat)))
            (cond ((Nat.beq eq6 (1 : Nat)))
              (okResult)
             (let okResult := false
              okResult))
           (cond ((Nat.beq eq5 (0 : Nat)))
            (cond ((Nat.beq eq6 (1 : Nat)))
              (okResult)
             (let okResult := false
              okResult))
           (let okResult := false
            okResult))))
         (let okResult := false
          okResult))))
       (let okResult := false
        okResult))))
     (cond ((Nat.beq eq2 (0 : Nat)))
      (cond ((Nat.beq eq3 (0 : Nat)))
        (cond ((Nat.beq eq4 (0 : Nat)))
          (cond ((Nat.beq eq5 (2 : Nat)))
            (cond ((Nat.beq eq6 (0 : Nat)))
              (okResult)
             (cond ((Nat.beq eq6 (1 : Nat)))
              (okResult)
             (let okResult := false
              okResult)))
           (cond ((Nat.beq eq5 (0 : Nat)))
            (cond ((Nat.beq eq6 (1 : Nat)))
              (okResult)
             (cond ((Nat.beq eq6 (0 : Nat)))
              (okResult)
             (let okResult := false
              okResult)))
           (cond ((Nat.beq eq5 (1 : Nat)))
            (cond ((Nat.beq eq6 (0 : Nat)))
              (okResult)
             (cond ((Nat.beq eq6 (1 : Nat)))
              (okResult)
             (let okResult := false
              okResult)))
           (let okResult := false
            okResult))))
         (cond ((Nat.beq eq4 (2 : Nat)))
          (cond ((Nat.beq eq5 (2 : Nat)))
            (cond ((Nat.beq eq6 (1 : Nat)))
              (okResult)
             (cond ((Nat.beq eq6 (0 : Nat)))
              (okResult)
             (let okResult := false
              okResult)))
           (cond ((Nat.beq eq5 (1 : Nat)))
            (cond ((Nat.beq eq6 (0 : Nat)))
              (okResult)
             (cond ((Nat.beq eq6 (1 : Nat)))
              (okResult)
             (let okResult := false
              okResult)))
           (cond ((Nat.beq eq5 (0 : Nat)))
            (cond ((Nat.beq eq6 (1 : Nat)))
              (okResult)
             (cond ((Nat.beq eq6 (0 : Nat)))
              (okResult)
             (let okResult := false
              okResult)))
           (let okResult := false
            okResult))))
         (cond ((Nat.beq eq4 (1 : Nat)))
          (cond ((Nat.beq eq5 (0 : Nat)))
            (cond ((Nat.beq eq6 (0 : Nat)))
              (okResult)
             (cond ((Nat.beq eq6 (1 : Nat)))
              (okResult)
             (let okResult := false
              okResult)))
           (cond ((Nat.beq eq5 (2 : Nat)))
            (cond ((Nat.beq eq6 (0 : Nat)))
              (okResult)
             (cond ((Nat.beq eq6 (1 : Nat)))
              (okResult)
             (let okResult := false
              okResult)))
           (cond ((Nat.beq eq5 (1 : Nat)))
            (cond ((Nat.beq eq6 (1 : Nat)))
              (okResult)
             (cond ((Nat.beq eq6 (0 : Nat)))
              (okResult)
             (let okResult := false
              okResult)))
           (let okResult := false
            okResult))))
         (let okResult := false
          okResult))))
       (cond ((Nat.beq eq3 (1 : Nat)))
        (cond ((Nat.beq eq4 (1 : Nat)))
          (cond ((Nat.beq eq5 (1 : Nat)))
            (cond ((Nat.beq eq6 (0 : Nat)))
              (okResult)
             (cond ((Nat.beq eq6 (1 : Nat)))
              (okResult)
             (let okResult := false
              okResult)))
           (cond ((Nat.beq eq5 (2 : Nat)))
            (cond ((Nat.beq eq6 (1 : Nat)))
              (okResult)
             (cond ((Nat.beq eq6 (0 : Nat)))
              (okResult)
             (let okResult := false
              okResult)))
           (cond ((Nat.beq eq5 (0 : Nat)))
            (cond ((Nat.beq eq6 (1 : Nat)))
              (okResult)
             (cond ((Nat.beq eq6 (0 : Nat)))
              (okResult)
             (let okResult := false
              okResult)))
           (let okResult := false
            okResult))))
         (cond ((Nat.beq eq4 (2 : Nat)))
          (cond ((Nat.beq eq5 (2 : Nat)))
            (cond ((Nat.beq eq6 (0 : Nat)))
              (okResult)
             (cond ((Nat.beq eq6 (1 : Nat)))
              (okResult)
             (let okResult := false
              okResult)))
           (cond ((Nat.beq eq5 (0 : Nat)))
            (cond ((Nat.beq eq6 (1 : Nat)))
              (okResult)
             (cond ((Nat.beq eq6 (0 : Nat)))
              (okResult)
             (let okResult := false
              okResult)))
           (cond ((Nat.beq eq5 (1 : Nat)))
            (cond ((Nat.beq eq6 (1 : Nat)))
              (okResult)
             (cond ((Nat.beq eq6 (0 : Nat)))
              (okResult)
             (let okResult := false
              okResult)))
           (let okResult := false
            okResult))))
         (cond ((Nat.beq eq4 (0 : Nat)))
          (cond ((Nat.beq eq5 (0 : Nat)))
            (cond ((Nat.beq eq6 (0 : Nat)))
              (okResult)
             (cond ((Nat.beq eq6 (1 : Nat)))
              (okResult)
             (let okResult := false
              okResult)))
           (cond ((Nat.beq eq5 (1 : Nat)))
            (cond ((Nat.beq eq6 (0 : Nat)))
              (okResult)
             (cond ((Nat.beq eq6 (1 : Nat)))
              (okResult)
             (let okResult := false
              okResult)))
           (cond ((Nat.beq eq5 (2 : Nat)))
            (cond ((Nat.beq eq6 (1 : Nat)))
              (okResult)
             (cond ((Nat.beq eq6 (0 : Nat)))
              (okResult)
             (let okResult := false
              okResult)))
           (let okResult := false
            okResult))))
         (let okResult := false
          okResult))))
       (cond ((Nat.beq eq3 (2 : Nat)))
        (cond ((Nat.beq eq4 (0 : Nat)))
          (cond ((Nat.beq eq5 (2 : Nat)))
            (cond ((Nat.beq eq6 (1 : Nat)))
              (okResult)
             (let okResult := false
              okResult))
           (cond ((Nat.beq eq5 (0 : Nat)))
            (cond ((Nat.beq eq6 (1 : Nat)))
              (okResult)
             (let okResult := false
              okResult))
           (cond ((Nat.beq eq5 (1 : Nat)))
            (cond ((Nat.beq eq6 (1 : Nat)))
              (okResult)
             (let okResult := false
              okResult))
           (let okResult := false
            okResult))))
         (cond ((Nat.beq eq4 (2 : Nat)))
          (cond ((Nat.beq eq5 (0 : Nat)))
            (cond ((Nat.beq eq6 (1 : Nat)))
              (okResult)
             (let okResult := false
              okResult))
           (cond ((Nat.beq eq5 (1 : Nat)))
            (cond ((Nat.beq eq6 (1 : Nat)))
              (okResult)
             (let okResult := false
              okResult))
           (cond ((Nat.beq eq5 (2 : Nat)))
            (cond ((Nat.beq eq6 (1 : Nat)))
              (okResult)
             (let okResult := false
              okResult))
           (let okResult := false
            okResult))))
         (cond ((Nat.beq eq4 (1 : Nat)))
          (cond ((Nat.beq eq5 (0 : Nat)))
            (cond ((Nat.beq eq6 (1 : Nat)))
              (okResult)
             (let okResult := false
              okResult))
           (cond ((Nat.beq eq5 (1 : Nat)))
            (cond ((Nat.beq eq6 (1 : Nat)))
              (okResult)
             (let okResult := false
              okResult))
           (cond ((Nat.beq eq5 (2 : Nat)))
            (cond ((Nat.beq eq6 (1 : Nat)))
              (okResult)
             (let okResult := false
              okResult))
           (let okResult := false
            okResult))))
         (let okResult := false
          okResult))))
       (let okResult := false
        okResult))))
     (let okResult := false
      okResult)))
   (cond ((Nat.beq eq1 (1 : Nat)))
    (cond ((Nat.beq eq2 (0 : Nat)))
      (cond ((Nat.beq eq3 (1 : Nat)))
        (cond ((Nat.beq eq4 (0 : Nat)))
          (cond ((Nat.beq eq5 (0 : Nat)))
            (cond ((Nat.beq eq6 (1 : Nat)))
              (okResult)
             (cond ((Nat.beq eq6 (0 : Nat)))
              (okResult)
             (let okResult := false
              okResult)))
           (cond ((Nat.beq eq5 (2 : Nat)))
            (cond ((Nat.beq eq6 (1 : Nat)))
              (okResult)
             (cond ((Nat.beq eq6 (0 : Nat)))
              (okResult)
             (let okResult := false
              okResult)))
           (cond ((Nat.beq eq5 (1 : Nat)))
            (cond ((Nat.beq eq6 (1 : Nat)))
              (okResult)
             (cond ((Nat.beq eq6 (0 : Nat)))
              (okResult)
             (let okResult := false
              okResult)))
           (let okResult := false
            okResult))))
         (cond ((Nat.beq eq4 (2 : Nat)))
          (cond ((Nat.beq eq5 (2 : Nat)))
            (cond ((Nat.beq eq6 (0 : Nat)))
              (okResult)
             (cond ((Nat.beq eq6 (1 : Nat)))
              (okResult)
             (let okResult := false
              okResult)))
           (cond ((Nat.beq eq5 (1 : Nat)))
            (cond ((Nat.beq eq6 (0 : Nat)))
              (okResult)
             (cond ((Nat.beq eq6 (1 : Nat)))
              (okResult)
             (let okResult := false
              okResult)))
           (cond ((Nat.beq eq5 (0 : Nat)))
            (cond ((Nat.beq eq6 (0 : Nat)))
              (okResult)
             (cond ((Nat.beq eq6 (1 : Nat)))
              (okResult)
             (let okResult := false
              okResult)))
           (let okResult := false
            okResult))))
         (cond ((Nat.beq eq4 (1 : Nat)))
          (cond ((Nat.beq eq5 (2 : Nat)))
            (cond ((Nat.beq eq6 (1 : Nat)))
              (okResult)
             (cond ((Nat.beq eq6 (0 : Nat)))
              (okResult)
             (let okResult := false
              okResult)))
           (cond ((Nat.beq eq5 (1 : Nat)))
            (cond ((Nat.beq eq6 (1 : Nat)))
              (okResult)
             (cond ((Nat.beq eq6 (0 : Nat)))
              (okResult)
             (let okResult := false
              okResult)))
           (cond ((Nat.beq eq5 (0 : Nat)))
            (cond ((Nat.beq eq6 (1 : Nat)))
              (okResult)
             (cond ((Nat.beq eq6 (0 : Nat)))
              (okResult)
             (let okResult := false
              okResult)))
           (let okResult := false
            okResult))))
         (let okResult := false
          okResult))))
       (cond ((Nat.beq eq3 (0 : Nat)))
        (cond ((Nat.beq eq4 (1 : Nat)))
          (cond ((Nat.beq eq5 (2 : Nat)))
            (cond ((Nat.beq eq6 (0 : Nat)))
              (okResult)
             (cond ((Nat.beq eq6 (1 : Nat)))
              (okResult)
             (let okResult := false
              okResult)))
           (cond ((Nat.beq eq5 (1 : Nat)))
            (cond ((Nat.beq eq6 (1 : Nat)))
              (okResult)
             (cond ((Nat.beq eq6 (0 : Nat)))
              (okResult)
             (let okResult := false
              okResult)))
           (cond ((Nat.beq eq5 (0 : Nat)))
            (cond ((Nat.beq eq6 (1 : Nat)))
              (okResult)
             (cond ((Nat.beq eq6 (0 : Nat)))
              (okResult)
             (let okResult := false
              okResult)))
           (let okResult := false
            okResult))))
         (cond ((Nat.beq eq4 (2 : Nat)))
          (cond ((Nat.beq eq5 (0 : Nat)))
            (cond ((Nat.beq eq6 (0 : Nat)))
              (okResult)
             (cond ((Nat.beq eq6 (1 : Nat)))
              (okResult)
             (let okResult := false
              okResult)))
           (cond ((Nat.beq eq5 (2 : Nat)))
            (cond ((Nat.beq eq6 (1 : Nat)))
              (okResult)
             (cond ((Nat.beq eq6 (0 : Nat)))
              (okResult)
             (let okResult := false
              okResult)))
           (cond ((Nat.beq eq5 (1 : Nat)))
            (cond ((Nat.beq eq6 (0 : Nat)))
              (okResult)
             (cond ((Nat.beq eq6 (1 : Nat)))
              (okResult)
             (let okResult := false
              okResult)))
           (let okResult := false
            okResult))))
         (cond ((Nat.beq eq4 (0 : Nat)))
          (cond ((Nat.beq eq5 (0 : Nat)))
            (cond ((Nat.beq eq6 (0 : Nat)))
              (okResult)
             (cond ((Nat.beq eq6 (1 : Nat)))
              (okResult)
             (let okResult := false
              okResult)))
           (cond ((Nat.beq eq5 (2 : Nat)))
            (cond ((Nat.beq eq6 (1 : Nat)))
              (okResult)
             (cond ((Nat.beq eq6 (0 : Nat)))
              (okResult)
             (let okResult := false
              okResult)))
           (cond ((Nat.beq eq5 (1 : Nat)))
            (cond ((Nat.beq eq6 (1 : Nat)))
              (okResult)
             (cond ((Nat.beq eq6 (0 : Nat)))
              (okResult)
             (let okResult := false
              okResult)))
           (let okResult := false
            okResult))))
         (let okResult := false
          okResult))))
       (cond ((Nat.beq eq3 (2 : Nat)))
        (cond ((Nat.beq eq4 (0 : Nat)))
          (cond ((Nat.beq eq5 (2 : Nat)))
            (cond ((Nat.beq eq6 (1 : Nat)))
              (okResult)
             (let okResult := false
              okResult))
           (cond ((Nat.beq eq5 (1 : Nat)))
            (cond ((Nat.beq eq6 (1 : Nat)))
              (okResult)
             (let okResult := false
              okResult))
           (cond ((Nat.beq eq5 (0 : Nat)))
            (cond ((Nat.beq eq6 (1 : Nat)))
              (okResult)
             (let okResult := false
              okResult))
           (let okResult := false
            okResult))))
         (cond ((Nat.beq eq4 (2 : Nat)))
          (cond ((Nat.beq eq5 (0 : Nat)))
            (cond ((Nat.beq eq6 (1 : Nat)))
              (okResult)
             (let okResult := false
              okResult))
           (cond ((Nat.beq eq5 (2 : Nat)))
            (cond ((Nat.beq eq6 (1 : Nat)))
              (okResult)
             (let okResult := false
              okResult))
           (cond ((Nat.beq eq5 (1 : Nat)))
            (cond ((Nat.beq eq6 (1 : Nat)))
              (okResult)
             (let okResult := false
              okResult))
           (let okResult := false
            okResult))))
         (cond ((Nat.beq eq4 (1 : Nat)))
          (cond ((Nat.beq eq5 (1 : Nat)))
            (cond ((Nat.beq eq6 (1 : Nat)))
              (okResult)
             (let okResult := false
              okResult))
           (cond ((Nat.beq eq5 (2 : Nat)))
            (cond ((Nat.beq eq6 (1 : Nat)))
              (okResult)
             (let okResult := false
              okResult))
           (cond ((Nat.beq eq5 (0 : Nat)))
            (cond ((Nat.beq eq6 (1 : Nat)))
              (okResult)
             (let okResult := false
              okResult))
           (let okResult := false
            okResult))))
         (let okResult := false
          okResult))))
       (let okResult := false
        okResult))))
     (cond ((Nat.beq eq2 (1 : Nat)))
      (cond ((Nat.beq eq3 (0 : Nat)))
        (cond ((Nat.beq eq4 (1 : Nat)))
          (cond ((Nat.beq eq5 (1 : Nat)))
            (cond ((Nat.beq eq6 (1 : Nat)))
              (okResult)
             (cond ((Nat.beq eq6 (0 : Nat)))
              (okResult)
             (let okResult := false
              okResult)))
           (cond ((Nat.beq eq5 (2 : Nat)))
            (cond ((Nat.beq eq6 (0 : Nat)))
              (okResult)
             (cond ((Nat.beq eq6 (1 : Nat)))
              (okResult)
             (let okResult := false
              okResult)))
           (cond ((Nat.beq eq5 (0 : Nat)))
            (cond ((Nat.beq eq6 (0 : Nat)))
              (okResult)
             (cond ((Nat.beq eq6 (1 : Nat)))
              (okResult)
             (let okResult := false
              okResult)))
           (let okResult := false
            okResult))))
         (cond ((Nat.beq eq4 (0 : Nat)))
          (cond ((Nat.beq eq5 (0 : Nat)))
            (cond ((Nat.beq eq6 (1 : Nat)))
              (okResult)
             (cond ((Nat.beq eq6 (0 : Nat)))
              (okResult)
             (let okResult := false
              okResult)))
           (cond ((Nat.beq eq5 (1 : Nat)))
            (cond ((Nat.beq eq6 (0 : Nat)))
              (okResult)
             (cond ((Nat.beq eq6 (1 : Nat)))
              (okResult)
             (let okResult := false
              okResult)))
           (cond ((Nat.beq eq5 (2 : Nat)))
            (cond ((Nat.beq eq6 (0 : Nat)))
              (okResult)
             (cond ((Nat.beq eq6 (1 : Nat)))
              (okResult)
             (let okResult := false
              okResult)))
           (let okResult := false
            okResult))))
         (cond ((Nat.beq eq4 (2 : Nat)))
          (cond ((Nat.beq eq5 (2 : Nat)))
            (cond ((Nat.beq eq6 (0 : Nat)))
              (okResult)
             (cond ((Nat.beq eq6 (1 : Nat)))
              (okResult)
             (let okResult := false
              okResult)))
           (cond ((Nat.beq eq5 (0 : Nat)))
            (cond ((Nat.beq eq6 (1 : Nat)))
              (okResult)
             (cond ((Nat.beq eq6 (0 : Nat)))
              (okResult)
             (let okResult := false
              okResult)))
           (cond ((Nat.beq eq5 (1 : Nat)))
            (cond ((Nat.beq eq6 (1 : Nat)))
              (okResult)
             (cond ((Nat.beq eq6 (0 : Nat)))
              (okResult)
             (let okResult := false
              okResult)))
           (let okResult := false
            okResult))))
         (let okResult := false
          okResult))))
       (cond ((Nat.beq eq3 (2 : Nat)))
        (cond ((Nat.beq eq4 (0 : Nat)))
          (cond ((Nat.beq eq5 (2 : Nat)))
            (cond ((Nat.beq eq6 (1 : Nat)))
              (okResult)
             (let okResult := false
              okResult))
           (cond ((Nat.beq eq5 (0 : Nat)))
            (cond ((Nat.beq eq6 (1 : Nat)))
              (okResult)
             (let okResult := false
              okResult))
           (cond ((Nat.beq eq5 (1 : Nat)))
            (cond ((Nat.beq eq6 (1 : Nat)))
              (okResult)
             (let okResult := false
              okResult))
           (let okResult := false
            okResult))))
         (cond ((Nat.beq eq4 (2 : Nat)))
          (cond ((Nat.beq eq5 (1 : Nat)))
            (cond ((Nat.beq eq6 (1 : Nat)))
              (okResult)
             (let okResult := false
              okResult))
           (cond ((Nat.beq eq5 (0 : Nat)))
            (cond ((Nat.beq eq6 (1 : Nat)))
              (okResult)
             (let okResult := false
              okResult))
           (cond ((Nat.beq eq5 (2 : Nat)))
            (cond ((Nat.beq eq6 (1 : Nat)))
              (okResult)
             (let okResult := false
              okResult))
           (let okResult := false
            okResult))))
         (cond ((Nat.beq eq4 (1 : Nat)))
          (cond ((Nat.beq eq5 (1 : Nat)))
            (cond ((Nat.beq eq6 (1 : Nat)))
              (okResult)
             (let okResult := false
              okResult))
           (cond ((Nat.beq eq5 (0 : Nat)))
            (cond ((Nat.beq eq6 (1 : Nat)))
              (okResult)
             (let okResult := false
              okResult))
           (cond ((Nat.beq eq5 (2 : Nat)))
            (cond ((Nat.beq eq6 (1 : Nat)))
              (okResult)
             (let okResult := false
              okResult))
           (let okResult := false
            okResult))))
         (let okResult := false
          okResult))))
       (cond ((Nat.beq eq3 (1 : Nat)))
        (cond ((Nat.beq eq4 (0 : Nat)))
          (cond ((Nat.beq eq5 (0 : Nat)))
            (cond ((Nat.beq eq6 (0 : Nat)))
              (okResult)
             (cond ((Nat.beq eq6 (1 : Nat)))
              (okResult)
             (let okResult := false
              okResult)))
           (cond ((Nat.beq eq5 (2 : Nat)))
            (cond ((Nat.beq eq6 (0 : Nat)))
              (okResult)
             (cond ((Nat.beq eq6 (1 : Nat)))
              (okResult)
             (let okResult := false
              okResult)))
           (cond ((Nat.beq eq5 (1 : Nat)))
            (cond ((Nat.beq eq6 (1 : Nat)))
              (okResult)
             (cond ((Nat.beq eq6 (0 : Nat)))
              (okResult)
             (let okResult := false
              okResult)))
           (let okResult := false
            okResult))))
         (cond ((Nat.beq eq4 (2 : Nat)))
          (cond ((Nat.beq eq5 (0 : Nat)))
            (cond ((Nat.beq eq6 (1 : Nat)))
              (okResult)
             (cond ((Nat.beq eq6 (0 : Nat)))
              (okResult)
             (let okResult := false
              okResult)))
           (cond ((Nat.beq eq5 (2 : Nat)))
            (cond ((Nat.beq eq6 (0 : Nat)))
              (okResult)
             (cond ((Nat.beq eq6 (1 : Nat)))
              (okResult)
             (let okResult := false
              okResult)))
           (cond ((Nat.beq eq5 (1 : Nat)))
            (cond ((Nat.beq eq6 (0 : Nat)))
              (okResult)
             (cond ((Nat.beq eq6 (1 : Nat)))
              (okResult)
             (let okResult := false
              okResult)))
           (let okResult := false
            okResult))))
         (cond ((Nat.beq eq4 (1 : Nat)))
          (cond ((Nat.beq eq5 (1 : Nat)))
            (cond ((Nat.beq eq6 (0 : Nat)))
              (okResult)
             (cond ((Nat.beq eq6 (1 : Nat)))
              (okResult)
             (let okResult := false
              okResult)))
           (cond ((Nat.beq eq5 (2 : Nat)))
            (cond ((Nat.beq eq6 (1 : Nat)))
              (okResult)
             (cond ((Nat.beq eq6 (0 : Nat)))
              (okResult)
             (let okResult := false
              okResult)))
           (cond ((Nat.beq eq5 (0 : Nat)))
            (cond ((Nat.beq eq6 (1 : Nat)))
              (okResult)
             (cond ((Nat.beq eq6 (0 : Nat)))
              (okResult)
             (let okResult := false
              okResult)))
           (let okResult := false
            okResult))))
         (let okResult := false
          okResult))))
       (let okResult := false
        okResult))))
     (let okResult := false
      okResult)))
   (cond ((Nat.beq eq1 (2 : Nat)))
    (cond ((Nat.beq eq2 (1 : Nat)))
      (cond ((Nat.beq eq3 (2 : Nat)))
        (cond ((Nat.beq eq4 (2 : Nat)))
          (cond ((Nat.beq eq5 (0 : Nat)))
            (cond ((Nat.beq eq6 (1 : Nat)))
              (okResult)
             (let okResult := false
              okResult))
           (cond ((Nat.beq eq5 (1 : Nat)))
            (cond ((Nat.beq eq6 (1 : Nat)))
              (okResult)
             (let okResult := false
              okResult))
           (cond ((Nat.beq eq5 (2 : Nat)))
            (cond ((Nat.beq eq6 (1 : Nat)))
              (okResult)
             (let okResult := false
              okResult))
           (let okResult := false
            okResult))))
         (cond ((Nat.beq eq4 (0 : Nat)))
          (cond ((Nat.beq eq5 (1 : Nat)))
            (cond ((Nat.beq eq6 (1 : Nat)))
              (okResult)
             (let okResult := false
              okResult))
           (cond ((Nat.beq eq5 (2 : Nat)))
            (cond ((Nat.beq eq6 (1 : Nat)))
              (okResult)
             (let okResult := false
              okResult))
           (cond ((Nat.beq eq5 (0 : Nat)))
            (cond ((Nat.beq eq6 (1 : Nat)))
              (okResult)
             (let okResult := false
              okResult))
           (let okResult := false
            okResult))))
         (cond ((Nat.beq eq4 (1 : Nat)))
          (cond ((Nat.beq eq5 (1 : Nat)))
            (cond ((Nat.beq eq6 (1 : Nat)))
              (okResult)
             (let okResult := false
              okResult))
           (cond ((Nat.beq eq5 (0 : Nat)))
            (cond ((Nat.beq eq6 (1 : Nat)))
              (okResult)
             (let okResult := false
              okResult))
           (cond ((Nat.beq eq5 (2 : Nat)))
            (cond ((Nat.beq eq6 (1 : Nat)))
              (okResult)
             (let okResult := false
              okResult))
           (let okResult := false
            okResult))))
         (let okResult := false
          okResult))))
       (cond ((Nat.beq eq3 (0 : Nat)))
        (cond ((Nat.beq eq4 (2 : Nat)))
          (cond ((Nat.beq eq5 (0 : Nat)))
            (cond ((Nat.beq eq6 (0 : Nat)))
              (okResult)
             (cond ((Nat.beq eq6 (1 : Nat)))
              (okResult)
             (let okResult := false
              okResult)))
           (cond ((Nat.beq eq5 (1 : Nat)))
            (cond ((Nat.beq eq6 (1 : Nat)))
              (okResult)
             (cond ((Nat.beq eq6 (0 : Nat)))
              (okResult)
             (let okResult := false
              okResult)))
           (cond ((Nat.beq eq5 (2 : Nat)))
            (cond ((Nat.beq eq6 (1 : Nat)))
              (okResult)
             (cond ((Nat.beq eq6 (0 : Nat)))
              (okResult)
             (let okResult := false
              okResult)))
           (let okResult := false
            okResult))))
         (cond ((Nat.beq eq4 (0 : Nat)))
          (cond ((Nat.beq eq5 (2 : Nat)))
            (cond ((Nat.beq eq6 (0 : Nat)))
              (okResult)
             (cond ((Nat.beq eq6 (1 : Nat)))
              (okResult)
             (let okResult := false
              okResult)))
           (cond ((Nat.beq eq5 (0 : Nat)))
            (cond ((Nat.beq eq6 (1 : Nat)))
              (okResult)
             (cond ((Nat.beq eq6 (0 : Nat)))
              (okResult)
             (let okResult := false
              okResult)))
           (cond ((Nat.beq eq5 (1 : Nat)))
            (cond ((Nat.beq eq6 (0 : Nat)))
              (okResult)
             (cond ((Nat.beq eq6 (1 : Nat)))
              (okResult)
             (let okResult := false
              okResult)))
           (let okResult := false
            okResult))))
         (cond ((Nat.beq eq4 (1 : Nat)))
          (cond ((Nat.beq eq5 (0 : Nat)))
            (cond ((Nat.beq eq6 (1 : Nat)))
              (okResult)
             (cond ((Nat.beq eq6 (0 : Nat)))
              (okResult)
             (let okResult := false
              okResult)))
           (cond ((Nat.beq eq5 (1 : Nat)))
            (cond ((Nat.beq eq6 (1 : Nat)))
              (okResult)
             (cond ((Nat.beq eq6 (0 : Nat)))
              (okResult)
             (let okResult := false
              okResult)))
           (cond ((Nat.beq eq5 (2 : Nat)))
            (cond ((Nat.beq eq6 (0 : Nat)))
              (okResult)
             (cond ((Nat.beq eq6 (1 : Nat)))
              (okResult)
             (let okResult := false
              okResult)))
           (let okResult := false
            okResult))))
         (let okResult := false
          okResult))))
       (cond ((Nat.beq eq3 (1 : Nat)))
        (cond ((Nat.beq eq4 (0 : Nat)))
          (cond ((Nat.beq eq5 (2 : Nat)))
            (cond ((Nat.beq eq6 (0 : Nat)))
              (okResult)
             (cond ((Nat.beq eq6 (1 : Nat)))
              (okResult)
             (let okResult := false
              okResult)))
           (cond ((Nat.beq eq5 (1 : Nat)))
            (cond ((Nat.beq eq6 (0 : Nat)))
              (okResult)
             (cond ((Nat.beq eq6 (1 : Nat)))
              (okResult)
             (let okResult := false
              okResult)))
           (cond ((Nat.beq eq5 (0 : Nat)))
            (cond ((Nat.beq eq6 (1 : Nat)))
              (okResult)
             (cond ((Nat.beq eq6 (0 : Nat)))
              (okResult)
             (let okResult := false
              okResult)))
           (let okResult := false
            okResult))))
         (cond ((Nat.beq eq4 (2 : Nat)))
          (cond ((Nat.beq eq5 (0 : Nat)))
            (cond ((Nat.beq eq6 (0 : Nat)))
              (okResult)
             (cond ((Nat.beq eq6 (1 : Nat)))
              (okResult)
             (let okResult := false
              okResult)))
           (cond ((Nat.beq eq5 (1 : Nat)))
            (cond ((Nat.beq eq6 (1 : Nat)))
              (okResult)
             (cond ((Nat.beq eq6 (0 : Nat)))
              (okResult)
             (let okResult := false
              okResult)))
           (cond ((Nat.beq eq5 (2 : Nat)))
            (cond ((Nat.beq eq6 (0 : Nat)))
              (okResult)
             (cond ((Nat.beq eq6 (1 : Nat)))
              (okResult)
             (let okResult := false
              okResult)))
           (let okResult := false
            okResult))))
         (cond ((Nat.beq eq4 (1 : Nat)))
          (cond ((Nat.beq eq5 (2 : Nat)))
            (cond ((Nat.beq eq6 (1 : Nat)))
              (okResult)
             (cond ((Nat.beq eq6 (0 : Nat)))
              (okResult)
             (let okResult := false
              okResult)))
           (cond ((Nat.beq eq5 (1 : Nat)))
            (cond ((Nat.beq eq6 (0 : Nat)))
              (okResult)
             (cond ((Nat.beq eq6 (1 : Nat)))
              (okResult)
             (let okResult := false
              okResult)))
           (cond ((Nat.beq eq5 (0 : Nat)))
            (cond ((Nat.beq eq6 (0 : Nat)))
              (okResult)
             (cond ((Nat.beq eq6 (1 : Nat)))
              (okResult)
             (let okResult := false
              okResult)))
           (let okResult := false
            okResult))))
         (let okResult := false
          okResult))))
       (let okResult := false
        okResult))))
     (cond ((Nat.beq eq2 (0 : Nat)))
      (cond ((Nat.beq eq3 (0 : Nat)))
        (cond ((Nat.beq eq4 (1 : Nat)))
          (cond ((Nat.beq eq5 (1 : Nat)))
            (cond ((Nat.beq eq6 (1 : Nat)))
              (okResult)
             (cond ((Nat.beq eq6 (0 : Nat)))
              (okResult)
             (let okResult := false
              okResult)))
           (cond ((Nat.beq eq5 (2 : Nat)))
            (cond ((Nat.beq eq6 (0 : Nat)))
              (okResult)
             (cond ((Nat.beq eq6 (1 : Nat)))
              (okResult)
             (let okResult := false
              okResult)))
           (cond ((Nat.beq eq5 (0 : Nat)))
            (cond ((Nat.beq eq6 (1 : Nat)))
              (okResult)
             (cond ((Nat.beq eq6 (0 : Nat)))
              (okResult)
             (let okResult := false
              okResult)))
           (let okResult := false
            okResult))))
         (cond ((Nat.beq eq4 (0 : Nat)))
          (cond ((Nat.beq eq5 (0 : Nat)))
            (cond ((Nat.beq eq6 (1 : Nat)))
              (okResult)
             (cond ((Nat.beq eq6 (0 : Nat)))
              (okResult)
             (let okResult := false
              okResult)))
           (cond ((Nat.beq eq5 (2 : Nat)))
            (cond ((Nat.beq eq6 (0 : Nat)))
              (okResult)
             (cond ((Nat.beq eq6 (1 : Nat)))
              (okResult)
             (let okResult := false
              okResult)))
           (cond ((Nat.beq eq5 (1 : Nat)))
            (cond ((Nat.beq eq6 (1 : Nat)))
              (okResult)
             (cond ((Nat.beq eq6 (0 : Nat)))
              (okResult)
             (let okResult := false
              okResult)))
           (let okResult := false
            okResult))))
         (cond ((Nat.beq eq4 (2 : Nat)))
          (cond ((Nat.beq eq5 (1 : Nat)))
            (cond ((Nat.beq eq6 (1 : Nat)))
              (okResult)
             (cond ((Nat.beq eq6 (0 : Nat)))
              (okResult)
             (let okResult := false
              okResult)))
           (cond ((Nat.beq eq5 (0 : Nat)))
            (cond ((Nat.beq eq6 (0 : Nat)))
              (okResult)
             (cond ((Nat.beq eq6 (1 : Nat)))
              (okResult)
             (let okResult := false
              okResult)))
           (cond ((Nat.beq eq5 (2 : Nat)))
            (cond ((Nat.beq eq6 (1 : Nat)))
              (okResult)
             (cond ((Nat.beq eq6 (0 : Nat)))
              (okResult)
             (let okResult := false
              okResult)))
           (let okResult := false
            okResult))))
         (let okResult := false
          okResult))))
       (cond ((Nat.beq eq3 (1 : Nat)))
        (cond ((Nat.beq eq4 (1 : Nat)))
          (cond ((Nat.beq eq5 (2 : Nat)))
            (cond ((Nat.beq eq6 (0 : Nat)))
              (okResult)
             (cond ((Nat.beq eq6 (1 : Nat)))
              (okResult)
             (let okResult := false
              okResult)))
           (cond ((Nat.beq eq5 (0 : Nat)))
            (cond ((Nat.beq eq6 (0 : Nat)))
              (okResult)
             (cond ((Nat.beq eq6 (1 : Nat)))
              (okResult)
             (let okResult := false
              okResult)))
           (cond ((Nat.beq eq5 (1 : Nat)))
            (cond ((Nat.beq eq6 (1 : Nat)))
              (okResult)
             (cond ((Nat.beq eq6 (0 : Nat)))
              (okResult)
             (let okResult := false
              okResult)))
           (let okResult := false
            okResult))))
         (cond ((Nat.beq eq4 (2 : Nat)))
          (cond ((Nat.beq eq5 (1 : Nat)))
            (cond ((Nat.beq eq6 (1 : Nat)))
              (okResult)
             (cond ((Nat.beq eq6 (0 : Nat)))
              (okResult)
             (let okResult := false
              okResult)))
           (cond ((Nat.beq eq5 (2 : Nat)))
            (cond ((Nat.beq eq6 (0 : Nat)))
              (okResult)
             (cond ((Nat.beq eq6 (1 : Nat)))
              (okResult)
             (let okResult := false
              okResult)))
           (cond ((Nat.beq eq5 (0 : Nat)))
            (cond ((Nat.beq eq6 (0 : Nat)))
              (okResult)
             (cond ((Nat.beq eq6 (1 : Nat)))
              (okResult)
             (let okResult := false
              okResult)))
           (let okResult := false
            okResult))))
         (cond ((Nat.beq eq4 (0 : Nat)))
          (cond ((Nat.beq eq5 (2 : Nat)))
            (cond ((Nat.beq eq6 (1 : Nat)))
              (okResult)
             (cond ((Nat.beq eq6 (0 : Nat)))
              (okResult)
             (let okResult := false
              okResult)))
           (cond ((Nat.beq eq5 (1 : Nat)))
            (cond ((Nat.beq eq6 (0 : Nat)))
              (okResult)
             (cond ((Nat.beq eq6 (1 : Nat)))
              (okResult)
             (let okResult := false
              okResult)))
           (cond ((Nat.beq eq5 (0 : Nat)))
            (cond ((Nat.beq eq6 (0 : Nat)))
              (okResult)
             (cond ((Nat.beq eq6 (1 : Nat)))
              (okResult)
             (let okResult := false
              okResult)))
           (let okResult := false
            okResult))))
         (let okResult := false
          okResult))))
       (cond ((Nat.beq eq3 (2 : Nat)))
        (cond ((Nat.beq eq4 (1 : Nat)))
          (cond ((Nat.beq eq5 (0 : Nat)))
            (cond ((Nat.beq eq6 (1 : Nat)))
              (okResult)
             (let okResult := false
              okResult))
           (cond ((Nat.beq eq5 (1 : Nat)))
            (cond ((Nat.beq eq6 (1 : Nat)))
              (okResult)
             (let okResult := false
              okResult))
           (cond ((Nat.beq eq5 (2 : Nat)))
            (cond ((Nat.beq eq6 (1 : Nat)))
              (okResult)
             (let okResult := false
              okResult))
           (let okResult := false
            okResult))))
         (cond ((Nat.beq eq4 (0 : Nat)))
          (cond ((Nat.beq eq5 (0 : Nat)))
            (cond ((Nat.beq eq6 (1 : Nat)))
              (okResult)
             (let okResult := false
              okResult))
           (cond ((Nat.beq eq5 (1 : Nat)))
            (cond ((Nat.beq eq6 (1 : Nat)))
              (okResult)
             (let okResult := false
              okResult))
           (cond ((Nat.beq eq5 (2 : Nat)))
            (cond ((Nat.beq eq6 (1 : Nat)))
              (okResult)
             (let okResult := false
              okResult))
           (let okResult := false
            okResult))))
         (cond ((Nat.beq eq4 (2 : Nat)))
          (cond ((Nat.beq eq5 (0 : Nat)))
            (cond ((Nat.beq eq6 (1 : Nat)))
              (okResult)
             (let okResult := false
              okResult))
           (cond ((Nat.beq eq5 (2 : Nat)))
            (cond ((Nat.beq eq6 (1 : Nat)))
              (okResult)
             (let okResult := false
              okResult))
           (cond ((Nat.beq eq5 (1 : Nat)))
            (cond ((Nat.beq eq6 (1 : Nat)))
              (okResult)
             (let okResult := false
              okResult))
           (let okResult := false
            okResult))))
         (let okResult := false
          okResult))))
       (let okResult := false
        okResult))))
     (let okResult := false
      okResult)))
   (let okResult := false
    okResult)))

/-- lookupMV  (lookup.go) -/
def lookupMV (eq1 : Nat) (eq2 : Nat) (eq3 : Nat) (eq4 : Nat) (eq5 : Nat) (eq6 : Nat) : Nat :=
  cond ((Nat.beq eq1 (0 : Nat)))
    (cond ((Nat.beq eq2 (1 : Nat)))
      (cond ((Nat.beq eq3 (0 : Nat)))
        (cond ((Nat.beq eq4 (2 : Nat)))
          (cond ((Nat.beq eq5 (0 : Nat)))
            (cond ((Nat.beq eq6 (0 : Nat)))
              ((0x4022666666666666 : Nat))
             (cond ((Nat.beq eq6 (1 : Nat)))
              ((0x4020333333333333 : Nat))
             ((0x7FF8DEAD00000000 : Nat))))
           (cond ((Nat.beq eq5 (1 : Nat)))
            (cond ((Nat.beq eq6 (1 : Nat)))
              ((0x401c666666666666 : Nat))
             (cond ((Nat.beq eq6 (0 : Nat)))
              ((0x4020666666666666 : Nat))
             ((0x7FF8DEAD00000000 : Nat))))
           (cond ((Nat.beq eq5 (2 : Nat)))
            (cond ((Nat.beq eq6 (0 : Nat)))
              ((0x401ccccccccccccd : Nat))
             (cond ((Nat.beq eq6 (1 : Nat)))
              ((0x4015333333333333 : Nat))
             ((0x7FF8DEAD00000000 : Nat))))
           ((0x7FF8DEAD00000000 : Nat)))))
         (cond ((Nat.beq eq4 (0 : Nat)))
          (cond ((Nat.beq eq5 (1 : Nat)))
            (cond ((Nat.beq eq6 (0 : Nat)))
              ((0x4023000000000000 : Nat))
             (cond ((Nat.beq eq6 (1 : Nat)))
              ((0x4022666666666666 : Nat))
             ((0x7FF8DEAD00000000 : Nat))))
           (cond ((Nat.beq eq5 (2 : Nat)))
            (cond ((Nat.beq eq6 (0 : Nat)))
              ((0x4022666666666666 : Nat))
             (cond ((Nat.beq eq6 (1 : Nat)))
              ((0x4021000000000000 : Nat))
             ((0x7FF8DEAD00000000 : Nat))))
           (cond ((Nat.beq eq5 (0 : Nat)))
            (cond ((Nat.beq eq6 (1 : Nat)))
              ((0x4023666666666666 : Nat))
             (cond ((Nat.beq eq6 (0 : Nat)))
              ((0x4023cccccccccccd : Nat))
             ((0x7FF8DEAD00000000 : Nat))))
           ((0x7FF8DEAD00000000 : Nat)))))
         (cond ((Nat.beq eq4 (1 : Nat)))
          (cond ((Nat.beq eq5 (1 : Nat)))
            (cond ((Nat.beq eq6 (0 : Nat)))
              ((0x4022000000000000 : Nat))
             (cond ((Nat.beq eq6 (1 : Nat)))
              ((0x402099999999999a : Nat))
             ((0x7FF8DEAD00000000 : Nat))))
           (cond ((Nat.beq eq5 (0 : Nat)))
            (cond ((Nat.beq eq6 (1 : Nat)))
              ((0x4022333333333333 : Nat))
             (cond ((Nat.beq eq6 (0 : Nat)))
              ((0x4023000000000000 : Nat))
             ((0x7FF8DEAD00000000 : Nat))))
           (cond ((Nat.beq eq5 (2 : Nat)))
            (cond ((Nat.beq eq6 (1 : Nat)))
              ((0x401c666666666666 : Nat))
             (cond ((Nat.beq eq6 (0 : Nat)))
              ((0x4020cccccccccccd : Nat))
             ((0x7FF8DEAD00000000 : Nat))))
           ((0x7FF8DEAD00000000 : Nat)))))
         ((0x7FF8DEAD00000000 : Nat)))))
       (cond ((Nat.beq eq3 (1 : Nat)))
        (cond ((Nat.beq eq4 (0 : Nat)))
          (cond ((Nat.beq eq5 (0 : Nat)))
            (cond ((Nat.beq eq6 (1 : Nat)))
              ((0x402299999999999a : Nat))
             (cond ((Nat.beq eq6 (0 : Nat)))
              ((0x4023000000000000 : Nat))
             ((0x7FF8DEAD00000000 : Nat))))
           (cond ((Nat.beq eq5 (1 : Nat)))
            (cond ((Nat.beq eq6 (0 : Nat)))
              ((0x4022666666666666 : Nat))
             (cond ((Nat.beq eq6 (1 : Nat)))
              ((0x4021000000000000 : Nat))
             ((0x7FF8DEAD00000000 : Nat))))
           (cond ((Nat.beq eq5 (2 : Nat)))
            (cond ((Nat.beq eq6 (0 : Nat)))
              ((0x4021000000000000 : Nat))
             (cond ((Nat.beq eq6 (1 : Nat)))
              ((0x401d333333333333 : Nat))
             ((0x7FF8DEAD00000000 : Nat))))
           ((0x7FF8DEAD00000000 : Nat)))))
         (cond ((Nat.beq eq4 (2 : Nat)))
          (cond ((Nat.beq eq5 (0 : Nat)))
            (cond ((Nat.beq eq6 (1 : Nat)))
              ((0x401c000000000000 : Nat))
             (cond ((Nat.beq eq6 (0 : Nat)))
              ((0x4020cccccccccccd : Nat))
             ((0x7FF8DEAD00000000 : Nat))))
           (cond ((Nat.beq eq5 (1 : Nat)))
            (cond ((Nat.beq eq6 (1 : Nat)))
              ((0x4014cccccccccccd : Nat))
             (cond ((Nat.beq eq6 (0 : Nat)))
              ((0x401c666666666666 : Nat))
             ((0x7FF8DEAD00000000 : Nat))))
           (cond ((Nat.beq eq5 (2 : Nat)))
            (cond ((Nat.beq eq6 (1 : Nat)))
              ((0x4008000000000000 : Nat))
             (cond ((Nat.beq eq6 (0 : Nat)))
              ((0x4014000000000000 : Nat))
             ((0x7FF8DEAD00000000 : Nat))))
           ((0x7FF8DEAD00000000 : Nat)))))
         (cond ((Nat.beq eq4 (1 : Nat)))
          (cond ((Nat.beq eq5 (0 : Nat)))
            (cond ((Nat.beq eq6 (0 : Nat)))
              ((0x4022666666666666 : Nat))
             (cond ((Nat.beq eq6 (1 : Nat)))
              ((0x4020666666666666 : Nat))
             ((0x7FF8DEAD00000000 : Nat))))
           (cond ((Nat.beq eq5 (1 : Nat)))
            (cond ((Nat.beq eq6 (0 : Nat)))
              ((0x4020000000000000 : Nat))
             (cond ((Nat.beq eq6 (1 : Nat)))
              ((0x401ccccccccccccd : Nat))
             ((0x7FF8DEAD00000000 : Nat))))
           (cond ((Nat.beq eq5 (2 : Nat)))
            (cond ((Nat.beq eq6 (1 : Nat)))
              ((0x401799999999999a : Nat))
             (cond ((Nat.beq eq6 (0 : Nat)))
              ((0x401c000000000000 : Nat))
             ((0x7FF8DEAD00000000 : Nat))))
           ((0x7FF8DEAD00000000 : Nat)))))
         ((0x7FF8DEAD00000000 : Nat)))))
       (cond ((Nat.beq eq3 (2 : Nat)))
        (cond ((Nat.beq eq4 (1 : Nat)))
          (cond ((Nat.beq eq5 (1 : Nat)))
            (cond ((Nat.beq eq6 (1 : Nat)))
              ((0x4014cccccccccccd : Nat))
             ((0x7FF8DEAD00000000 : Nat)))
           (cond ((Nat.beq eq5 (0 : Nat)))
            (cond ((Nat.beq eq6 (1 : Nat)))
              ((0x401c666666666666 : Nat))
             ((0x7FF8DEAD00000000 : Nat)))
           (cond ((Nat.beq eq5 (2 : Nat)))
            (cond ((Nat.beq eq6 (1 : Nat)))
              ((0x4007333333333333 : Nat))
             ((0x7FF8DEAD00000000 : Nat)))
           ((0x7FF8DEAD00000000 : Nat)))))
         (cond ((Nat.beq eq4 (2 : Nat)))
          (cond ((Nat.beq eq5 (2 : Nat)))
            (cond ((Nat.beq eq6 (1 : Nat)))
              ((0x3ffb333333333333 : Nat))
             ((0x7FF8DEAD00000000 : Nat)))
           (cond ((Nat.beq eq5 (1 : Nat)))
            (cond ((Nat.beq eq6 (1 : Nat)))
              ((0x4007333333333333 : Nat))
             ((0x7FF8DEAD00000000 : Nat)))
           (cond ((Nat.beq eq5 (0 : Nat)))
            (cond ((Nat.beq eq6 (1 : Nat)))
              ((0x4019333333333333 : Nat))
             ((0x7FF8DEAD00000000 : Nat)))
           ((0x7FF8DEAD00000000 : Nat)))))
         (cond ((Nat.beq eq4 (0 : Nat)))
          (cond ((Nat.beq eq5 (1 : Nat)))
            (cond ((Nat.beq eq6 (1 : Nat)))
              ((0x401e000000000000 : Nat))
             ((0x7FF8DEAD00000000 : Nat)))
           (cond ((Nat.beq eq5 (2 : Nat)))
            (cond ((Nat.beq eq6 (1 : Nat)))
              ((0x4014cccccccccccd : Nat))
             ((0x7FF8DEAD00000000 : Nat)))
           (cond ((Nat.beq eq5 (0 : Nat)))
            (cond ((Nat.beq eq6 (1 : Nat)))
              ((0x4021333333333333 : Nat))
             ((0x7FF8DEAD00000000 : Nat)))
           ((0x7FF8DEAD00000000 : Nat)))))
         ((0x7FF8DEAD00000000 : Nat)))))
       ((0x7FF8DEAD00000000 : Nat)))))
     (cond ((Nat.beq eq2 (0 : Nat)))
      (cond ((Nat.beq eq3 (0 : Nat)))
        (cond ((Nat.beq eq4 (0 : Nat)))
          (cond ((Nat.beq eq5 (2 : Nat)))
            (cond ((Nat.beq eq6 (0 : Nat)))
              ((0x4023000000000000 : Nat))
             (cond ((Nat.beq eq6 (1 : Nat)))
              ((0x4022666666666666 : Nat))
             ((0x7FF8DEAD00000000 : Nat))))
           (cond ((Nat.beq eq5 (0 : Nat)))
            (cond ((Nat.beq eq6 (1 : Nat)))
              ((0x4023cccccccccccd : Nat))
             (cond ((Nat.beq eq6 (0 : Nat)))
              ((0x4024000000000000 : Nat))
             ((0x7FF8DEAD00000000 : Nat))))
           (cond ((Nat.beq eq5 (1 : Nat)))
            (cond ((Nat.beq eq6 (0 : Nat)))
              ((0x402399999999999a : Nat))
             (cond ((Nat.beq eq6 (1 : Nat)))
              ((0x4023000000000000 : Nat))
             ((0x7FF8DEAD00000000 : Nat))))
           ((0x7FF8DEAD00000000 : Nat)))))
         (cond ((Nat.beq eq4 (2 : Nat)))
          (cond ((Nat.beq eq5 (2 : Nat)))
            (cond ((Nat.beq eq6 (1 : Nat)))
              ((0x401b333333333333 : Nat))
             (cond ((Nat.beq eq6 (0 : Nat)))
              ((0x4020333333333333 : Nat))
             ((0x7FF8DEAD00000000 : Nat))))
           (cond ((Nat.beq eq5 (1 : Nat)))
            (cond ((Nat.beq eq6 (0 : Nat)))
              ((0x4021cccccccccccd : Nat))
             (cond ((Nat.beq eq6 (1 : Nat)))
              ((0x4020000000000000 : Nat))
             ((0x7FF8DEAD00000000 : Nat))))
           (cond ((Nat.beq eq5 (0 : Nat)))
            (cond ((Nat.beq eq6 (1 : Nat)))
              ((0x4022000000000000 : Nat))
             (cond ((Nat.beq eq6 (0 : Nat)))
              ((0x402299999999999a : Nat))
             ((0x7FF8DEAD00000000 : Nat))))
           ((0x7FF8DEAD00000000 : Nat)))))
         (cond ((Nat.beq eq4 (1 : Nat)))
          (cond ((Nat.beq eq5 (0 : Nat)))
            (cond ((Nat.beq eq6 (0 : Nat)))
              ((0x4024000000000000 : Nat))
             (cond ((Nat.beq eq6 (1 : Nat)))
              ((0x4023333333333333 : Nat))
             ((0x7FF8DEAD00000000 : Nat))))
           (cond ((Nat.beq eq5 (2 : Nat)))
            (cond ((Nat.beq eq6 (0 : Nat)))
              ((0x4022333333333333 : Nat))
             (cond ((Nat.beq eq6 (1 : Nat)))
              ((0x4020333333333333 : Nat))
             ((0x7FF8DEAD00000000 : Nat))))
           (cond ((Nat.beq eq5 (1 : Nat)))
            (cond ((Nat.beq eq6 (1 : Nat)))
              ((0x4021666666666666 : Nat))
             (cond ((Nat.beq eq6 (0 : Nat)))
              ((0x402299999999999a : Nat))
             ((0x7FF8DEAD00000000 : Nat))))
           ((0x7FF8DEAD00000000 : Nat)))))
         ((0x7FF8DEAD00000000 : Nat)))))
       (cond ((Nat.beq eq3 (1 : Nat)))
        (cond ((Nat.beq eq4 (1 : Nat)))
          (cond ((Nat.beq eq5 (1 : Nat)))
            (cond ((Nat.beq eq6 (0 : Nat)))
              ((0x4021cccccccccccd : Nat))
             (cond ((Nat.beq eq6 (1 : Nat)))
              ((0x4020333333333333 : Nat))
             ((0x7FF8DEAD00000000 : Nat))))
           (cond ((Nat.beq eq5 (2 : Nat)))
            (cond ((Nat.beq eq6 (1 : Nat)))
              ((0x401a000000000000 : Nat))
             (cond ((Nat.beq eq6 (0 : Nat)))
              ((0x4020333333333333 : Nat))
             ((0x7FF8DEAD00000000 : Nat))))
           (cond ((Nat.beq eq5 (0 : Nat)))
            (cond ((Nat.beq eq6 (1 : Nat)))
              ((0x4022666666666666 : Nat))
             (cond ((Nat.beq eq6 (0 : Nat)))
              ((0x402299999999999a : Nat))
             ((0x7FF8DEAD00000000 : Nat))))
           ((0x7FF8DEAD00000000 : Nat)))))
         (cond ((Nat.beq eq4 (2 : Nat)))
          (cond ((Nat.beq eq5 (2 : Nat)))
            (cond ((Nat.beq eq6 (0 : Nat)))
              ((0x401b99999999999a : Nat))
             (cond ((Nat.beq eq6 (1 : Nat)))
              ((0x4013333333333333 : Nat))
             ((0x7FF8DEAD00000000 : Nat))))
           (cond ((Nat.beq eq5 (0 : Nat)))
            (cond ((Nat.beq eq6 (1 : Nat)))
              ((0x4020000000000000 : Nat))
             (cond ((Nat.beq eq6 (0 : Nat)))
              ((0x402199999999999a : Nat))
             ((0x7FF8DEAD00000000 : Nat))))
           (cond ((Nat.beq eq5 (1 : Nat)))
            (cond ((Nat.beq eq6 (1 : Nat)))
              ((0x401c000000000000 : Nat))
             (cond ((Nat.beq eq6 (0 : Nat)))
              ((0x401f333333333333 : Nat))
             ((0x7FF8DEAD00000000 : Nat))))
           ((0x7FF8DEAD00000000 : Nat)))))
         (cond ((Nat.beq eq4 (0 : Nat)))
          (cond ((Nat.beq eq5 (0 : Nat)))
            (cond ((Nat.beq eq6 (0 : Nat)))
              ((0x402399999999999a : Nat))
             (cond ((Nat.beq eq6 (1 : Nat)))
              ((0x4023000000000000 : Nat))
             ((0x7FF8DEAD00000000 : Nat))))
           (cond ((Nat.beq eq5 (1 : Nat)))
            (cond ((Nat.beq eq6 (0 : Nat)))
              ((0x4023000000000000 : Nat))
             (cond ((Nat.beq eq6 (1 : Nat)))
              ((0x4022666666666666 : Nat))
             ((0x7FF8DEAD00000000 : Nat))))
           (cond ((Nat.beq eq5 (2 : Nat)))
            (cond ((Nat.beq eq6 (1 : Nat)))
              ((0x4020cccccccccccd : Nat))
             (cond ((Nat.beq eq6 (0 : Nat)))
              ((0x4022000000000000 : Nat))
             ((0x7FF8DEAD00000000 : Nat))))
           ((0x7FF8DEAD00000000 : Nat)))))
         ((0x7FF8DEAD00000000 : Nat)))))
       (cond ((Nat.beq eq3 (2 : Nat)))
        (cond ((Nat.beq eq4 (0 : Nat)))
          (cond ((Nat.beq eq5 (2 : Nat)))
            (cond ((Nat.beq eq6 (1 : Nat)))
              ((0x401ccccccccccccd : Nat))
             ((0x7FF8DEAD00000000 : Nat)))
           (cond ((Nat.beq eq5 (0 : Nat)))
            (cond ((Nat.beq eq6 (1 : Nat)))
              ((0x4022666666666666 : Nat))
             ((0x7FF8DEAD00000000 : Nat)))
           (cond ((Nat.beq eq5 (1 : Nat)))
            (cond ((Nat.beq eq6 (1 : Nat)))
              ((0x4020666666666666 : Nat))
             ((0x7FF8DEAD00000000 : Nat)))
           ((0x7FF8DEAD00000000 : Nat)))))
         (cond ((Nat.beq eq4 (2 : Nat)))
          (cond ((Nat.beq eq5 (0 : Nat)))
            (cond ((Nat.beq eq6 (1 : Nat)))
              ((0x401b99999999999a : Nat))
             ((0x7FF8DEAD00000000 : Nat)))
           (cond ((Nat.beq eq5 (1 : Nat)))
            (cond ((Nat.beq eq6 (1 : Nat)))
              ((0x4016000000000000 : Nat))
             ((0x7FF8DEAD00000000 : Nat)))
           (cond ((Nat.beq eq5 (2 : Nat)))
            (cond ((Nat.beq eq6 (1 : Nat)))
              ((0x400599999999999a : Nat))
             ((0x7FF8DEAD00000000 : Nat)))
           ((0x7FF8DEAD00000000 : Nat)))))
         (cond ((Nat.beq eq4 (1 : Nat)))
          (cond ((Nat.beq eq5 (0 : Nat)))
            (cond ((Nat.beq eq6 (1 : Nat)))
              ((0x401f99999999999a : Nat))
             ((0x7FF8DEAD00000000 : Nat)))
           (cond ((Nat.beq eq5 (1 : Nat)))
            (cond ((Nat.beq eq6 (1 : Nat)))
              ((0x401b99999999999a : Nat))
             ((0x7FF8DEAD00000000 : Nat)))
           (cond ((Nat.beq eq5 (2 : Nat)))
            (cond ((Nat.beq eq6 (1 : Nat)))
              ((0x4014000000000000 : Nat))
             ((0x7FF8DEAD00000000 : Nat)))
           ((0x7FF8DEAD00000000 : Nat)))))
         ((0x7FF8DEAD00000000 : Nat)))))
       ((0x7FF8DEAD00000000 : Nat)))))
     ((0x7FF8DEAD00000000 : Nat))))
   (cond ((Nat.beq eq1 (1 : Nat)))
    (cond ((Nat.beq eq2 (0 : Nat)))
      (cond ((Nat.beq eq3 (1 : Nat)))
        (cond ((Nat.beq eq4 (0 : Nat)))
          (cond ((Nat.beq eq5 (0 : Nat)))
            (cond ((Nat.beq eq6 (1 : Nat)))
              ((0x4021cccccccccccd : Nat))
             (cond ((Nat.beq eq6 (0 : Nat)))
              ((0x4022cccccccccccd : Nat))
             ((0x7FF8DEAD00000000 : Nat))))
           (cond ((Nat.beq eq5 (2 : Nat)))
            (cond ((Nat.beq eq6 (1 : Nat)))
              ((0x401acccccccccccd : Nat))
             (cond ((Nat.beq eq6 (0 : Nat)))
              ((0x401e666666666666 : Nat))
             ((0x7FF8DEAD00000000 : Nat))))
           (cond ((Nat.beq eq5 (1 : Nat)))
            (cond ((Nat.beq eq6 (1 : Nat)))
              ((0x401ecccccccccccd : Nat))
             (cond ((Nat.beq eq6 (0 : Nat)))
              ((0x402199999999999a : Nat))
             ((0x7FF8DEAD00000000 : Nat))))
           ((0x7FF8DEAD00000000 : Nat)))))
         (cond ((Nat.beq eq4 (2 : Nat)))
          (cond ((Nat.beq eq5 (2 : Nat)))
            (cond ((Nat.beq eq6 (0 : Nat)))
              ((0x4014cccccccccccd : Nat))
             (cond ((Nat.beq eq6 (1 : Nat)))
              ((0x4004000000000000 : Nat))
             ((0x7FF8DEAD00000000 : Nat))))
           (cond ((Nat.beq eq5 (1 : Nat)))
            (cond ((Nat.beq eq6 (0 : Nat)))
              ((0x4016cccccccccccd : Nat))
             (cond ((Nat.beq eq6 (1 : Nat)))
              ((0x4014cccccccccccd : Nat))
             ((0x7FF8DEAD00000000 : Nat))))
           (cond ((Nat.beq eq5 (0 : Nat)))
            (cond ((Nat.beq eq6 (0 : Nat)))
              ((0x401ccccccccccccd : Nat))
             (cond ((Nat.beq eq6 (1 : Nat)))
              ((0x4016cccccccccccd : Nat))
             ((0x7FF8DEAD00000000 : Nat))))
           ((0x7FF8DEAD00000000 : Nat)))))
         (cond ((Nat.beq eq4 (1 : Nat)))
          (cond ((Nat.beq eq5 (2 : Nat)))
            (cond ((Nat.beq eq6 (1 : Nat)))
              ((0x4014000000000000 : Nat))
             (cond ((Nat.beq eq6 (0 : Nat)))
              ((0x401799999999999a : Nat))
             ((0x7FF8DEAD00000000 : Nat))))
           (cond ((Nat.beq eq5 (1 : Nat)))
            (cond ((Nat.beq eq6 (1 : Nat)))
              ((0x4017333333333333 : Nat))
             (cond ((Nat.beq eq6 (0 : Nat)))
              ((0x401d99999999999a : Nat))
             ((0x7FF8DEAD00000000 : Nat))))
           (cond ((Nat.beq eq5 (0 : Nat)))
            (cond ((Nat.beq eq6 (1 : Nat)))
              ((0x401e666666666666 : Nat))
             (cond ((Nat.beq eq6 (0 : Nat)))
              ((0x4021333333333333 : Nat))
             ((0x7FF8DEAD00000000 : Nat))))
           ((0x7FF8DEAD00000000 : Nat)))))
         ((0x7FF8DEAD00000000 : Nat)))))
       (cond ((Nat.beq eq3 (0 : Nat)))
        (cond ((Nat.beq eq4 (1 : Nat)))
          (cond ((Nat.beq eq5 (2 : Nat)))
            (cond ((Nat.beq eq6 (0 : Nat)))
              ((0x401ecccccccccccd : Nat))
             (cond ((Nat.beq eq6 (1 : Nat)))
              ((0x401999999999999a : Nat))
             ((0x7FF8DEAD00000000 : Nat))))
           (cond ((Nat.beq eq5 (1 : Nat)))
            (cond ((Nat.beq eq6 (1 : Nat)))
              ((0x401d99999999999a : Nat))
             (cond ((Nat.beq eq6 (0 : Nat)))
              ((0x4021333333333333 : Nat))
             ((0x7FF8DEAD00000000 : Nat))))
           (cond ((Nat.beq eq5 (0 : Nat)))
            (cond ((Nat.beq eq6 (1 : Nat)))
              ((0x4021cccccccccccd : Nat))
             (cond ((Nat.beq eq6 (0 : Nat)))
              ((0x4022cccccccccccd : Nat))
             ((0x7FF8DEAD00000000 : Nat))))
           ((0x7FF8DEAD00000000 : Nat)))))
         (cond ((Nat.beq eq4 (2 : Nat)))
          (cond ((Nat.beq eq5 (0 : Nat)))
            (cond ((Nat.beq eq6 (0 : Nat)))
              ((0x4021666666666666 : Nat))
             (cond ((Nat.beq eq6 (1 : Nat)))
              ((0x401e000000000000 : Nat))
             ((0x7FF8DEAD00000000 : Nat))))
           (cond ((Nat.beq eq5 (2 : Nat)))
            (cond ((Nat.beq eq6 (1 : Nat)))
              ((0x401399999999999a : Nat))
             (cond ((Nat.beq eq6 (0 : Nat)))
              ((0x4019333333333333 : Nat))
             ((0x7FF8DEAD00000000 : Nat))))
           (cond ((Nat.beq eq5 (1 : Nat)))
            (cond ((Nat.beq eq6 (0 : Nat)))
              ((0x401d99999999999a : Nat))
             (cond ((Nat.beq eq6 (1 : Nat)))
              ((0x4019333333333333 : Nat))
             ((0x7FF8DEAD00000000 : Nat))))
           ((0x7FF8DEAD00000000 : Nat)))))
         (cond ((Nat.beq eq4 (0 : Nat)))
          (cond ((Nat.beq eq5 (0 : Nat)))
            (cond ((Nat.beq eq6 (0 : Nat)))
              ((0x402399999999999a : Nat))
             (cond ((Nat.beq eq6 (1 : Nat)))
              ((0x4023000000000000 : Nat))
             ((0x7FF8DEAD00000000 : Nat))))
           (cond ((Nat.beq eq5 (2 : Nat)))
            (cond ((Nat.beq eq6 (1 : Nat)))
              ((0x4020333333333333 : Nat))
             (cond ((Nat.beq eq6 (0 : Nat)))
              ((0x4022333333333333 : Nat))
             ((0x7FF8DEAD00000000 : Nat))))
           (cond ((Nat.beq eq5 (1 : Nat)))
            (cond ((Nat.beq eq6 (1 : Nat)))
              ((0x4021666666666666 : Nat))
             (cond ((Nat.beq eq6 (0 : Nat)))
              ((0x4022cccccccccccd : Nat))
             ((0x7FF8DEAD00000000 : Nat))))
           ((0x7FF8DEAD00000000 : Nat)))))
         ((0x7FF8DEAD00000000 : Nat)))))
       (cond ((Nat.beq eq3 (2 : Nat)))
        (cond ((Nat.beq eq4 (0 : Nat)))
          (cond ((Nat.beq eq5 (2 : Nat)))
            (cond ((Nat.beq eq6 (1 : Nat)))
              ((0x401599999999999a : Nat))
             ((0x7FF8DEAD00000000 : Nat)))
           (cond ((Nat.beq eq5 (1 : Nat)))
            (cond ((Nat.beq eq6 (1 : Nat)))
              ((0x401c000000000000 : Nat))
             ((0x7FF8DEAD00000000 : Nat)))
           (cond ((Nat.beq eq5 (0 : Nat)))
            (cond ((Nat.beq eq6 (1 : Nat)))
              ((0x402099999999999a : Nat))
             ((0x7FF8DEAD00000000 : Nat)))
           ((0x7FF8DEAD00000000 : Nat)))))
         (cond ((Nat.beq eq4 (2 : Nat)))
          (cond ((Nat.beq eq5 (0 : Nat)))
            (cond ((Nat.beq eq6 (1 : Nat)))
              ((0x4015333333333333 : Nat))
             ((0x7FF8DEAD00000000 : Nat)))
           (cond ((Nat.beq eq5 (2 : Nat)))
            (cond ((Nat.beq eq6 (1 : Nat)))
              ((0x3ff4cccccccccccd : Nat))
             ((0x7FF8DEAD00000000 : Nat)))
           (cond ((Nat.beq eq5 (1 : Nat)))
            (cond ((Nat.beq eq6 (1 : Nat)))
              ((0x4000cccccccccccd : Nat))
             ((0x7FF8DEAD00000000 : Nat)))
           ((0x7FF8DEAD00000000 : Nat)))))
         (cond ((Nat.beq eq4 (1 : Nat)))
          (cond ((Nat.beq eq5 (1 : Nat)))
            (cond ((Nat.beq eq6 (1 : Nat)))
              ((0x4017333333333333 : Nat))
             ((0x7FF8DEAD00000000 : Nat)))
           (cond ((Nat.beq eq5 (2 : Nat)))
            (cond ((Nat.beq eq6 (1 : Nat)))
              ((0x4004cccccccccccd : Nat))
             ((0x7FF8DEAD00000000 : Nat)))
           (cond ((Nat.beq eq5 (0 : Nat)))
            (cond ((Nat.beq eq6 (1 : Nat)))
              ((0x401a000000000000 : Nat))
             ((0x7FF8DEAD00000000 : Nat)))
           ((0x7FF8DEAD00000000 : Nat)))))
         ((0x7FF8DEAD00000000 : Nat)))))
       ((0x7FF8DEAD00000000 : Nat)))))
     (cond ((Nat.beq eq2 (1 : Nat)))
      (cond ((Nat.beq eq3 (0 : Nat)))
        (cond ((Nat.beq eq4 (1 : Nat)))
          (cond ((Nat.beq eq5 (1 : Nat)))
            (cond ((Nat.beq eq6 (1 : Nat)))
              ((0x4018cccccccccccd : Nat))
             (cond ((Nat.beq eq6 (0 : Nat)))
              ((0x401e000000000000 : Nat))
             ((0x7FF8DEAD00000000 : Nat))))
           (cond ((Nat.beq eq5 (2 : Nat)))
            (cond ((Nat.beq eq6 (0 : Nat)))
              ((0x4018666666666666 : Nat))
             (cond ((Nat.beq eq6 (1 : Nat)))
              ((0x4015333333333333 : Nat))
             ((0x7FF8DEAD00000000 : Nat))))
           (cond ((Nat.beq eq5 (0 : Nat)))
            (cond ((Nat.beq eq6 (0 : Nat)))
              ((0x4022000000000000 : Nat))
             (cond ((Nat.beq eq6 (1 : Nat)))
              ((0x401ecccccccccccd : Nat))
             ((0x7FF8DEAD00000000 : Nat))))
           ((0x7FF8DEAD00000000 : Nat)))))
         (cond ((Nat.beq eq4 (0 : Nat)))
          (cond ((Nat.beq eq5 (0 : Nat)))
            (cond ((Nat.beq eq6 (1 : Nat)))
              ((0x4022000000000000 : Nat))
             (cond ((Nat.beq eq6 (0 : Nat)))
              ((0x4023000000000000 : Nat))
             ((0x7FF8DEAD00000000 : Nat))))
           (cond ((Nat.beq eq5 (1 : Nat)))
            (cond ((Nat.beq eq6 (0 : Nat)))
              ((0x402199999999999a : Nat))
             (cond ((Nat.beq eq6 (1 : Nat)))
              ((0x401e666666666666 : Nat))
             ((0x7FF8DEAD00000000 : Nat))))
           (cond ((Nat.beq eq5 (2 : Nat)))
            (cond ((Nat.beq eq6 (0 : Nat)))
              ((0x401e666666666666 : Nat))
             (cond ((Nat.beq eq6 (1 : Nat)))
              ((0x401c000000000000 : Nat))
             ((0x7FF8DEAD00000000 : Nat))))
           ((0x7FF8DEAD00000000 : Nat)))))
         (cond ((Nat.beq eq4 (2 : Nat)))
          (cond ((Nat.beq eq5 (2 : Nat)))
            (cond ((Nat.beq eq6 (0 : Nat)))
              ((0x4014cccccccccccd : Nat))
             (cond ((Nat.beq eq6 (1 : Nat)))
              ((0x4008000000000000 : Nat))
             ((0x7FF8DEAD00000000 : Nat))))
           (cond ((Nat.beq eq5 (0 : Nat)))
            (cond ((Nat.beq eq6 (1 : Nat)))
              ((0x401a666666666666 : Nat))
             (cond ((Nat.beq eq6 (0 : Nat)))
              ((0x401ecccccccccccd : Nat))
             ((0x7FF8DEAD00000000 : Nat))))
           (cond ((Nat.beq eq5 (1 : Nat)))
            (cond ((Nat.beq eq6 (1 : Nat)))
              ((0x401799999999999a : Nat))
             (cond ((Nat.beq eq6 (0 : Nat)))
              ((0x401b333333333333 : Nat))
             ((0x7FF8DEAD00000000 : Nat))))
           ((0x7FF8DEAD00000000 : Nat)))))
         ((0x7FF8DEAD00000000 : Nat)))))
       (cond ((Nat.beq eq3 (2 : Nat)))
        (cond ((Nat.beq eq4 (0 : Nat)))
          (cond ((Nat.beq eq5 (2 : Nat)))
            (cond ((Nat.beq eq6 (1 : Nat)))
              ((0x4008000000000000 : Nat))
             ((0x7FF8DEAD00000000 : Nat)))
           (cond ((Nat.beq eq5 (0 : Nat)))
            (cond ((Nat.beq eq6 (1 : Nat)))
              ((0x401c666666666666 : Nat))
             ((0x7FF8DEAD00000000 : Nat)))
           (cond ((Nat.beq eq5 (1 : Nat)))
            (cond ((Nat.beq eq6 (1 : Nat)))
              ((0x401799999999999a : Nat))
             ((0x7FF8DEAD00000000 : Nat)))
           ((0x7FF8DEAD00000000 : Nat)))))
         (cond ((Nat.beq eq4 (2 : Nat)))
          (cond ((Nat.beq eq5 (1 : Nat)))
            (cond ((Nat.beq eq6 (1 : Nat)))
              ((0x3ff4cccccccccccd : Nat))
             ((0x7FF8DEAD00000000 : Nat)))
           (cond ((Nat.beq eq5 (0 : Nat)))
            (cond ((Nat.beq eq6 (1 : Nat)))
              ((0x4002666666666666 : Nat))
             ((0x7FF8DEAD00000000 : Nat)))
           (cond ((Nat.beq eq5 (2 : Nat)))
            (cond ((Nat.beq eq6 (1 : Nat)))
              ((0x3fe3333333333333 : Nat))
             ((0x7FF8DEAD00000000 : Nat)))
           ((0x7FF8DEAD00000000 : Nat)))))
         (cond ((Nat.beq eq4 (1 : Nat)))
          (cond ((Nat.beq eq5 (1 : Nat)))
            (cond ((Nat.beq eq6 (1 : Nat)))
              ((0x4004cccccccccccd : Nat))
             ((0x7FF8DEAD00000000 : Nat)))
           (cond ((Nat.beq eq5 (0 : Nat)))
            (cond ((Nat.beq eq6 (1 : Nat)))
              ((0x4017333333333333 : Nat))
             ((0x7FF8DEAD00000000 : Nat)))
           (cond ((Nat.beq eq5 (2 : Nat)))
            (cond ((Nat.beq eq6 (1 : Nat)))
              ((0x3ff8000000000000 : Nat))
             ((0x7FF8DEAD00000000 : Nat)))
           ((0x7FF8DEAD00000000 : Nat)))))
         ((0x7FF8DEAD00000000 : Nat)))))
       (cond ((Nat.beq eq3 (1 : Nat)))
        (cond ((Nat.beq eq4 (0 : Nat)))
          (cond ((Nat.beq eq5 (0 : Nat)))
            (cond ((Nat.beq eq6 (0 : Nat)))
              ((0x4021cccccccccccd : Nat))
             (cond ((Nat.beq eq6 (1 : Nat)))
              ((0x401f333333333333 : Nat))
             ((0x7FF8DEAD00000000 : Nat))))
           (cond ((Nat.beq eq5 (2 : Nat)))
            (cond ((Nat.beq eq6 (0 : Nat)))
              ((0x4018cccccccccccd : Nat))
             (cond ((Nat.beq eq6 (1 : Nat)))
              ((0x4017333333333333 : Nat))
             ((0x7FF8DEAD00000000 : Nat))))
           (cond ((Nat.beq eq5 (1 : Nat)))
            (cond ((Nat.beq eq6 (1 : Nat)))
              ((0x401acccccccccccd : Nat))
             (cond ((Nat.beq eq6 (0 : Nat)))
              ((0x401e666666666666 : Nat))
             ((0x7FF8DEAD00000000 : Nat))))
           ((0x7FF8DEAD00000000 : Nat)))))
         (cond ((Nat.beq eq4 (2 : Nat)))
          (cond ((Nat.beq eq5 (0 : Nat)))
            (cond ((Nat.beq eq6 (1 : Nat)))
              ((0x4014cccccccccccd : Nat))
             (cond ((Nat.beq eq6 (0 : Nat)))
              ((0x4018666666666666 : Nat))
             ((0x7FF8DEAD00000000 : Nat))))
           (cond ((Nat.beq eq5 (2 : Nat)))
            (cond ((Nat.beq eq6 (0 : Nat)))
              ((0x4003333333333333 : Nat))
             (cond ((Nat.beq eq6 (1 : Nat)))
              ((0x3ff999999999999a : Nat))
             ((0x7FF8DEAD00000000 : Nat))))
           (cond ((Nat.beq eq5 (1 : Nat)))
            (cond ((Nat.beq eq6 (0 : Nat)))
              ((0x4016cccccccccccd : Nat))
             (cond ((Nat.beq eq6 (1 : Nat)))
              ((0x4007333333333333 : Nat))
             ((0x7FF8DEAD00000000 : Nat))))
           ((0x7FF8DEAD00000000 : Nat)))))
         (cond ((Nat.beq eq4 (1 : Nat)))
          (cond ((Nat.beq eq5 (1 : Nat)))
            (cond ((Nat.beq eq6 (0 : Nat)))
              ((0x4016cccccccccccd : Nat))
             (cond ((Nat.beq eq6 (1 : Nat)))
              ((0x4016cccccccccccd : Nat))
             ((0x7FF8DEAD00000000 : Nat))))
           (cond ((Nat.beq eq5 (2 : Nat)))
            (cond ((Nat.beq eq6 (1 : Nat)))
              ((0x4002666666666666 : Nat))
             (cond ((Nat.beq eq6 (0 : Nat)))
              ((0x4012cccccccccccd : Nat))
             ((0x7FF8DEAD00000000 : Nat))))
           (cond ((Nat.beq eq5 (0 : Nat)))
            (cond ((Nat.beq eq6 (1 : Nat)))
              ((0x401799999999999a : Nat))
             (cond ((Nat.beq eq6 (0 : Nat)))
              ((0x401d99999999999a : Nat))
             ((0x7FF8DEAD00000000 : Nat))))
           ((0x7FF8DEAD00000000 : Nat)))))
         ((0x7FF8DEAD00000000 : Nat)))))
       ((0x7FF8DEAD00000000 : Nat)))))
     ((0x7FF8DEAD00000000 : Nat))))
   (cond ((Nat.beq eq1 (2 : Nat)))
    (cond ((Nat.beq eq2 (1 : Nat)))
      (cond ((Nat.beq eq3 (2 : Nat)))
        (cond ((Nat.beq eq4 (2 : Nat)))
          (cond ((Nat.beq eq5 (0 : Nat)))
            (cond ((Nat.beq eq6 (1 : Nat)))
              ((0x3ff0000000000000 : Nat))
             ((0x7FF8DEAD00000000 : Nat)))
           (cond ((Nat.beq eq5 (1 : Nat)))
            (cond ((Nat.beq eq6 (1 : Nat)))
              ((0x3fd3333333333333 : Nat))
             ((0x7FF8DEAD00000000 : Nat)))
           (cond ((Nat.beq eq5 (2 : Nat)))
            (cond ((Nat.beq eq6 (1 : Nat)))
              ((0x3fb999999999999a : Nat))
             ((0x7FF8DEAD00000000 : Nat)))
           ((0x7FF8DEAD00000000 : Nat)))))
         (cond ((Nat.beq eq4 (0 : Nat)))
          (cond ((Nat.beq eq5 (1 : Nat)))
            (cond ((Nat.beq eq6 (1 : Nat)))
              ((0x4003333333333333 : Nat))
             ((0x7FF8DEAD00000000 : Nat)))
           (cond ((Nat.beq eq5 (2 : Nat)))
            (cond ((Nat.beq eq6 (1 : Nat)))
              ((0x3ff6666666666666 : Nat))
             ((0x7FF8DEAD00000000 : Nat)))
           (cond ((Nat.beq eq5 (0 : Nat)))
            (cond ((Nat.beq eq6 (1 : Nat)))
              ((0x4015333333333333 : Nat))
             ((0x7FF8DEAD00000000 : Nat)))
           ((0x7FF8DEAD00000000 : Nat)))))
         (cond ((Nat.beq eq4 (1 : Nat)))
          (cond ((Nat.beq eq5 (1 : Nat)))
            (cond ((Nat.beq eq6 (1 : Nat)))
              ((0x3ff3333333333333 : Nat))
             ((0x7FF8DEAD00000000 : Nat)))
           (cond ((Nat.beq eq5 (0 : Nat)))
            (cond ((Nat.beq eq6 (1 : Nat)))
              ((0x4003333333333333 : Nat))
             ((0x7FF8DEAD00000000 : Nat)))
           (cond ((Nat.beq eq5 (2 : Nat)))
            (cond ((Nat.beq eq6 (1 : Nat)))
              ((0x3fe0000000000000 : Nat))
             ((0x7FF8DEAD00000000 : Nat)))
           ((0x7FF8DEAD00000000 : Nat)))))
         ((0x7FF8DEAD00000000 : Nat)))))
       (cond ((Nat.beq eq3 (0 : Nat)))
        (cond ((Nat.beq eq4 (2 : Nat)))
          (cond ((Nat.beq eq5 (0 : Nat)))
            (cond ((Nat.beq eq6 (0 : Nat)))
              ((0x401599999999999a : Nat))
             (cond ((Nat.beq eq6 (1 : Nat)))
              ((0x4011333333333333 : Nat))
             ((0x7FF8DEAD00000000 : Nat))))
           (cond ((Nat.beq eq5 (1 : Nat)))
            (cond ((Nat.beq eq6 (1 : Nat)))
              ((0x400199999999999a : Nat))
             (cond ((Nat.beq eq6 (0 : Nat)))
              ((0x4012000000000000 : Nat))
             ((0x7FF8DEAD00000000 : Nat))))
           (cond ((Nat.beq eq5 (2 : Nat)))
            (cond ((Nat.beq eq6 (1 : Nat)))
              ((0x3ff199999999999a : Nat))
             (cond ((Nat.beq eq6 (0 : Nat)))
              ((0x4000000000000000 : Nat))
             ((0x7FF8DEAD00000000 : Nat))))
           ((0x7FF8DEAD00000000 : Nat)))))
         (cond ((Nat.beq eq4 (0 : Nat)))
          (cond ((Nat.beq eq5 (2 : Nat)))
            (cond ((Nat.beq eq6 (0 : Nat)))
              ((0x4018000000000000 : Nat))
             (cond ((Nat.beq eq6 (1 : Nat)))
              ((0x4014000000000000 : Nat))
             ((0x7FF8DEAD00000000 : Nat))))
           (cond ((Nat.beq eq5 (0 : Nat)))
            (cond ((Nat.beq eq6 (1 : Nat)))
              ((0x401e000000000000 : Nat))
             (cond ((Nat.beq eq6 (0 : Nat)))
              ((0x402199999999999a : Nat))
             ((0x7FF8DEAD00000000 : Nat))))
           (cond ((Nat.beq eq5 (1 : Nat)))
            (cond ((Nat.beq eq6 (0 : Nat)))
              ((0x401d333333333333 : Nat))
             (cond ((Nat.beq eq6 (1 : Nat)))
              ((0x4015333333333333 : Nat))
             ((0x7FF8DEAD00000000 : Nat))))
           ((0x7FF8DEAD00000000 : Nat)))))
         (cond ((Nat.beq eq4 (1 : Nat)))
          (cond ((Nat.beq eq5 (0 : Nat)))
            (cond ((Nat.beq eq6 (1 : Nat)))
              ((0x4016000000000000 : Nat))
             (cond ((Nat.beq eq6 (0 : Nat)))
              ((0x401d333333333333 : Nat))
             ((0x7FF8DEAD00000000 : Nat))))
           (cond ((Nat.beq eq5 (1 : Nat)))
            (cond ((Nat.beq eq6 (1 : Nat)))
              ((0x4010000000000000 : Nat))
             (cond ((Nat.beq eq6 (0 : Nat)))
              ((0x401799999999999a : Nat))
             ((0x7FF8DEAD00000000 : Nat))))
           (cond ((Nat.beq eq5 (2 : Nat)))
            (cond ((Nat.beq eq6 (0 : Nat)))
              ((0x4010666666666666 : Nat))
             (cond ((Nat.beq eq6 (1 : Nat)))
              ((0x4000000000000000 : Nat))
             ((0x7FF8DEAD00000000 : Nat))))
           ((0x7FF8DEAD00000000 : Nat)))))
         ((0x7FF8DEAD00000000 : Nat)))))
       (cond ((Nat.beq eq3 (1 : Nat)))
        (cond ((Nat.beq eq4 (0 : Nat)))
          (cond ((Nat.beq eq5 (2 : Nat)))
            (cond ((Nat.beq eq6 (0 : Nat)))
              ((0x4010000000000000 : Nat))
             (cond ((Nat.beq eq6 (1 : Nat)))
              ((0x4000cccccccccccd : Nat))
             ((0x7FF8DEAD00000000 : Nat))))
           (cond ((Nat.beq eq5 (1 : Nat)))
            (cond ((Nat.beq eq6 (0 : Nat)))
              ((0x4017333333333333 : Nat))
             (cond ((Nat.beq eq6 (1 : Nat)))
              ((0x4012000000000000 : Nat))
             ((0x7FF8DEAD00000000 : Nat))))
           (cond ((Nat.beq eq5 (0 : Nat)))
            (cond ((Nat.beq eq6 (1 : Nat)))
              ((0x4016000000000000 : Nat))
             (cond ((Nat.beq eq6 (0 : Nat)))
              ((0x401e000000000000 : Nat))
             ((0x7FF8DEAD00000000 : Nat))))
           ((0x7FF8DEAD00000000 : Nat)))))
         (cond ((Nat.beq eq4 (2 : Nat)))
          (cond ((Nat.beq eq5 (0 : Nat)))
            (cond ((Nat.beq eq6 (0 : Nat)))
              ((0x4012666666666666 : Nat))
             (cond ((Nat.beq eq6 (1 : Nat)))
              ((0x3ffccccccccccccd : Nat))
             ((0x7FF8DEAD00000000 : Nat))))
           (cond ((Nat.beq eq5 (1 : Nat)))
            (cond ((Nat.beq eq6 (1 : Nat)))
              ((0x3fe6666666666666 : Nat))
             (cond ((Nat.beq eq6 (0 : Nat)))
              ((0x3ffb333333333333 : Nat))
             ((0x7FF8DEAD00000000 : Nat))))
           (cond ((Nat.beq eq5 (2 : Nat)))
            (cond ((Nat.beq eq6 (0 : Nat)))
              ((0x3fe999999999999a : Nat))
             (cond ((Nat.beq eq6 (1 : Nat)))
              ((0x3fc999999999999a : Nat))
             ((0x7FF8DEAD00000000 : Nat))))
           ((0x7FF8DEAD00000000 : Nat)))))
         (cond ((Nat.beq eq4 (1 : Nat)))
          (cond ((Nat.beq eq5 (2 : Nat)))
            (cond ((Nat.beq eq6 (1 : Nat)))
              ((0x3feccccccccccccd : Nat))
             (cond ((Nat.beq eq6 (0 : Nat)))
              ((0x4000000000000000 : Nat))
             ((0x7FF8DEAD00000000 : Nat))))
           (cond ((Nat.beq eq5 (1 : Nat)))
            (cond ((Nat.beq eq6 (0 : Nat)))
              ((0x4013333333333333 : Nat))
             (cond ((Nat.beq eq6 (1 : Nat)))
              ((0x3ffccccccccccccd : Nat))
             ((0x7FF8DEAD00000000 : Nat))))
           (cond ((Nat.beq eq5 (0 : Nat)))
            (cond ((Nat.beq eq6 (0 : Nat)))
              ((0x4018666666666666 : Nat))
             (cond ((Nat.beq eq6 (1 : Nat)))
              ((0x4014666666666666 : Nat))
             ((0x7FF8DEAD00000000 : Nat))))
           ((0x7FF8DEAD00000000 : Nat)))))
         ((0x7FF8DEAD00000000 : Nat)))))
       ((0x7FF8DEAD00000000 : Nat)))))
     (cond ((Nat.beq eq2 (0 : Nat)))
      (cond ((Nat.beq eq3 (0 : Nat)))
        (cond ((Nat.beq eq4 (1 : Nat)))
          (cond ((Nat.beq eq5 (1 : Nat)))
            (cond ((Nat.beq eq6 (1 : Nat)))
              ((0x4018666666666666 : Nat))
             (cond ((Nat.beq eq6 (0 : Nat)))
              ((0x401d99999999999a : Nat))
             ((0x7FF8DEAD00000000 : Nat))))
           (cond ((Nat.beq eq5 (2 : Nat)))
            (cond ((Nat.beq eq6 (0 : Nat)))
              ((0x4016666666666666 : Nat))
             (cond ((Nat.beq eq6 (1 : Nat)))
              ((0x400b333333333333 : Nat))
             ((0x7FF8DEAD00000000 : Nat))))
           (cond ((Nat.beq eq5 (0 : Nat)))
            (cond ((Nat.beq eq6 (1 : Nat)))
              ((0x401d99999999999a : Nat))
             (cond ((Nat.beq eq6 (0 : Nat)))
              ((0x4021333333333333 : Nat))
             ((0x7FF8DEAD00000000 : Nat))))
           ((0x7FF8DEAD00000000 : Nat)))))
         (cond ((Nat.beq eq4 (0 : Nat)))
          (cond ((Nat.beq eq5 (0 : Nat)))
            (cond ((Nat.beq eq6 (1 : Nat)))
              ((0x4021666666666666 : Nat))
             (cond ((Nat.beq eq6 (0 : Nat)))
              ((0x402299999999999a : Nat))
             ((0x7FF8DEAD00000000 : Nat))))
           (cond ((Nat.beq eq5 (2 : Nat)))
            (cond ((Nat.beq eq6 (0 : Nat)))
              ((0x401e000000000000 : Nat))
             (cond ((Nat.beq eq6 (1 : Nat)))
              ((0x4017333333333333 : Nat))
             ((0x7FF8DEAD00000000 : Nat))))
           (cond ((Nat.beq eq5 (1 : Nat)))
            (cond ((Nat.beq eq6 (1 : Nat)))
              ((0x401ccccccccccccd : Nat))
             (cond ((Nat.beq eq6 (0 : Nat)))
              ((0x4021333333333333 : Nat))
             ((0x7FF8DEAD00000000 : Nat))))
           ((0x7FF8DEAD00000000 : Nat)))))
         (cond ((Nat.beq eq4 (2 : Nat)))
          (cond ((Nat.beq eq5 (1 : Nat)))
            (cond ((Nat.beq eq6 (1 : Nat)))
              ((0x4010000000000000 : Nat))
             (cond ((Nat.beq eq6 (0 : Nat)))
              ((0x4014cccccccccccd : Nat))
             ((0x7FF8DEAD00000000 : Nat))))
           (cond ((Nat.beq eq5 (0 : Nat)))
            (cond ((Nat.beq eq6 (0 : Nat)))
              ((0x401c000000000000 : Nat))
             (cond ((Nat.beq eq6 (1 : Nat)))
              ((0x401599999999999a : Nat))
             ((0x7FF8DEAD00000000 : Nat))))
           (cond ((Nat.beq eq5 (2 : Nat)))
            (cond ((Nat.beq eq6 (1 : Nat)))
              ((0x400199999999999a : Nat))
             (cond ((Nat.beq eq6 (0 : Nat)))
              ((0x4010000000000000 : Nat))
             ((0x7FF8DEAD00000000 : Nat))))
           ((0x7FF8DEAD00000000 : Nat)))))
         ((0x7FF8DEAD00000000 : Nat)))))
       (cond ((Nat.beq eq3 (1 : Nat)))
        (cond ((Nat.beq eq4 (1 : Nat)))
          (cond ((Nat.beq eq5 (2 : Nat)))
            (cond ((Nat.beq eq6 (0 : Nat)))
              ((0x4012666666666666 : Nat))
             (cond ((Nat.beq eq6 (1 : Nat)))
              ((0x3ffe666666666666 : Nat))
             ((0x7FF8DEAD00000000 : Nat))))
           (cond ((Nat.beq eq5 (0 : Nat)))
            (cond ((Nat.beq eq6 (0 : Nat)))
              ((0x401ccccccccccccd : Nat))
             (cond ((Nat.beq eq6 (1 : Nat)))
              ((0x4016cccccccccccd : Nat))
             ((0x7FF8DEAD00000000 : Nat))))
           (cond ((Nat.beq eq5 (1 : Nat)))
            (cond ((Nat.beq eq6 (1 : Nat)))
              ((0x4010666666666666 : Nat))
             (cond ((Nat.beq eq6 (0 : Nat)))
              ((0x4016000000000000 : Nat))
             ((0x7FF8DEAD00000000 : Nat))))
           ((0x7FF8DEAD00000000 : Nat)))))
         (cond ((Nat.beq eq4 (2 : Nat)))
          (cond ((Nat.beq eq5 (1 : Nat)))
            (cond ((Nat.beq eq6 (1 : Nat)))
              ((0x3ffe666666666666 : Nat))
             (cond ((Nat.beq eq6 (0 : Nat)))
              ((0x400b333333333333 : Nat))
             ((0x7FF8DEAD00000000 : Nat))))
           (cond ((Nat.beq eq5 (2 : Nat)))
            (cond ((Nat.beq eq6 (0 : Nat)))
              ((0x3ffe666666666666 : Nat))
             (cond ((Nat.beq eq6 (1 : Nat)))
              ((0x3fe999999999999a : Nat))
             ((0x7FF8DEAD00000000 : Nat))))
           (cond ((Nat.beq eq5 (0 : Nat)))
            (cond ((Nat.beq eq6 (0 : Nat)))
              ((0x4015333333333333 : Nat))
             (cond ((Nat.beq eq6 (1 : Nat)))
              ((0x400ccccccccccccd : Nat))
             ((0x7FF8DEAD00000000 : Nat))))
           ((0x7FF8DEAD00000000 : Nat)))))
         (cond ((Nat.beq eq4 (0 : Nat)))
          (cond ((Nat.beq eq5 (2 : Nat)))
            (cond ((Nat.beq eq6 (1 : Nat)))
              ((0x4014666666666666 : Nat))
             (cond ((Nat.beq eq6 (0 : Nat)))
              ((0x4018cccccccccccd : Nat))
             ((0x7FF8DEAD00000000 : Nat))))
           (cond ((Nat.beq eq5 (1 : Nat)))
            (cond ((Nat.beq eq6 (0 : Nat)))
              ((0x401d99999999999a : Nat))
             (cond ((Nat.beq eq6 (1 : Nat)))
              ((0x4016000000000000 : Nat))
             ((0x7FF8DEAD00000000 : Nat))))
           (cond ((Nat.beq eq5 (0 : Nat)))
            (cond ((Nat.beq eq6 (0 : Nat)))
              ((0x4021000000000000 : Nat))
             (cond ((Nat.beq eq6 (1 : Nat)))
              ((0x401e000000000000 : Nat))
             ((0x7FF8DEAD00000000 : Nat))))
           ((0x7FF8DEAD00000000 : Nat)))))
         ((0x7FF8DEAD00000000 : Nat)))))
       (cond ((Nat.beq eq3 (2 : Nat)))
        (cond ((Nat.beq eq4 (1 : Nat)))
          (cond ((Nat.beq eq5 (0 : Nat)))
            (cond ((Nat.beq eq6 (1 : Nat)))
              ((0x4012cccccccccccd : Nat))
             ((0x7FF8DEAD00000000 : Nat)))
           (cond ((Nat.beq eq5 (1 : Nat)))
            (cond ((Nat.beq eq6 (1 : Nat)))
              ((0x4000cccccccccccd : Nat))
             ((0x7FF8DEAD00000000 : Nat)))
           (cond ((Nat.beq eq5 (2 : Nat)))
            (cond ((Nat.beq eq6 (1 : Nat)))
              ((0x3ff199999999999a : Nat))
             ((0x7FF8DEAD00000000 : Nat)))
           ((0x7FF8DEAD00000000 : Nat)))))
         (cond ((Nat.beq eq4 (0 : Nat)))
          (cond ((Nat.beq eq5 (0 : Nat)))
            (cond ((Nat.beq eq6 (1 : Nat)))
              ((0x401999999999999a : Nat))
             ((0x7FF8DEAD00000000 : Nat)))
           (cond ((Nat.beq eq5 (1 : Nat)))
            (cond ((Nat.beq eq6 (1 : Nat)))
              ((0x4014666666666666 : Nat))
             ((0x7FF8DEAD00000000 : Nat)))
           (cond ((Nat.beq eq5 (2 : Nat)))
            (cond ((Nat.beq eq6 (1 : Nat)))
              ((0x4000000000000000 : Nat))
             ((0x7FF8DEAD00000000 : Nat)))
           ((0x7FF8DEAD00000000 : Nat)))))
         (cond ((Nat.beq eq4 (2 : Nat)))
          (cond ((Nat.beq eq5 (0 : Nat)))
            (cond ((Nat.beq eq6 (1 : Nat)))
              ((0x4003333333333333 : Nat))
             ((0x7FF8DEAD00000000 : Nat)))
           (cond ((Nat.beq eq5 (2 : Nat)))
            (cond ((Nat.beq eq6 (1 : Nat)))
              ((0x3fd999999999999a : Nat))
             ((0x7FF8DEAD00000000 : Nat)))
           (cond ((Nat.beq eq5 (1 : Nat)))
            (cond ((Nat.beq eq6 (1 : Nat)))
              ((0x3feccccccccccccd : Nat))
             ((0x7FF8DEAD00000000 : Nat)))
           ((0x7FF8DEAD00000000 : Nat)))))
         ((0x7FF8DEAD00000000 : Nat)))))
       ((0x7FF8DEAD00000000 : Nat)))))
     ((0x7FF8DEAD00000000 : Nat))))
   ((0x7FF8DEAD00000000 : Nat))))

/-- abs  (cvss40.go) -/
def abs_ (x : Nat) : Nat :=
  cond (F64.lt x (0x0000000000000000 : Nat))
    ((F64.neg x))
    (x)

/-- table highestSeverityVectors (max.go) -/
def tbl_highestSeverityVectors : (List (List (List Nat))) :=
  [[], [[20], [120, 10, 21], [320, 111]], [[10], [11, 0]], [], [[33], [0], [111]], [[1], [2], [3]]]

/-- table highestSeverityVectorsEQ3EQ6 (max.go) -/
def tbl_highestSeverityVectorsEQ3EQ6 : (List (List (List Nat))) :=
  [[[111], [1221, 222]], [[100111, 10111], [10212, 11211, 100122, 101121, 110112]], [[], [111111]]]

/-- table sevIdx (severity.go) -/
def tbl_sevIdx : (List (List Nat)) :=
  [[0, 1, 2, 3], [1, 0], [0, 1], [2, 1, 0], [0, 1, 2], [0, 1, 2], [0, 1, 2], [0, 1, 2], [0, 1, 2], [3, 0, 1, 2], [3, 0, 1, 2], [1, 2, 3], [1, 2, 3], [1, 2, 3], [1, 2, 3]]

/-- index_ok  (zz_ok.go) -/
def index_ok (slc : (List Nat)) (val : Nat) : Bool :=
  let okResult := true
  F64.flet (0x0000000000000000 : Nat) fun i =>
  match Go.forRange slc i (fun v i =>
      cond (Nat.beq v val)
        (Go.Ctl.ret okResult)
        (F64.flet (F64.add i (0x3ff0000000000000 : Nat)) fun i =>
        Go.Ctl.next i)) with
  | Go.Ctl.ret r => r
  | Go.Ctl.brk i => false
  | Go.Ctl.next i =>
  let okResult := false
  okResult

/-- severityDistance_ok  (zz_ok.go) -/
def severityDistance_ok (metric : Nat) (vecVal : Nat) (mxVal : Nat) : Bool :=
  let okResult := true
  let okResult := (okResult && (Nat.blt metric (List.length GenK40.tbl_sevIdx)))
  let values := (Go.idx GenK40.tbl_sevIdx metric)
  (okResult && ((GenK40.index_ok values vecVal) && (GenK40.index_ok values mxVal)))

/-- index  (severity.go) -/
def index_ (slc : (List Nat)) (val : Nat) : Nat :=
  F64.flet (0x0000000000000000 : Nat) fun i =>
  match Go.forRange slc i (fun v i =>
      cond (Nat.beq v val)
        (Go.Ctl.ret i)
        (F64.flet (F64.add i (0x3ff0000000000000 : Nat)) fun i =>
        Go.Ctl.next i)) with
  | Go.Ctl.ret r => r
  | Go.Ctl.brk i => (0x7FF8DEAD00000000 : Nat)
  | Go.Ctl.next i =>
  (0x7FF8DEAD00000000 : Nat)

/-- severityDistance  (severity.go) -/
def severityDistance (metric : Nat) (vecVal : Nat) (mxVal : Nat) : Nat :=
  let values := (Go.idx GenK40.tbl_sevIdx metric)
  (F64.sub (GenK40.index_ values vecVal) (GenK40.index_ values mxVal))

/-- getDepth_ok  (zz_ok.go) -/
def getDepth_ok (eq : Nat) (level : Nat) : Bool :=
  let okResult := true
  cond ((Nat.beq eq (1 : Nat)))
    (cond ((Nat.beq level (0 : Nat)))
      (okResult)
     (cond ((Nat.beq level (1 : Nat)))
      (okResult)
     (cond ((Nat.beq level (2 : Nat)))
      (okResult)
     (let okResult := false
      okResult))))
   (cond ((Nat.beq eq (2 : Nat)))
    (cond ((Nat.beq level (0 : Nat)))
      (okResult)
     (cond ((Nat.beq level (1 : Nat)))
      (okResult)
     (let okResult := false
      okResult)))
   (cond ((Nat.beq eq (4 : Nat)))
    (cond ((Nat.beq level (0 : Nat)))
      (okResult)
     (cond ((Nat.beq level (1 : Nat)))
      (okResult)
     (cond ((Nat.beq level (2 : Nat)))
      (okResult)
     (let okResult := false
      okResult))))
   (cond ((Nat.beq eq (5 : Nat)))
    (okResult)
   (let okResult := false
    okResult))))

/-- getDepth  (depth.go) -/
def getDepth (eq : Nat) (level : Nat) : Nat :=
  cond ((Nat.beq eq (1 : Nat)))
    (cond ((Nat.beq level (0 : Nat)))
      ((0x0000000000000000 : Nat))
     (cond ((Nat.beq level (1 : Nat)))
      ((0x4008000000000000 : Nat))
     (cond ((Nat.beq level (2 : Nat)))
      ((0x4010000000000000 : Nat))
     ((0x7FF8DEAD00000000 : Nat)))))
   (cond ((Nat.beq eq (2 : Nat)))
    (cond ((Nat.beq level (0 : Nat)))
      ((0x0000000000000000 : Nat))
     (cond ((Nat.beq level (1 : Nat)))
      ((0x3ff0000000000000 : Nat))
     ((0x7FF8DEAD00000000 : Nat))))
   (cond ((Nat.beq eq (4 : Nat)))
    (cond ((Nat.beq level (0 : Nat)))
      ((0x4014000000000000 : Nat))
     (cond ((Nat.beq level (1 : Nat)))
      ((0x4010000000000000 : Nat))
     (cond ((Nat.beq level (2 : Nat)))
      ((0x4008000000000000 : Nat))
     ((0x7FF8DEAD00000000 : Nat)))))
   (cond ((Nat.beq eq (5 : Nat)))
    ((0x0000000000000000 : Nat))
   ((0x7FF8DEAD00000000 : Nat)))))

/-- getDepthEQ3EQ6_ok  (zz_ok.go) -/
def getDepthEQ3EQ6_ok (leveleq3 : Nat) (leveleq6 : Nat) : Bool :=
  let okResult := true
  cond ((Nat.beq leveleq3 (0 : Nat)))
    (cond ((Nat.beq leveleq6 (0 : Nat)))
      (okResult)
     (cond ((Nat.beq leveleq6 (1 : Nat)))
      (okResult)
     (let okResult := false
      okResult)))
   (cond ((Nat.beq leveleq3 (1 : Nat)))
    (okResult)
   (cond ((Nat.beq leveleq3 (2 : Nat)))
    (okResult)
   (let okResult := false
    okResult)))

/-- getDepthEQ3EQ6  (depth.go) -/
def getDepthEQ3EQ6 (leveleq3 : Nat) (leveleq6 : Nat) : Nat :=
  cond ((Nat.beq leveleq3 (0 : Nat)))
    (cond ((Nat.beq leveleq6 (0 : Nat)))
      ((0x4018000000000000 : Nat))
     (cond ((Nat.beq leveleq6 (1 : Nat)))
      ((0x4014000000000000 : Nat))
     ((0x7FF8DEAD00000000 : Nat))))
   (cond ((Nat.beq leveleq3 (1 : Nat)))
    ((0x401c000000000000 : Nat))
   (cond ((Nat.beq leveleq3 (2 : Nat)))
    ((0x4022000000000000 : Nat))
   ((0x7FF8DEAD00000000 : Nat))))

/-- Score_ok  (zz_ok.go) -/
--   r0 := (Nat.shiftRight (Nat.land u0 (192 : Nat)) (6 : Nat))
--   r1 := (Nat.shiftRight (Nat.land u3 (14 : Nat)) (1 : Nat))
--   r2 := (Nat.shiftRight (Nat.land u0 (32 : Nat)) (5 : Nat))
--   r3 := (Nat.lor (Nat.mod (Nat.shiftLeft (Nat.land u3 (1 : Nat)) (1 : Nat)) 256) (Nat.shiftRight (Nat.land u4 (128 : Nat)) (7 : Nat)))
--   r4 := (Nat.shiftRight (Nat.land u0 (16 : Nat)) (4 : Nat))
--   r5 := (Nat.shiftRight (Nat.land u4 (96 : Nat)) (5 : Nat))
--   r6 := (Nat.shiftRight (Nat.land u0 (12 : Nat)) (2 : Nat))
--   r7 := (Nat.shiftRight (Nat.land u4 (24 : Nat)) (3 : Nat))
--   r8 := (Nat.land u0 (3 : Nat))
--   r9 := (Nat.shiftRight (Nat.land u4 (6 : Nat)) (1 : Nat))
--   r10 := (Nat.shiftRight (Nat.land u1 (192 : Nat)) (6 : Nat))
--   r11 := (Nat.lor (Nat.mod (Nat.shiftLeft (Nat.land u4 (1 : Nat)) (1 : Nat)) 256) (Nat.shiftRight (Nat.land u5 (128 : Nat)) (7 : Nat)))
--   r12 := (Nat.shiftRight (Nat.land u1 (48 : Nat)) (4 : Nat))
--   r13 := (Nat.shiftRight (Nat.land u5 (6 : Nat)) (1 : Nat))
--   r14 := (Nat.shiftRight (Nat.land u1 (12 : Nat)) (2 : Nat))
--   r15 := (Nat.shiftRight (Nat.land u5 (96 : Nat)) (5 : Nat))
--   r16 := (Nat.land u1 (3 : Nat))
--   r17 := (Nat.lor (Nat.mod (Nat.shiftLeft (Nat.land u5 (1 : Nat)) (2 : Nat)) 256) (Nat.shiftRight (Nat.land u6 (192 : Nat)) (6 : Nat)))
--   r18 := (Nat.shiftRight (Nat.land u2 (192 : Nat)) (6 : Nat))
--   r19 := (Nat.shiftRight (Nat.land u5 (24 : Nat)) (3 : Nat))
--   r20 := (Nat.shiftRight (Nat.land u2 (48 : Nat)) (4 : Nat))
--   r21 := (Nat.shiftRight (Nat.land u6 (56 : Nat)) (3 : Nat))
--   r22 := (Nat.land u2 (3 : Nat))
--   r23 := (Nat.shiftRight (Nat.land u3 (192 : Nat)) (6 : Nat))
--   r24 := (Nat.shiftRight (Nat.land u3 (48 : Nat)) (4 : Nat))
--   r25 := (Nat.shiftRight (Nat.land u2 (12 : Nat)) (2 : Nat))
def Score_ok_core (r0 : Nat) (r1 : Nat) (r2 : Nat) (r3 : Nat) (r4 : Nat) (r5 : Nat) (r6 : Nat) (r7 : Nat) (r8 : Nat) (r9 : Nat) (r10 : Nat) (r11 : Nat) (r12 : Nat) (r13 : Nat) (r14 : Nat) (r15 : Nat) (r16 : Nat) (r17 : Nat) (r18 : Nat) (r19 : Nat) (r20 : Nat) (r21 : Nat) (r22 : Nat) (r23 : Nat) (r24 : Nat) (r25 : Nat) : Bool :=
  let okResult := true
  F64.flet (GenK40.mod_ r0 r1) fun avVal =>
  F64.flet (GenK40.mod_ r2 r3) fun acVal =>
  F64.flet (GenK40.mod_ r4 r5) fun atVal =>
  F64.flet (GenK40.mod_ r6 r7) fun prVal =>
  F64.flet (GenK40.mod_ r8 r9) fun uiVal =>
  F64.flet (GenK40.mod_ r10 r11) fun vcVal =>
  F64.flet (GenK40.mod_ r12 r13) fun scVal =>
  F64.flet (GenK40.mod_ r14 r15) fun viVal =>
  F64.flet (GenK40.mod_ r16 r17) fun siVal =>
  F64.flet (GenK40.mod_ r18 r19) fun vaVal =>
  F64.flet (GenK40.mod_ r20 r21) fun saVal =>
  cond ((((((Nat.beq vcVal (2 : Nat)) && (Nat.beq viVal (2 : Nat))) && (Nat.beq vaVal (2 : Nat))) && (Nat.beq scVal (2 : Nat))) && (Nat.beq siVal (2 : Nat))) && (Nat.beq saVal (2 : Nat)))
    (okResult)
    (F64.flet r22 fun crVal =>
    match (cond (Nat.beq crVal (0 : Nat))
      (F64.flet (1 : Nat) fun crVal =>
      crVal)
      (crVal)) with
    | crVal =>
    F64.flet r23 fun irVal =>
    match (cond (Nat.beq irVal (0 : Nat))
      (F64.flet (1 : Nat) fun irVal =>
      irVal)
      (irVal)) with
    | irVal =>
    F64.flet r24 fun arVal =>
    match (cond (Nat.beq arVal (0 : Nat))
      (F64.flet (1 : Nat) fun arVal =>
      arVal)
      (arVal)) with
    | arVal =>
    match (GenK40.macroVector_core r0 r1 r2 r3 r4 r5 r6 r7 r8 r9 r10 r11 r12 r13 r14 r15 r17 r16 r18 r19 r21 r20 r25 r22 r23 r24) with
    | (eq1, eq2, eq3, eq4, eq5, eq6) =>
    let okResult := (okResult && (GenK40.lookupMV_ok eq1 eq2 eq3 eq4 eq5 eq6))
    F64.flet (GenK40.lookupMV eq1 eq2 eq3 eq4 eq5 eq6) fun eqsv =>
    F64.flet (0 : Nat) fun lower =>
    F64.flet F64.NAN fun eq1nlm =>
    match (cond (Nat.blt eq1 (2 : Nat))
      (let okResult := (okResult && (GenK40.lookupMV_ok (Nat.add eq1 (1 : Nat)) eq2 eq3 eq4 eq5 eq6))
      F64.flet (GenK40.lookupMV (Nat.add eq1 (1 : Nat)) eq2 eq3 eq4 eq5 eq6) fun eq1nlm =>
      F64.flet (Nat.add lower (1 : Nat)) fun lower =>
      (okResult, eq1nlm, lower))
      ((okResult, eq1nlm, lower))) with
    | (okResult, eq1nlm, lower) =>
    F64.flet F64.NAN fun eq2nlm =>
    match (cond (Nat.blt eq2 (1 : Nat))
      (let okResult := (okResult && (GenK40.lookupMV_ok eq1 (Nat.add eq2 (1 : Nat)) eq3 eq4 eq5 eq6))
      F64.flet (GenK40.lookupMV eq1 (Nat.add eq2 (1 : Nat)) eq3 eq4 eq5 eq6) fun eq2nlm =>
      F64.flet (Nat.add lower (1 : Nat)) fun lower =>
      (okResult, eq2nlm, lower))
      ((okResult, eq2nlm, lower))) with
    | (okResult, eq2nlm, lower) =>
    F64.flet F64.NAN fun eq4nlm =>
    match (cond (Nat.blt eq4 (2 : Nat))
      (let okResult := (okResult && (GenK40.lookupMV_ok eq1 eq2 eq3 (Nat.add eq4 (1 : Nat)) eq5 eq6))
      F64.flet (GenK40.lookupMV eq1 eq2 eq3 (Nat.add eq4 (1 : Nat)) eq5 eq6) fun eq4nlm =>
      F64.flet (Nat.add lower (1 : Nat)) fun lower =>
      (okResult, eq4nlm, lower))
      ((okResult, eq4nlm, lower))) with
    | (okResult, eq4nlm, lower) =>
    F64.flet F64.NAN fun eq5nlm =>
    match (cond (Nat.blt eq5 (2 : Nat))
      (let okResult := (okResult && (GenK40.lookupMV_ok eq1 eq2 eq3 eq4 (Nat.add eq5 (1 : Nat)) eq6))
      F64.flet (GenK40.lookupMV eq1 eq2 eq3 eq4 (Nat.add eq5 (1 : Nat)) eq6) fun eq5nlm =>
      F64.flet (Nat.add lower (1 : Nat)) fun lower =>
      (okResult, eq5nlm, lower))
      ((okResult, eq5nlm, lower))) with
    | (okResult, eq5nlm, lower) =>
    F64.flet F64.NAN fun eq3eq6nlm =>
    match (cond ((Nat.beq eq3 (1 : Nat)) && (Nat.beq eq6 (1 : Nat)))
      (let okResult := (okResult && (GenK40.lookupMV_ok eq1 eq2 (Nat.add eq3 (1 : Nat)) eq4 eq5 eq6))
      F64.flet (GenK40.lookupMV eq1 eq2 (Nat.add eq3 (1 : Nat)) eq4 eq5 eq6) fun eq3eq6nlm =>
      F64.flet (Nat.add lower (1 : Nat)) fun lower =>
      (okResult, eq3eq6nlm, lower))
      (match (cond ((Nat.beq eq3 (0 : Nat)) && (Nat.beq eq6 (1 : Nat)))
        (let okResult := (okResult && (GenK40.lookupMV_ok eq1 eq2 (Nat.add eq3 (1 : Nat)) eq4 eq5 eq6))
        F64.flet (GenK40.lookupMV eq1 eq2 (Nat.add eq3 (1 : Nat)) eq4 eq5 eq6) fun eq3eq6nlm =>
        F64.flet (Nat.add lower (1 : Nat)) fun lower =>
        (okResult, eq3eq6nlm, lower))
        (match (cond ((Nat.beq eq3 (1 : Nat)) && (Nat.beq eq6 (0 : Nat)))
          (let okResult := (okResult && (GenK40.lookupMV_ok eq1 eq2 eq3 eq4 eq5 (Nat.add eq6 (1 : Nat))))
          F64.flet (GenK40.lookupMV eq1 eq2 eq3 eq4 eq5 (Nat.add eq6 (1 : Nat))) fun eq3eq6nlm =>
          F64.flet (Nat.add lower (1 : Nat)) fun lower =>
          (okResult, eq3eq6nlm, lower))
          (match (cond ((Nat.beq eq3 (0 : Nat)) && (Nat.beq eq6 (0 : Nat)))
            (let okResult := (okResult && (GenK40.lookupMV_ok eq1 eq2 (Nat.add eq3 (1 : Nat)) eq4 eq5 eq6))
            F64.flet (GenK40.lookupMV eq1 eq2 (Nat.add eq3 (1 : Nat)) eq4 eq5 eq6) fun eq3eq6nlm =>
            let okResult := (okResult && (GenK40.lookupMV_ok eq1 eq2 eq3 eq4 eq5 (Nat.add eq6 (1 : Nat))))
            F64.flet (GenK40.lookupMV eq1 eq2 eq3 eq4 eq5 (Nat.add eq6 (1 : Nat))) fun eq6nlm =>
            match (cond (F64.lt eq3eq6nlm eq6nlm)
              (F64.flet eq6nlm fun eq3eq6nlm =>
              eq3eq6nlm)
              (eq3eq6nlm)) with
            | eq3eq6nlm =>
            F64.flet (Nat.add lower (1 : Nat)) fun lower =>
            (okResult, eq3eq6nlm, lower))
            ((okResult, eq3eq6nlm, lower))) with
          | (okResult, eq3eq6nlm, lower) =>
          (okResult, eq3eq6nlm, lower))) with
        | (okResult, eq3eq6nlm, lower) =>
        (okResult, eq3eq6nlm, lower))) with
      | (okResult, eq3eq6nlm, lower) =>
      (okResult, eq3eq6nlm, lower))) with
    | (okResult, eq3eq6nlm, lower) =>
    F64.flet (GenK40.abs_ (F64.sub eq1nlm eqsv)) fun eq1msd =>
    match (cond (F64.isNaN eq1msd)
      (F64.flet (0x0000000000000000 : Nat) fun eq1msd =>
      eq1msd)
      (eq1msd)) with
    | eq1msd =>
    F64.flet (GenK40.abs_ (F64.sub eq2nlm eqsv)) fun eq2msd =>
    match (cond (F64.isNaN eq2msd)
      (F64.flet (0x0000000000000000 : Nat) fun eq2msd =>
      eq2msd)
      (eq2msd)) with
    | eq2msd =>
    F64.flet (GenK40.abs_ (F64.sub eq3eq6nlm eqsv)) fun eq3eq6msd =>
    match (cond (F64.isNaN eq3eq6msd)
      (F64.flet (0x0000000000000000 : Nat) fun eq3eq6msd =>
      eq3eq6msd)
      (eq3eq6msd)) with
    | eq3eq6msd =>
    F64.flet (GenK40.abs_ (F64.sub eq4nlm eqsv)) fun eq4msd =>
    match (cond (F64.isNaN eq4msd)
      (F64.flet (0x0000000000000000 : Nat) fun eq4msd =>
      eq4msd)
      (eq4msd)) with
    | eq4msd =>
    F64.flet (GenK40.abs_ (F64.sub eq5nlm eqsv)) fun eq5msd =>
    match (cond (F64.isNaN eq5msd)
      (F64.flet (0x0000000000000000 : Nat) fun eq5msd =>
      eq5msd)
      (eq5msd)) with
    | eq5msd =>
    F64.flet (0 : Nat) fun eq1svdst =>
    F64.flet (0 : Nat) fun eq2svdst =>
    F64.flet (0 : Nat) fun eq3eq6svdst =>
    F64.flet (0 : Nat) fun eq4svdst =>
    F64.flet (0 : Nat) fun eq5svdst =>
    let okResult := (okResult && ((Nat.blt (1 : Nat) (List.length GenK40.tbl_highestSeverityVectors)) && (Nat.blt eq1 (List.length (Go.idx GenK40.tbl_highestSeverityVectors (1 : Nat))))))
    match Go.forRange (Go.idx (Go.idx GenK40.tbl_highestSeverityVectors (1 : Nat)) eq1) (okResult, eq1svdst, eq2svdst, eq3eq6svdst, eq4svdst, eq5svdst) (fun eq1mx (okResult, eq1svdst, eq2svdst, eq3eq6svdst, eq4svdst, eq5svdst) =>
        let okResult := (okResult && ((Nat.blt (2 : Nat) (List.length GenK40.tbl_highestSeverityVectors)) && (Nat.blt eq2 (List.length (Go.idx GenK40.tbl_highestSeverityVectors (2 : Nat))))))
        match Go.forRange (Go.idx (Go.idx GenK40.tbl_highestSeverityVectors (2 : Nat)) eq2) (okResult, eq1svdst, eq2svdst, eq3eq6svdst, eq4svdst, eq5svdst) (fun eq2mx (okResult, eq1svdst, eq2svdst, eq3eq6svdst, eq4svdst, eq5svdst) =>
            let okResult := (okResult && ((Nat.blt eq3 (List.length GenK40.tbl_highestSeverityVectorsEQ3EQ6)) && (Nat.blt eq6 (List.length (Go.idx GenK40.tbl_highestSeverityVectorsEQ3EQ6 eq3)))))
            match Go.forRange (Go.idx (Go.idx GenK40.tbl_highestSeverityVectorsEQ3EQ6 eq3) eq6) (okResult, eq1svdst, eq2svdst, eq3eq6svdst, eq4svdst, eq5svdst) (fun eq3eq6mx (okResult, eq1svdst, eq2svdst, eq3eq6svdst, eq4svdst, eq5svdst) =>
                let okResult := (okResult && ((Nat.blt (4 : Nat) (List.length GenK40.tbl_highestSeverityVectors)) && (Nat.blt eq4 (List.length (Go.idx GenK40.tbl_highestSeverityVectors (4 : Nat))))))
                match Go.forRange (Go.idx (Go.idx GenK40.tbl_highestSeverityVectors (4 : Nat)) eq4) (okResult, eq1svdst, eq2svdst, eq3eq6svdst, eq4svdst, eq5svdst) (fun eq4mx (okResult, eq1svdst, eq2svdst, eq3eq6svdst, eq4svdst, eq5svdst) =>
                    F64.flet (Nat.mod (Nat.div (Nat.mod eq1mx (1000 : Nat)) (100 : Nat)) 256) fun avmx =>
                    F64.flet (Nat.mod (Nat.div (Nat.mod eq1mx (100 : Nat)) (10 : Nat)) 256) fun prmx =>
                    F64.flet (Nat.mod (Nat.div (Nat.mod eq1mx (10 : Nat)) (1 : Nat)) 256) fun uimx =>
                    F64.flet (Nat.mod (Nat.div (Nat.mod eq2mx (100 : Nat)) (10 : Nat)) 256) fun acmx =>
                    F64.flet (Nat.mod (Nat.div (Nat.mod eq2mx (10 : Nat)) (1 : Nat)) 256) fun atmx =>
                    F64.flet (Nat.mod (Nat.div (Nat.mod eq3eq6mx (1000000 : Nat)) (100000 : Nat)) 256) fun vcmx =>
                    F64.flet (Nat.mod (Nat.div (Nat.mod eq3eq6mx (100000 : Nat)) (10000 : Nat)) 256) fun vimx =>
                    F64.flet (Nat.mod (Nat.div (Nat.mod eq3eq6mx (10000 : Nat)) (1000 : Nat)) 256) fun vamx =>
                    F64.flet (Nat.mod (Nat.div (Nat.mod eq3eq6mx (1000 : Nat)) (100 : Nat)) 256) fun crmx =>
                    F64.flet (Nat.mod (Nat.div (Nat.mod eq3eq6mx (100 : Nat)) (10 : Nat)) 256) fun irmx =>
                    F64.flet (Nat.mod (Nat.div (Nat.mod eq3eq6mx (10 : Nat)) (1 : Nat)) 256) fun armx =>
                    F64.flet (Nat.mod (Nat.div (Nat.mod eq4mx (1000 : Nat)) (100 : Nat)) 256) fun scmx =>
                    F64.flet (Nat.mod (Nat.div (Nat.mod eq4mx (100 : Nat)) (10 : Nat)) 256) fun simx =>
                    F64.flet (Nat.mod (Nat.div (Nat.mod eq4mx (10 : Nat)) (1 : Nat)) 256) fun samx =>
                    let okResult := (okResult && (GenK40.severityDistance_ok (0 : Nat) avVal avmx))
                    F64.flet (GenK40.severityDistance (0 : Nat) avVal avmx) fun avsvdst =>
                    let okResult := (okResult && (GenK40.severityDistance_ok (1 : Nat) acVal acmx))
                    F64.flet (GenK40.severityDistance (1 : Nat) acVal acmx) fun acsvdst =>
                    let okResult := (okResult && (GenK40.severityDistance_ok (2 : Nat) atVal atmx))
                    F64.flet (GenK40.severityDistance (2 : Nat) atVal atmx) fun atsvdst =>
                    let okResult := (okResult && (GenK40.severityDistance_ok (3 : Nat) prVal prmx))
                    F64.flet (GenK40.severityDistance (3 : Nat) prVal prmx) fun prsvdst =>
                    let okResult := (okResult && (GenK40.severityDistance_ok (4 : Nat) uiVal uimx))
                    F64.flet (GenK40.severityDistance (4 : Nat) uiVal uimx) fun uisvdst =>
                    let okResult := (okResult && (GenK40.severityDistance_ok (5 : Nat) vcVal vcmx))
                    F64.flet (GenK40.severityDistance (5 : Nat) vcVal vcmx) fun vcsvdst =>
                    let okResult := (okResult && (GenK40.severityDistance_ok (6 : Nat) viVal vimx))
                    F64.flet (GenK40.severityDistance (6 : Nat) viVal vimx) fun visvdst =>
                    let okResult := (okResult && (GenK40.severityDistance_ok (7 : Nat) vaVal vamx))
                    F64.flet (GenK40.severityDistance (7 : Nat) vaVal vamx) fun vasvdst =>
                    let okResult := (okResult && (GenK40.severityDistance_ok (8 : Nat) scVal scmx))
                    F64.flet (GenK40.severityDistance (8 : Nat) scVal scmx) fun scsvdst =>
                    let okResult := (okResult && (GenK40.severityDistance_ok (9 : Nat) siVal simx))
                    F64.flet (GenK40.severityDistance (9 : Nat) siVal simx) fun sisvdst =>
                    let okResult := (okResult && (GenK40.severityDistance_ok (10 : Nat) saVal samx))
                    F64.flet (GenK40.severityDistance (10 : Nat) saVal samx) fun sasvdst =>
                    let okResult := (okResult && (GenK40.severityDistance_ok (12 : Nat) crVal crmx))
                    F64.flet (GenK40.severityDistance (12 : Nat) crVal crmx) fun crsvdst =>
                    let okResult := (okResult && (GenK40.severityDistance_ok (13 : Nat) irVal irmx))
                    F64.flet (GenK40.severityDistance (13 : Nat) irVal irmx) fun irsvdst =>
                    let okResult := (okResult && (GenK40.severityDistance_ok (14 : Nat) arVal armx))
                    F64.flet (GenK40.severityDistance (14 : Nat) arVal armx) fun arsvdst =>
                    cond ((((((((((((((F64.lt avsvdst (0x0000000000000000 : Nat)) || (F64.lt prsvdst (0x0000000000000000 : Nat))) || (F64.lt uisvdst (0x0000000000000000 : Nat))) || (F64.lt acsvdst (0x0000000000000000 : Nat))) || (F64.lt atsvdst (0x0000000000000000 : Nat))) || (F64.lt vcsvdst (0x0000000000000000 : Nat))) || (F64.lt visvdst (0x0000000000000000 : Nat))) || (F64.lt vasvdst (0x0000000000000000 : Nat))) || (F64.lt scsvdst (0x0000000000000000 : Nat))) || (F64.lt sisvdst (0x0000000000000000 : Nat))) || (F64.lt sasvdst (0x0000000000000000 : Nat))) || (F64.lt crsvdst (0x0000000000000000 : Nat))) || (F64.lt irsvdst (0x0000000000000000 : Nat))) || (F64.lt arsvdst (0x0000000000000000 : Nat)))
                      (Go.Ctl.next (okResult, eq1svdst, eq2svdst, eq3eq6svdst, eq4svdst, eq5svdst))
                      (F64.flet (F64.add (F64.add avsvdst prsvdst) uisvdst) fun eq1svdst =>
                      F64.flet (F64.add acsvdst atsvdst) fun eq2svdst =>
                      F64.flet (F64.add (F64.add (F64.add (F64.add (F64.add vcsvdst visvdst) vasvdst) crsvdst) irsvdst) arsvdst) fun eq3eq6svdst =>
                      F64.flet (F64.add (F64.add scsvdst sisvdst) sasvdst) fun eq4svdst =>
                      F64.flet (0x0000000000000000 : Nat) fun eq5svdst =>
                      Go.Ctl.brk (okResult, eq1svdst, eq2svdst, eq3eq6svdst, eq4svdst, eq5svdst))) with
                | Go.Ctl.ret r => Go.Ctl.ret r
                | Go.Ctl.brk (okResult, eq1svdst, eq2svdst, eq3eq6svdst, eq4svdst, eq5svdst) => Go.Ctl.ret false
                | Go.Ctl.next (okResult, eq1svdst, eq2svdst, eq3eq6svdst, eq4svdst, eq5svdst) =>
                Go.Ctl.next (okResult, eq1svdst, eq2svdst, eq3eq6svdst, eq4svdst, eq5svdst)) with
            | Go.Ctl.ret r => Go.Ctl.ret r
            | Go.Ctl.brk (okResult, eq1svdst, eq2svdst, eq3eq6svdst, eq4svdst, eq5svdst) => Go.Ctl.ret false
            | Go.Ctl.next (okResult, eq1svdst, eq2svdst, eq3eq6svdst, eq4svdst, eq5svdst) =>
            Go.Ctl.next (okResult, eq1svdst, eq2svdst, eq3eq6svdst, eq4svdst, eq5svdst)) with
        | Go.Ctl.ret r => Go.Ctl.ret r
        | Go.Ctl.brk (okResult, eq1svdst, eq2svdst, eq3eq6svdst, eq4svdst, eq5svdst) => Go.Ctl.ret false
        | Go.Ctl.next (okResult, eq1svdst, eq2svdst, eq3eq6svdst, eq4svdst, eq5svdst) =>
        Go.Ctl.next (okResult, eq1svdst, eq2svdst, eq3eq6svdst, eq4svdst, eq5svdst)) with
    | Go.Ctl.ret r => r
    | Go.Ctl.brk (okResult, eq1svdst, eq2svdst, eq3eq6svdst, eq4svdst, eq5svdst) => false
    | Go.Ctl.next (okResult, eq1svdst, eq2svdst, eq3eq6svdst, eq4svdst, eq5svdst) =>
    let okResult := (okResult && (GenK40.getDepth_ok (1 : Nat) eq1))
    F64.flet (F64.div eq1svdst (F64.add (GenK40.getDepth (1 : Nat) eq1) (0x3ff0000000000000 : Nat))) fun eq1prop =>
    let okResult := (okResult && (GenK40.getDepth_ok (2 : Nat) eq2))
    F64.flet (F64.div eq2svdst (F64.add (GenK40.getDepth (2 : Nat) eq2) (0x3ff0000000000000 : Nat))) fun eq2prop =>
    let okResult := (okResult && (GenK40.getDepthEQ3EQ6_ok eq3 eq6))
    F64.flet (F64.div eq3eq6svdst (F64.add (GenK40.getDepthEQ3EQ6 eq3 eq6) (0x3ff0000000000000 : Nat))) fun eq3eq6prop =>
    let okResult := (okResult && (GenK40.getDepth_ok (4 : Nat) eq4))
    F64.flet (F64.div eq4svdst (F64.add (GenK40.getDepth (4 : Nat) eq4) (0x3ff0000000000000 : Nat))) fun eq4prop =>
    let okResult := (okResult && (GenK40.getDepth_ok (5 : Nat) eq5))
    F64.flet (F64.div eq5svdst (F64.add (GenK40.getDepth (5 : Nat) eq5) (0x3ff0000000000000 : Nat))) fun eq5prop =>
    F64.flet (F64.mul eq1msd eq1prop) fun eq1msd =>
    F64.flet (F64.mul eq2msd eq2prop) fun eq2msd =>
    F64.flet (F64.mul eq3eq6msd eq3eq6prop) fun eq3eq6msd =>
    F64.flet (F64.mul eq4msd eq4prop) fun eq4msd =>
    F64.flet (F64.mul eq5msd eq5prop) fun eq5msd =>
    F64.flet (0x0000000000000000 : Nat) fun mean =>
    match (cond (!(Nat.beq lower (0 : Nat)))
      (F64.flet (F64.div (F64.add (F64.add (F64.add (F64.add eq1msd eq2msd) eq3eq6msd) eq4msd) eq5msd) (F64.ofNat lower)) fun mean =>
      mean)
      (mean)) with
    | mean =>
    okResult)

def Score_ok (u0 : Nat) (u1 : Nat) (u2 : Nat) (u3 : Nat) (u4 : Nat) (u5 : Nat) (u6 : Nat) (u7 : Nat) (u8 : Nat) : Bool :=
  Score_ok_core (Nat.shiftRight (Nat.land u0 (192 : Nat)) (6 : Nat)) (Nat.shiftRight (Nat.land u3 (14 : Nat)) (1 : Nat)) (Nat.shiftRight (Nat.land u0 (32 : Nat)) (5 : Nat)) (Nat.lor (Nat.mod (Nat.shiftLeft (Nat.land u3 (1 : Nat)) (1 : Nat)) 256) (Nat.shiftRight (Nat.land u4 (128 : Nat)) (7 : Nat))) (Nat.shiftRight (Nat.land u0 (16 : Nat)) (4 : Nat)) (Nat.shiftRight (Nat.land u4 (96 : Nat)) (5 : Nat)) (Nat.shiftRight (Nat.land u0 (12 : Nat)) (2 : Nat)) (Nat.shiftRight (Nat.land u4 (24 : Nat)) (3 : Nat)) (Nat.land u0 (3 : Nat)) (Nat.shiftRight (Nat.land u4 (6 : Nat)) (1 : Nat)) (Nat.shiftRight (Nat.land u1 (192 : Nat)) (6 : Nat)) (Nat.lor (Nat.mod (Nat.shiftLeft (Nat.land u4 (1 : Nat)) (1 : Nat)) 256) (Nat.shiftRight (Nat.land u5 (128 : Nat)) (7 : Nat))) (Nat.shiftRight (Nat.land u1 (48 : Nat)) (4 : Nat)) (Nat.shiftRight (Nat.land u5 (6 : Nat)) (1 : Nat)) (Nat.shiftRight (Nat.land u1 (12 : Nat)) (2 : Nat)) (Nat.shiftRight (Nat.land u5 (96 : Nat)) (5 : Nat)) (Nat.land u1 (3 : Nat)) (Nat.lor (Nat.mod (Nat.shiftLeft (Nat.land u5 (1 : Nat)) (2 : Nat)) 256) (Nat.shiftRight (Nat.land u6 (192 : Nat)) (6 : Nat))) (Nat.shiftRight (Nat.land u2 (192 : Nat)) (6 : Nat)) (Nat.shiftRight (Nat.land u5 (24 : Nat)) (3 : Nat)) (Nat.shiftRight (Nat.land u2 (48 : Nat)) (4 : Nat)) (Nat.shiftRight (Nat.land u6 (56 : Nat)) (3 : Nat)) (Nat.land u2 (3 : Nat)) (Nat.shiftRight (Nat.land u3 (192 : Nat)) (6 : Nat)) (Nat.shiftRight (Nat.land u3 (48 : Nat)) (4 : Nat)) (Nat.shiftRight (Nat.land u2 (12 : Nat)) (2 : Nat))

/-- table okPanicFree (zz_ok.go) -/
def tbl_okPanicFree : (List (List Nat)) :=
  [([67, 86, 83, 83, 52, 48, 46, 71, 101, 116] : List Nat), ([67, 86, 83, 83, 52, 48, 46, 78, 111, 109, 101, 110, 99, 108, 97, 116, 117, 114, 101] : List Nat), ([67, 86, 83, 83, 52, 48, 46, 83, 101, 116] : List Nat), ([67, 86, 83, 83, 52, 48, 46, 86, 101, 99, 116, 111, 114] : List Nat), ([67, 86, 83, 83, 52, 48, 46, 103, 101, 116] : List Nat), ([67, 86, 83, 83, 52, 48, 46, 109, 97, 99, 114, 111, 86, 101, 99, 116, 111, 114] : List Nat), ([69, 114, 114, 73, 110, 118, 97, 108, 105, 100, 77, 101, 116, 114, 105, 99, 46, 69, 114, 114, 111, 114] : List Nat), ([82, 97, 116, 105, 110, 103] : List Nat), ([97, 98, 115] : List Nat), ([108, 101, 110, 86, 101, 99] : List Nat), ([109, 97, 110, 100, 97, 116, 111, 114, 121] : List Nat), ([109, 111, 100] : List Nat), ([110, 111, 116, 77, 97, 110, 100, 97, 116, 111, 114, 121] : List Nat), ([114, 111, 117, 110, 100, 117, 112] : List Nat), ([118, 97, 108, 105, 100, 97, 116, 101] : List Nat)]

/-- functions containing a pre-sized buffer `make([]T, 0, cap)` (one entry per occurrence) -/
def pkg_presized : List String :=
  ["CVSS40.Vector"]

/-- every mention of package unsafe (function or `decl`:unsafe.X, one entry per occurrence) -/
def pkg_unsafe_all : List String :=
  ["CVSS40.Vector:unsafe.Pointer"]

/-- sha256 (first 16 hex digits) of each verification hooks file -/
def hook_sha : List String :=
  []

/-- import paths of the package's source files (alias=path when renamed) -/
def pkg_imports : List String :=
  ["errors", "fmt", "math", "strings", "unsafe"]

/-- fields of the object type (name:type), in declaration order -/
def obj_fields : List String :=
  ["u0:uint8", "u1:uint8", "u2:uint8", "u3:uint8", "u4:uint8", "u5:uint8", "u6:uint8", "u7:uint8", "u8:uint8"]

/-- methods of the object type with a pointer receiver (the only ones that can change the object) -/
def obj_ptr_methods : List String :=
  ["Score", "Score_ok", "Set"]

/-- what each pointer-receiver method does with its receiver: writes / takes-address / passes-pointer / aliases / returns-pointer / calls:M, or reads-only -/
def obj_ptr_effects : List String :=
  ["Score:reads-only", "Score_ok:reads-only", "Set:writes"]

/-- declarations of the verification hooks files (verif build only; not translated): they may only add accessors -/
def hook_decls : List String :=
  []

/-- files of the package directory that belong to neither the ordinary nor the verif build, and non-Go sources -/
def pkg_other_files : List String :=
  []

/-- `init` functions of the package (file:init) -/
def pkg_inits : List String :=
  []

/-- build constraints on non-test source files other than the verification hooks (file:constraint) -/
def pkg_build_tags : List String :=
  []

/-- package-level variables (name:type) -/
def pkg_vars : List String :=
  ["ErrInvalidCVSSHeader:error", "ErrInvalidMetricOrder:error", "ErrInvalidMetricValue:error", "ErrOutOfBoundsScore:error", "ErrTooShortVector:error", "highestSeverityVectors:[][][]int", "highestSeverityVectorsEQ3EQ6:[][][]int", "okPanicFree:[]string", "order:[][]string", "sevIdx:[][]uint8"]

/-- function:variable for every assignment to (or address-of) a package-level variable inside a function body -/
def pkg_writes : List String :=
  []

/-- function:variable.method for every method call on a package-level variable; function:go for goroutine starts -/
def pkg_calls : List String :=
  []

/-- package-level variables (blank ones included) whose initialiser runs code: name:calls and function literals in it -/
def pkg_var_inits : List String :=
  ["ErrInvalidCVSSHeader:call errors.New", "ErrInvalidMetricOrder:call errors.New", "ErrInvalidMetricValue:call errors.New", "ErrOutOfBoundsScore:call errors.New", "ErrTooShortVector:call errors.New"]

/-- function:variable for every mention of a package-level variable (other than the `error` sentinels) in a function body or initialiser -/
def pkg_var_uses : List String :=
  ["CVSS40.Score:highestSeverityVectors", "CVSS40.Score:highestSeverityVectorsEQ3EQ6", "CVSS40.Score_ok:highestSeverityVectors", "CVSS40.Score_ok:highestSeverityVectorsEQ3EQ6", "ParseVector:order", "severityDistance:sevIdx", "severityDistance_ok:sevIdx"]

/-- sync.Pool variables and what their `New` makes -/
def pool_new : List String :=
  []

/-- every Get (with the canonical name of the variable that receives it) and Put (with what is handed back), in source order -/
def pool_uses : List String :=
  []

/-- function:unsafe.X for every use of package unsafe -/
def pkg_unsafe : List String :=
  ["CVSS40.Vector:unsafe.Pointer"]

end GenK40
