/-! IEEE-754 binary64 on raw bit patterns (Nat < 2^64), RNE. Core-only, kernel-friendly (Nat primitives only). -/
namespace FB

abbrev F64 := Nat   -- the 64-bit pattern

def P52 : Nat := 4503599627370496
def P53 : Nat := 9007199254740992
def P63 : Nat := 9223372036854775808
def NAN : F64 := 0x7FF8000000000001   -- Go math.NaN()
def PINF : F64 := 0x7FF0000000000000
def NINF : F64 := 0xFFF0000000000000

@[inline] def sgn (x : F64) : Nat := x >>> 63          -- 0 / 1
@[inline] def ebits (x : F64) : Nat := (x >>> 52) % 2048
@[inline] def frac (x : F64) : Nat := x % P52
@[inline] def isNaN (x : F64) : Bool := ebits x == 2047 && frac x != 0
@[inline] def isInf (x : F64) : Bool := ebits x == 2047 && frac x == 0
@[inline] def isZero (x : F64) : Bool := x % P63 == 0
/-- significand as integer and exponent e (unbiased for integer significand): value = mant · 2^(ex - 1075) -/
@[inline] def mant (x : F64) : Nat := if ebits x == 0 then frac x else frac x + P52
@[inline] def ex (x : F64) : Nat := if ebits x == 0 then 1 else ebits x

/-- pack sign s (0/1), integer significand m·2^(e-1075), rounding to nearest even. `e` is the biased exponent
    for an integer significand in [2^52,2^53). Input m arbitrary, e ≥ 0 as Nat with offset: value = m·2^(e - 1075 - OFF) -/
def OFF : Nat := 4096
def roundPack (s : Nat) (m : Nat) (e : Nat) : F64 :=
  -- value = m · 2^(e - OFF - 1075)
  if m == 0 then s <<< 63 else
  let len := Nat.log2 m + 1
  -- desired exponent field E such that significand has 53 bits: E = e - OFF + (len - 53); min 1 (subnormal)
  let t := e + len        -- compare with OFF + 53 + 1
  let E := if t ≤ OFF + 53 + 1 then 1 else t - (OFF + 53)
  -- shift amount: we need q = m · 2^(e - OFF - E)   (E is biased exponent of result with integer significand)
  if e ≥ OFF + E then
    let q := m <<< (e - (OFF + E))
    -- exact
    if q < P52 then (s <<< 63) + q            -- subnormal (E = 1)
    else if E ≥ 2047 then (s <<< 63) + PINF
    else (s <<< 63) + (E <<< 52) + (q - P52)
  else
    let sh := (OFF + E) - e
    let q := m >>> sh
    let rem := m - (q <<< sh)
    let half := 1 <<< (sh - 1)
    let q' := if rem > half || (rem == half && q % 2 == 1) then q + 1 else q
    -- q' may equal 2^53 → carry; encoding trick: (E<<<52) + (q' - P52) handles carry into exponent automatically
    if q' < P52 then (s <<< 63) + q'
    else
      let r := (E <<< 52) + (q' - P52)
      if r ≥ PINF then (s <<< 63) + PINF else (s <<< 63) + r

def neg (x : F64) : F64 := if x ≥ P63 then x - P63 else x + P63

def mul (x y : F64) : F64 :=
  if isNaN x || isNaN y then NAN else
  let s := (sgn x + sgn y) % 2
  if isInf x then (if isZero y then NAN else (s <<< 63) + PINF) else
  if isInf y then (if isZero x then NAN else (s <<< 63) + PINF) else
  -- value = mx·2^(ex-1075) · my·2^(ey-1075) = mx·my · 2^(ex+ey-2150) ; want e - OFF - 1075 = ex+ey-2150 → e = ex+ey+OFF-1075
  roundPack s (mant x * mant y) (ex x + ex y + OFF - 1075)

def add (x y : F64) : F64 :=
  if isNaN x || isNaN y then NAN else
  if isInf x then (if isInf y && sgn x != sgn y then NAN else x) else
  if isInf y then y else
  let e := min (ex x) (ex y)
  let a := mant x <<< (ex x - e)
  let b := mant y <<< (ex y - e)
  if sgn x == sgn y then
    (if a + b == 0 then x else roundPack (sgn x) (a + b) (e + OFF))
  else if a == b then 0
  else if a > b then roundPack (sgn x) (a - b) (e + OFF)
  else roundPack (sgn y) (b - a) (e + OFF)

def sub (x y : F64) : F64 := add x (neg y)

def div (x y : F64) : F64 :=
  if isNaN x || isNaN y then NAN else
  let s := (sgn x + sgn y) % 2
  if isInf x then (if isInf y then NAN else (s <<< 63) + PINF) else
  if isInf y then s <<< 63 else
  if isZero y then (if isZero x then NAN else (s <<< 63) + PINF) else
  if isZero x then s <<< 63 else
  let k := 64 + (Nat.log2 (mant y) + 1)
  let n := mant x <<< k
  let q := n / mant y
  let r := n - q * mant y
  let q2 := if r == 0 then 2 * q else 2 * q + 1
  -- value = q2 · 2^(ex - ey - k - 1)  → e - OFF - 1075 = ex - ey - k - 1
  roundPack s q2 (ex x + OFF + 1075 - ex y - k - 1)

/-- IEEE comparison on non-NaN values -/
def ltFin (x y : F64) : Bool :=
  if isZero x && isZero y then false else
  match sgn x, sgn y with
  | 0, 0 => x < y
  | 0, _ => false
  | _, 0 => true
  | _, _ => y < x
def lt (x y : F64) : Bool := !(isNaN x) && !(isNaN y) && ltFin x y
def le (x y : F64) : Bool := !(isNaN x) && !(isNaN y) && !(ltFin y x)
def eq (x y : F64) : Bool := !(isNaN x) && !(isNaN y) && ((isZero x && isZero y) || x == y)

/-- Go math.Min -/
def min (x y : F64) : F64 :=
  if x == NINF || y == NINF then NINF else
  if isNaN x || isNaN y then NAN else
  if isZero x && isZero y then (if sgn x == 1 then x else y) else
  if ltFin x y then x else y

/-- integer-valued rounding helpers; mode: 0 = toEven, 1 = half away, 2 = floor -/
def rint (mode : Nat) (x : F64) : F64 :=
  if ebits x == 2047 then x else
  if ex x ≥ 1075 then x else
  let sh := 1075 - ex x
  let m := mant x
  let q := m >>> sh
  let rem := m - (q <<< sh)
  let half := 1 <<< (sh - 1)
  let q' :=
    match mode with
    | 0 => if rem > half || (rem == half && q % 2 == 1) then q + 1 else q
    | 1 => if rem ≥ half then q + 1 else q
    | _ => if sgn x == 1 && rem != 0 then q + 1 else q
  roundPack (sgn x) q' (OFF + 1075)
def roundToEven := rint 0
def round := rint 1
def floor := rint 2

/-- |trunc x| for finite x -/
def truncAbs (x : F64) : Nat :=
  if ex x ≥ 1075 then mant x <<< (ex x - 1075) else mant x >>> (1075 - ex x)

def ofNat (n : Nat) : F64 := roundPack 0 n (OFF + 1075)

/-- nearest double to n/10^k -/
def dec (n k : Nat) : F64 := div (ofNat n) (ofNat (10^k))   -- exact ints below 2^53 → single rounding

end FB
