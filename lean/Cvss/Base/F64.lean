import Cvss.Base.FB
/-! IEEE-754 binary64 on bit patterns, kernel-fast style: explicit Nat primitives, `cond`, forced lets.
    Fast path for finite operands; NaN/Inf fall back to the reference implementation FB. -/
namespace F64
@[inline] def flet {α : Sort u} (x : Nat) (k : Nat → α) : α :=
  match x with
  | 0 => k 0
  | n+1 => k (Nat.succ n)

def P52 : Nat := 4503599627370496
def P53 : Nat := 9007199254740992
def P63 : Nat := 9223372036854775808
def PINF : Nat := 0x7FF0000000000000

/-- result bits (without sign) from exponent field E ≥ 1 and integer significand q' ∈ [0, 2^53]:
    the sum carries into the exponent automatically; overflow saturates to +Inf -/
def fin3 (sbit E q' : Nat) : Nat :=
  cond (Nat.blt q' P52) (Nat.add sbit q')      -- subnormal or zero (E = 1 here)
    (flet (Nat.add (Nat.mul E P52) (Nat.sub q' P52)) fun r =>
      cond (Nat.ble PINF r) (Nat.add sbit PINF) (Nat.add sbit r))

/-- round m·2^(e - 1075 - 4096) (m > 0) to nearest even; `sbit` = sign·2^63 -/
def rndF (sbit E q rem sh : Nat) : Nat :=
  flet (Nat.shiftLeft 1 (Nat.sub sh 1)) fun half =>
  fin3 sbit E (cond (cond (Nat.blt half rem) true (cond (Nat.beq rem half) (Nat.beq (Nat.mod q 2) 1) false)) (Nat.succ q) q)
def rndE (sbit E m sh q : Nat) : Nat := flet (Nat.sub m (Nat.shiftLeft q sh)) fun rem => rndF sbit E q rem sh
def rndD (sbit E m sh : Nat) : Nat := flet (Nat.shiftRight m sh) (rndE sbit E m sh)
def rndC (sbit e m E : Nat) : Nat :=
  -- need q = m · 2^(e - 4096 - E)
  flet (Nat.add 4096 E) fun t =>
  cond (Nat.ble t e) (fin3 sbit E (Nat.shiftLeft m (Nat.sub e t))) (rndD sbit E m (Nat.sub t e))
def rndB (sbit e m len : Nat) : Nat :=
  flet (Nat.add e len) fun t =>
  rndC sbit e m (cond (Nat.ble t 4150) 1 (Nat.sub t 4149))     -- E = max 1 (e + len - 4096 - 53)
/-- one binary-search step of the bit length: if `m ≥ 2^k`, continue with `m >>> k` and `acc + k` -/
def lgS (k : Nat) (next : Nat → Nat → Nat) (m acc : Nat) : Nat :=
  flet (Nat.shiftRight m k) fun h => cond (Nat.beq h 0) (next m acc) (flet (Nat.add acc k) (next h))
def lgEnd (_m acc : Nat) : Nat := acc
/-- `lg m = Nat.log2 m` (`Proofs/F64Lg.lean`), by binary search on shifts: the kernel does not accelerate
    `Nat.log2` (it unfolds its recursion, ~1.5 ms for a 106-bit product), this takes ~0.05 ms -/
def lg (m : Nat) : Nat :=
  cond (Nat.beq (Nat.shiftRight m 128) 0)
    (lgS 64 (lgS 32 (lgS 16 (lgS 8 (lgS 4 (lgS 2 (lgS 1 lgEnd)))))) m 0)
    (cond (Nat.beq (Nat.shiftRight m 2048) 0)
      (lgS 1024 (lgS 512 (lgS 256 (lgS 128 (lgS 64 (lgS 32 (lgS 16 (lgS 8 (lgS 4 (lgS 2 (lgS 1 lgEnd)))))))))) m 0)
      (Nat.log2 m))
def rnd (sbit m e : Nat) : Nat :=
  flet e fun e => flet m fun m =>
  cond (Nat.beq m 0) sbit (flet (Nat.succ (lg m)) (rndB sbit e m))

@[inline] def ebits (x : Nat) : Nat := Nat.mod (Nat.shiftRight x 52) 2048
@[inline] def isFin (x : Nat) : Bool := Nat.blt (ebits x) 2047
/-- integer significand -/
@[inline] def mant (x eb : Nat) : Nat := cond (Nat.beq eb 0) (Nat.mod x P52) (Nat.add (Nat.mod x P52) P52)
@[inline] def exf (eb : Nat) : Nat := cond (Nat.beq eb 0) 1 eb

def mulF (x y ex ey : Nat) : Nat :=
  rnd (Nat.mul (Nat.mod (Nat.add (Nat.shiftRight x 63) (Nat.shiftRight y 63)) 2) P63)
      (Nat.mul (mant x ex) (mant y ey))
      (Nat.add (Nat.add (exf ex) (exf ey)) 3021)
def mul (x y : Nat) : Nat :=
  flet x fun x => flet y fun y =>
  flet (ebits x) fun ex => flet (ebits y) fun ey =>
  cond (Nat.blt ex 2047 && Nat.blt ey 2047) (mulF x y ex ey) (FB.mul x y)

def addC (sx sy e a b : Nat) : Nat :=
  cond (Nat.beq sx sy) (cond (Nat.beq (Nat.add a b) 0) sx (rnd sx (Nat.add a b) (Nat.add e 4096)))
    (cond (Nat.beq a b) 0 (cond (Nat.blt b a) (rnd sx (Nat.sub a b) (Nat.add e 4096)) (rnd sy (Nat.sub b a) (Nat.add e 4096))))
def addB (x y ex ey e : Nat) : Nat :=
  flet (Nat.shiftLeft (mant x ex) (Nat.sub (exf ex) e)) fun a =>
  flet (Nat.shiftLeft (mant y ey) (Nat.sub (exf ey) e)) fun b =>
  addC (Nat.mul (Nat.shiftRight x 63) P63) (Nat.mul (Nat.shiftRight y 63) P63) e a b
/-- finite `x + y`. Shortcuts (bit-identical to the general path, which would shift a significand by up to
    1074 bits): `x + (±0) = x` and `(±0) + y = y` for a non-zero other operand; and when the exponent fields
    differ by ≥ 56 the smaller operand is below 1/8 ulp of the larger (which is then normal), so the
    round-to-nearest sum is the larger operand, also just below a power of two where the spacing halves. -/
def addA (x y ex ey : Nat) : Nat :=
  cond (Nat.beq (Nat.mod y P63) 0) (cond (Nat.beq (Nat.mod x P63) 0) (addB x y ex ey 1) x)
    (cond (Nat.beq (Nat.mod x P63) 0) y
      (cond (Nat.ble (Nat.add (exf ey) 56) (exf ex)) x
        (cond (Nat.ble (Nat.add (exf ex) 56) (exf ey)) y
          (flet (cond (Nat.ble (exf ex) (exf ey)) (exf ex) (exf ey)) (addB x y ex ey)))))
def add (x y : Nat) : Nat :=
  flet x fun x => flet y fun y =>
  flet (ebits x) fun ex => flet (ebits y) fun ey =>
  cond (Nat.blt ex 2047 && Nat.blt ey 2047) (addA x y ex ey) (FB.add x y)
def neg (x : Nat) : Nat := cond (Nat.ble P63 x) (Nat.sub x P63) (Nat.add x P63)
def sub (x y : Nat) : Nat := add x (neg y)

def divF (x y ex ey : Nat) : Nat :=
  flet (mant x ex) fun mx => flet (mant y ey) fun my =>
  flet (Nat.mul (Nat.mod (Nat.add (Nat.shiftRight x 63) (Nat.shiftRight y 63)) 2) P63) fun sbit =>
  cond (Nat.beq my 0) (cond (Nat.beq mx 0) FB.NAN (Nat.add sbit PINF)) <|
  cond (Nat.beq mx 0) sbit <|
  flet (Nat.add 65 (lg my)) fun k =>
  flet (Nat.shiftLeft mx k) fun n =>
  flet (Nat.div n my) fun q =>
  flet (cond (Nat.beq (Nat.sub n (Nat.mul q my)) 0) (Nat.mul 2 q) (Nat.succ (Nat.mul 2 q))) fun q2 =>
  rnd sbit q2 (Nat.sub (Nat.sub (Nat.add (Nat.add (exf ex) 4096) 1075) (exf ey)) (Nat.succ k))
def div (x y : Nat) : Nat :=
  flet x fun x => flet y fun y =>
  flet (ebits x) fun ex => flet (ebits y) fun ey =>
  cond (Nat.blt ex 2047 && Nat.blt ey 2047) (divF x y ex ey) (FB.div x y)


/-! comparisons, min, integer roundings, conversions (fast style; specials fall back to FB) -/

@[inline] def isFin2 (x y : Nat) : Bool := Nat.blt (ebits x) 2047 && Nat.blt (ebits y) 2047
@[inline] def mag (x : Nat) : Nat := Nat.mod x P63

/-- x < y on finite values, via sign and magnitude of the bit patterns -/
def ltF (x y : Nat) : Bool :=
  cond (Nat.blt x P63)
    (cond (Nat.blt y P63) (Nat.blt x y) false)
    (cond (Nat.blt y P63) (!(Nat.beq (mag x) 0 && Nat.beq y 0)) (Nat.blt (mag y) (mag x)))
def lt (x y : Nat) : Bool := flet x fun x => flet y fun y => cond (isFin2 x y) (ltF x y) (FB.lt x y)
def le (x y : Nat) : Bool := flet x fun x => flet y fun y => cond (isFin2 x y) (!(ltF y x)) (FB.le x y)
def eq (x y : Nat) : Bool := flet x fun x => flet y fun y =>
  cond (isFin2 x y) (Nat.beq x y || (Nat.beq (mag x) 0 && Nat.beq (mag y) 0)) (FB.eq x y)
def min (x y : Nat) : Nat := flet x fun x => flet y fun y =>
  cond (isFin2 x y)
    (cond (Nat.beq (mag x) 0 && Nat.beq (mag y) 0) (cond (Nat.ble P63 x) x y) (cond (ltF x y) x y))
    (FB.min x y)

/-- mode 0 = RoundToEven, 1 = Round (half away), 2 = Floor -/
def rintB (mode sbit q rem half : Nat) : Nat :=
  rnd sbit
    (cond (Nat.beq mode 0) (cond (Nat.blt half rem || (Nat.beq rem half && Nat.beq (Nat.mod q 2) 1)) (Nat.succ q) q)
    (cond (Nat.beq mode 1) (cond (Nat.ble half rem) (Nat.succ q) q)
      (cond (Nat.blt 0 sbit && Nat.blt 0 rem) (Nat.succ q) q)))
    (Nat.add 4096 1075)
def rintA (mode x ex : Nat) : Nat :=
  cond (Nat.ble 1075 (exf ex)) x
    (flet (Nat.sub 1075 (exf ex)) fun sh =>
     flet (mant x ex) fun m =>
     flet (Nat.shiftRight m sh) fun q =>
     flet (Nat.sub m (Nat.shiftLeft q sh)) fun rem =>
     rintB mode (Nat.mul (Nat.shiftRight x 63) P63) q rem (Nat.shiftLeft 1 (Nat.sub sh 1)))
def rint (mode x : Nat) : Nat := flet x fun x => flet (ebits x) fun ex => cond (Nat.blt ex 2047) (rintA mode x ex) x
def roundToEven := rint 0
def round := rint 1
def floor := rint 2
/-- `math.Ceil` (mode 3) and `math.Trunc` (mode 4); kept apart from `rintB` so that existing proofs are untouched -/
def rintC (mode sbit q rem : Nat) : Nat :=
  rnd sbit (cond (Nat.beq mode 3) (cond (Nat.beq sbit 0 && Nat.blt 0 rem) (Nat.succ q) q) q) (Nat.add 4096 1075)
def rintD (mode x ex : Nat) : Nat :=
  cond (Nat.ble 1075 (exf ex)) x
    (flet (Nat.sub 1075 (exf ex)) fun sh =>
     flet (mant x ex) fun m =>
     flet (Nat.shiftRight m sh) fun q =>
     flet (Nat.sub m (Nat.shiftLeft q sh)) fun rem =>
     rintC mode (Nat.mul (Nat.shiftRight x 63) P63) q rem)
def rint2 (mode x : Nat) : Nat := flet x fun x => flet (ebits x) fun ex => cond (Nat.blt ex 2047) (rintD mode x ex) x
def ceil := rint2 3
def trunc := rint2 4
/-- `math.Abs`: clear the sign bit -/
def abs (x : Nat) : Nat := Nat.mod x P63
/-- `math.Max` = `-Min(-x, -y)` (same special cases: +Inf wins, NaN propagates, `Max(+0, -0) = +0`) -/
def max (x y : Nat) : Nat := neg (min (neg x) (neg y))
def truncAbs (x : Nat) : Nat := flet x fun x => flet (ebits x) fun ex =>
  cond (Nat.ble 1075 (exf ex)) (Nat.shiftLeft (mant x ex) (Nat.sub (exf ex) 1075)) (Nat.shiftRight (mant x ex) (Nat.sub 1075 (exf ex)))
/-- `int(x) % c == 0` as gc/amd64 computes it (`CVTTSD2SQ`): a NaN or a value with `|x| ≥ 2^63` converts to the "integer
    indefinite" `-2^63`; otherwise the value is truncated toward zero, and `%` of a negative integer is zero exactly when the
    magnitude is a multiple. (The biased exponent is ≥ 1023+63 = 1086 exactly for `|x| ≥ 2^63`, `±∞` and NaN.) -/
def intRemZero (x c : Nat) : Bool := flet x fun x => flet (ebits x) fun ex =>
  cond (Nat.ble 1086 (exf ex))
    (Nat.beq (Nat.mod 9223372036854775808 c) 0)
    (Nat.beq (Nat.mod (truncAbs x) c) 0)
def ofNat (n : Nat) : Nat := rnd 0 n (Nat.add 4096 1075)


def NAN : Nat := FB.NAN
def isNaN (x : Nat) : Bool := flet x fun x => Nat.beq (ebits x) 2047 && !(Nat.beq (Nat.mod x P52) 0)
/-- the double nearest `k/10` (for `k < 2^53` both integers are exact, so this is one correctly rounded division) -/
def tenth (k : Nat) : Nat := div (ofNat k) (ofNat 10)
/-- the double nearest `-(k/10)` -/
def negTenth (k : Nat) : Nat := neg (tenth k)
end F64
