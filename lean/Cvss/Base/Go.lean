import Cvss.Base.F64
/-! Go control-flow and value helpers for generated code -/
namespace Go
inductive Ctl (σ : Type) (ρ : Type) where
  | next (s : σ)
  | brk (s : σ)
  | ret (r : ρ)

def forRange {α σ ρ : Type} (xs : List α) (st : σ) (f : α → σ → Ctl σ ρ) : Ctl σ ρ :=
  match xs with
  | [] => .next st
  | x :: xs =>
    match f x st with
    | .next s => forRange xs s f
    | .brk s => .next s
    | .ret r => .ret r

def idx {α : Type} [Inhabited α] (xs : List α) (i : Nat) : α := xs.getD i default

/-- Go `error` values: code 0 = nil; sentinels and typed errors are numbered by the generator -/
structure Err where
  code : Nat
  abv : List Nat
deriving DecidableEq, Repr, Inhabited
def errNil : Err := ⟨0, []⟩
def errPanic : Err := ⟨999, []⟩
def Err.beq (a b : Err) : Bool := decide (a = b)
def strEq (a b : List Nat) : Bool := decide (a = b)
def panicStr : List Nat := [33, 112, 97, 110, 105, 99, 33]   -- "!panic!"
end Go
