import Cvss.Base.F64
/-! Go control-flow and value helpers for generated code -/
namespace Go
inductive Ctl (σ : Type) (ρ : Type) where
  | next (s : σ)
  | brk (s : σ)
  | ret (r : ρ)

def forRange {α σ ρ : Type} (xs : List α) (st : σ) (f : α → σ → Ctl σ ρ) : Ctl σ ρ :=
  match xs with
  | [] => .next st
  | x :: xs =>
    match f x st with
    | .next s => forRange xs s f
    | .brk s => .next s
    | .ret r => .ret r

def idx {α : Type} [Inhabited α] (xs : List α) (i : Nat) : α := xs.getD i default

/-- Go `error` values: code 0 = nil; sentinels and typed errors are numbered by the generator -/
structure Err where
  code : Nat
  abv : List Nat
deriving DecidableEq, Repr, Inhabited
def errNil : Err := ⟨0, []⟩
def errPanic : Err := ⟨999, []⟩
def Err.beq (a b : Err) : Bool := decide (a = b)
def strEq (a b : List Nat) : Bool := decide (a = b)
def panicStr : List Nat := [33, 112, 97, 110, 105, 99, 33]   -- "!panic!"
/-! ## additions for the translated parsers (`Cvss/Gen/P*.lean`) -/

/-- outcome of a Go call returning `(*T, error)`: the object (`return obj, nil`), an error
    (`return nil, e`), or a run-time panic -/
inductive Res (α : Type) where
  | ok (c : α)
  | err (e : Err)
  | panic
deriving Repr, DecidableEq

/-- outcome of a fuel-bounded `for` loop: ran to completion (condition false or `break`) with the final state,
    left the function with `return`, or ran out of fuel (treated by the generated code as a panic) -/
inductive Loop (σ : Type) (ρ : Type) where
  | done (s : σ)
  | ret (r : ρ)
  | fuel

/-- `for init; cnd; post { body }` on the state `st` (loop variable and every variable assigned in the loop).
    `continue` and falling off the end of the body are `Ctl.next` (then `post` runs), `break` is `Ctl.brk`,
    `return` is `Ctl.ret`. Every condition test consumes one unit of fuel; none left ⇒ `Loop.fuel`. -/
def forN {σ ρ : Type} (fuel : Nat) (st : σ) (cnd : σ → Bool) (post : σ → σ) (body : σ → Ctl σ ρ) : Loop σ ρ :=
  match fuel with
  | 0 => .fuel
  | fuel + 1 =>
    match cnd st with
    | false => .done st
    | true =>
      match body st with
      | .next s => forN fuel (post s) cnd post body
      | .brk s => .done s
      | .ret r => .ret r

/-- `s[i]` (string byte, slice or table element); out of range ⇒ `panic` -/
@[inline] def index {α ρ : Type} (s : List α) (i : Nat) (panic : ρ) (k : α → ρ) : ρ :=
  match s[i]? with
  | some x => k x
  | none => panic
/-- `s[lo:hi]`; requires `lo ≤ hi ≤ len(s)` (slices are modelled with `cap = len`), else `panic` -/
@[inline] def slice {α ρ : Type} (s : List α) (lo hi : Nat) (panic : ρ) (k : List α → ρ) : ρ :=
  match Nat.ble lo hi && Nat.ble hi s.length with
  | true => k ((s.take hi).drop lo)
  | false => panic
/-- `s[lo:]` -/
@[inline] def sliceFrom {α ρ : Type} (s : List α) (lo : Nat) (panic : ρ) (k : List α → ρ) : ρ :=
  match Nat.ble lo s.length with
  | true => k (s.drop lo)
  | false => panic
/-- `s[:hi]` -/
@[inline] def sliceTo {α ρ : Type} (s : List α) (hi : Nat) (panic : ρ) (k : List α → ρ) : ρ :=
  match Nat.ble hi s.length with
  | true => k (s.take hi)
  | false => panic
/-- `s[i] = v` on a slice; out of range ⇒ `panic` -/
@[inline] def setIndex {α ρ : Type} (s : List α) (i : Nat) (v : α) (panic : ρ) (k : List α → ρ) : ρ :=
  match Nat.blt i s.length with
  | true => k (s.set i v)
  | false => panic
/-- `*p` where `p` points to a field of the struct `s` (a struct is the list of its fields, a pointer is the
    field index, `nil` is `none`); nil ⇒ `panic` -/
@[inline] def load {α ρ : Type} (s : List α) (p : Option Nat) (panic : ρ) (k : α → ρ) : ρ :=
  match p with
  | some i => index s i panic k
  | none => panic
/-- `*p = v` -/
@[inline] def store {α ρ : Type} (s : List α) (p : Option Nat) (v : α) (panic : ρ) (k : List α → ρ) : ρ :=
  match p with
  | some i => setIndex s i v panic k
  | none => panic

/-- `strings.HasPrefix` -/
def hasPrefix (s p : List Nat) : Bool := p.isPrefixOf s

/-- `strings.Cut` core: position-free search for the first occurrence of `sep` -/
def cutAux (sep : List Nat) : List Nat → Option (List Nat × List Nat)
  | [] => match sep with
    | [] => some ([], [])
    | _ :: _ => none
  | c :: cs =>
    match sep.isPrefixOf (c :: cs) with
    | true => some ([], (c :: cs).drop sep.length)
    | false =>
      match cutAux sep cs with
      | some r => some (c :: r.1, r.2)
      | none => none
/-- `strings.Cut(s, sep)`: `(before, after, found)`; not found ⇒ `(s, "", false)` -/
def cut (s sep : List Nat) : List Nat × List Nat × Bool :=
  match cutAux sep s with
  | some r => (r.1, r.2, true)
  | none => (s, [], false)
end Go
