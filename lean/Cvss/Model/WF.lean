import Cvss.Model.Obj
import Cvss.Spec.Metrics
/-!
# Model: well-formed objects

`wf c` — every field of `c` is a byte, every metric reads (through the generated `Get`) as one of the
values the **Spec** table lists for it, and the bits no metric uses are zero. This is the invariant of all
objects reachable through the public API (zero value, `Set`, `ParseVector`); `Proofs/Bits*.lean` proves that
(`Reachable c ↔ wf c`). It is decidable, so the driver can evaluate it.
-/
namespace Model
open Spec (Metric)

def legalGets (ms : List Metric) (get : Bytes → Bytes × Go.Err) : Bool :=
  ms.all fun m => let r := get m.abv; r.2 == Go.errNil && m.values.contains r.1

def O20.wf (c : O20) : Bool := c.bytes.all (Nat.blt · 256) && legalGets Spec.V2.metrics c.get
/-- v3: the low 4 bits of `u5` are unused -/
def O30.wf (c : O30) : Bool := c.bytes.all (Nat.blt · 256) && c.u5 % 16 == 0 && legalGets Spec.V3.metrics c.get
def O31.wf (c : O31) : Bool := c.bytes.all (Nat.blt · 256) && c.u5 % 16 == 0 && legalGets Spec.V3.metrics c.get
/-- v4: the low 6 bits of `u8` are unused -/
def O40.wf (c : O40) : Bool := c.bytes.all (Nat.blt · 256) && c.u8 % 64 == 0 && legalGets Spec.V4.metrics c.get

/-- Objects obtainable through the public API: the zero value closed under `Set` (successful or not).
    (`ParseVector` only performs `Set`s on a zero value, so it adds nothing.) -/
inductive O20.Reachable : O20 → Prop
  | zero : Reachable O20.zero
  | set (c a v) : Reachable c → Reachable (c.set a v).1
inductive O30.Reachable : O30 → Prop
  | zero : Reachable O30.zero
  | set (c a v) : Reachable c → Reachable (c.set a v).1
inductive O31.Reachable : O31 → Prop
  | zero : Reachable O31.zero
  | set (c a v) : Reachable c → Reachable (c.set a v).1
inductive O40.Reachable : O40 → Prop
  | zero : Reachable O40.zero
  | set (c a v) : Reachable c → Reachable (c.set a v).1

end Model
