import Cvss.Gen.V20
import Cvss.Gen.V30
import Cvss.Gen.V31
import Cvss.Gen.V40
/-!
# Model: object-style wrappers around the generated functions

The translator emits every method as a function of the object's bytes `u0 … uN` (each a `Nat`; a Go `uint8`).
This file only packages those bytes in a structure per version and re-exports the generated functions
under object-style names, so that models and theorems read like the Go API. No logic lives here.
-/
namespace Model
abbrev Bytes := List Nat

/-- outcome of a Go call that returns `(*T, error)` or may panic -/
inductive Res (α : Type) where
  | ok (c : α)
  | err (e : Go.Err)
  | panic
deriving Repr, DecidableEq

def Res.isOk {α} : Res α → Bool | .ok _ => true | _ => false

/-- a `CVSS20` value: 4 bytes -/
structure O20 where
  (u0 u1 u2 u3 : Nat)
deriving Repr, DecidableEq, Inhabited
namespace O20
def zero : O20 := ⟨0, 0, 0, 0⟩
def bytes (c : O20) : List Nat := [c.u0, c.u1, c.u2, c.u3]
/-- all fields are bytes -/
def IsBytes (c : O20) : Prop := c.u0 < 256 ∧ c.u1 < 256 ∧ c.u2 < 256 ∧ c.u3 < 256
def get (c : O20) (abv : Bytes) : Bytes × Go.Err := GenV20.Get c.u0 c.u1 c.u2 c.u3 abv
/-- `Set` returns the new receiver value and the error -/
def set (c : O20) (abv value : Bytes) : O20 × Go.Err :=
  match GenV20.Set c.u0 c.u1 c.u2 c.u3 abv value with
  | (a0, a1, a2, a3, e) => (⟨a0, a1, a2, a3⟩, e)
def vector (c : O20) : Bytes := GenV20.Vector c.u0 c.u1 c.u2 c.u3
def lenVec (c : O20) : Nat := GenV20.lenVec c.u0 c.u1 c.u2 c.u3
/-- the capacity `Vector()` gives its buffer (`make([]byte, 0, ·)`), as the code computes it -/
def vectorCap (c : O20) : Nat := GenV20.Vector_cap c.u0 c.u1 c.u2 c.u3
def baseScore (c : O20) : Nat := GenV20.BaseScore c.u0 c.u1 c.u2 c.u3
def temporalScore (c : O20) : Nat := GenV20.TemporalScore c.u0 c.u1 c.u2 c.u3
def environmentalScore (c : O20) : Nat := GenV20.EnvironmentalScore c.u0 c.u1 c.u2 c.u3
def impact (c : O20) : Nat := GenV20.Impact c.u0 c.u1 c.u2 c.u3
def exploitability (c : O20) : Nat := GenV20.Exploitability c.u0 c.u1 c.u2 c.u3
end O20

/-- a `CVSS30` value: 6 bytes -/
structure O30 where
  (u0 u1 u2 u3 u4 u5 : Nat)
deriving Repr, DecidableEq, Inhabited
namespace O30
def zero : O30 := ⟨0, 0, 0, 0, 0, 0⟩
def bytes (c : O30) : List Nat := [c.u0, c.u1, c.u2, c.u3, c.u4, c.u5]
/-- all fields are bytes -/
def IsBytes (c : O30) : Prop := c.u0 < 256 ∧ c.u1 < 256 ∧ c.u2 < 256 ∧ c.u3 < 256 ∧ c.u4 < 256 ∧ c.u5 < 256
def get (c : O30) (abv : Bytes) : Bytes × Go.Err := GenV30.Get c.u0 c.u1 c.u2 c.u3 c.u4 c.u5 abv
/-- `Set` returns the new receiver value and the error -/
def set (c : O30) (abv value : Bytes) : O30 × Go.Err :=
  match GenV30.Set c.u0 c.u1 c.u2 c.u3 c.u4 c.u5 abv value with
  | (a0, a1, a2, a3, a4, a5, e) => (⟨a0, a1, a2, a3, a4, a5⟩, e)
def vector (c : O30) : Bytes := GenV30.Vector c.u0 c.u1 c.u2 c.u3 c.u4 c.u5
def lenVec (c : O30) : Nat := GenV30.lenVec c.u0 c.u1 c.u2 c.u3 c.u4 c.u5
/-- the capacity `Vector()` gives its buffer (`make([]byte, 0, ·)`), as the code computes it -/
def vectorCap (c : O30) : Nat := GenV30.Vector_cap c.u0 c.u1 c.u2 c.u3 c.u4 c.u5
def baseScore (c : O30) : Nat := GenV30.BaseScore c.u0 c.u1 c.u2 c.u3 c.u4 c.u5
def temporalScore (c : O30) : Nat := GenV30.TemporalScore c.u0 c.u1 c.u2 c.u3 c.u4 c.u5
def environmentalScore (c : O30) : Nat := GenV30.EnvironmentalScore c.u0 c.u1 c.u2 c.u3 c.u4 c.u5
def impact (c : O30) : Nat := GenV30.Impact c.u0 c.u1 c.u2 c.u3 c.u4 c.u5
def exploitability (c : O30) : Nat := GenV30.Exploitability c.u0 c.u1 c.u2 c.u3 c.u4 c.u5
end O30

/-- a `CVSS31` value: 6 bytes -/
structure O31 where
  (u0 u1 u2 u3 u4 u5 : Nat)
deriving Repr, DecidableEq, Inhabited
namespace O31
def zero : O31 := ⟨0, 0, 0, 0, 0, 0⟩
def bytes (c : O31) : List Nat := [c.u0, c.u1, c.u2, c.u3, c.u4, c.u5]
/-- all fields are bytes -/
def IsBytes (c : O31) : Prop := c.u0 < 256 ∧ c.u1 < 256 ∧ c.u2 < 256 ∧ c.u3 < 256 ∧ c.u4 < 256 ∧ c.u5 < 256
def get (c : O31) (abv : Bytes) : Bytes × Go.Err := GenV31.Get c.u0 c.u1 c.u2 c.u3 c.u4 c.u5 abv
/-- `Set` returns the new receiver value and the error -/
def set (c : O31) (abv value : Bytes) : O31 × Go.Err :=
  match GenV31.Set c.u0 c.u1 c.u2 c.u3 c.u4 c.u5 abv value with
  | (a0, a1, a2, a3, a4, a5, e) => (⟨a0, a1, a2, a3, a4, a5⟩, e)
def vector (c : O31) : Bytes := GenV31.Vector c.u0 c.u1 c.u2 c.u3 c.u4 c.u5
def lenVec (c : O31) : Nat := GenV31.lenVec c.u0 c.u1 c.u2 c.u3 c.u4 c.u5
/-- the capacity `Vector()` gives its buffer (`make([]byte, 0, ·)`), as the code computes it -/
def vectorCap (c : O31) : Nat := GenV31.Vector_cap c.u0 c.u1 c.u2 c.u3 c.u4 c.u5
def baseScore (c : O31) : Nat := GenV31.BaseScore c.u0 c.u1 c.u2 c.u3 c.u4 c.u5
def temporalScore (c : O31) : Nat := GenV31.TemporalScore c.u0 c.u1 c.u2 c.u3 c.u4 c.u5
def environmentalScore (c : O31) : Nat := GenV31.EnvironmentalScore c.u0 c.u1 c.u2 c.u3 c.u4 c.u5
def impact (c : O31) : Nat := GenV31.Impact c.u0 c.u1 c.u2 c.u3 c.u4 c.u5
def exploitability (c : O31) : Nat := GenV31.Exploitability c.u0 c.u1 c.u2 c.u3 c.u4 c.u5
end O31

/-- a `CVSS40` value: 9 bytes -/
structure O40 where
  (u0 u1 u2 u3 u4 u5 u6 u7 u8 : Nat)
deriving Repr, DecidableEq, Inhabited
namespace O40
def zero : O40 := ⟨0, 0, 0, 0, 0, 0, 0, 0, 0⟩
def bytes (c : O40) : List Nat := [c.u0, c.u1, c.u2, c.u3, c.u4, c.u5, c.u6, c.u7, c.u8]
/-- all fields are bytes -/
def IsBytes (c : O40) : Prop := c.u0 < 256 ∧ c.u1 < 256 ∧ c.u2 < 256 ∧ c.u3 < 256 ∧ c.u4 < 256 ∧ c.u5 < 256 ∧ c.u6 < 256 ∧ c.u7 < 256 ∧ c.u8 < 256
def get (c : O40) (abv : Bytes) : Bytes × Go.Err := GenV40.Get c.u0 c.u1 c.u2 c.u3 c.u4 c.u5 c.u6 c.u7 c.u8 abv
/-- `Set` returns the new receiver value and the error -/
def set (c : O40) (abv value : Bytes) : O40 × Go.Err :=
  match GenV40.Set c.u0 c.u1 c.u2 c.u3 c.u4 c.u5 c.u6 c.u7 c.u8 abv value with
  | (a0, a1, a2, a3, a4, a5, a6, a7, a8, e) => (⟨a0, a1, a2, a3, a4, a5, a6, a7, a8⟩, e)
def vector (c : O40) : Bytes := GenV40.Vector c.u0 c.u1 c.u2 c.u3 c.u4 c.u5 c.u6 c.u7 c.u8
def lenVec (c : O40) : Nat := GenV40.lenVec c.u0 c.u1 c.u2 c.u3 c.u4 c.u5 c.u6 c.u7 c.u8
/-- the capacity `Vector()` gives its buffer (`make([]byte, 0, ·)`), as the code computes it -/
def vectorCap (c : O40) : Nat := GenV40.Vector_cap c.u0 c.u1 c.u2 c.u3 c.u4 c.u5 c.u6 c.u7 c.u8
def score (c : O40) : Nat := GenV40.Score c.u0 c.u1 c.u2 c.u3 c.u4 c.u5 c.u6 c.u7 c.u8
def nomenclature (c : O40) : Bytes := GenV40.Nomenclature c.u0 c.u1 c.u2 c.u3 c.u4 c.u5 c.u6 c.u7 c.u8
end O40

end Model
