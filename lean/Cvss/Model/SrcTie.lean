import Cvss.Model.Parse
namespace Model
/-! ## Source ties: the functions modelled by hand must still have the source text this model was
written against. If one of these fails the model may no longer describe the code: the check then reports
the tie as broken and searches for a concrete failing input through the correspondence streams. -/

theorem v20_src_tie : GenV20.srchash_ParseVector = "6ba832cb7d7b2587" ∧ GenV20.srchash_split = "878dcaa8ae6b288d" := by decide
theorem v30_src_tie : GenV30.srchash_ParseVector = "c7727b64393906a8" ∧ GenV30.srchash_splitCouple = "ae021b08e0e9b67c" ∧
    GenV30.srchash_kvm_Set = "a4ff4c38bdba813b" := by decide
theorem v31_src_tie : GenV31.srchash_ParseVector = "4f1ebbd6248fe790" ∧ GenV31.srchash_splitCouple = "ae021b08e0e9b67c" ∧
    GenV31.srchash_kvm_Set = "a4ff4c38bdba813b" := by decide
theorem v40_src_tie : GenV40.srchash_ParseVector = "dfc7cca31e261b97" := by decide


end Model
