import Cvss.Model.Obj
/-!
# Model: the four `ParseVector` functions (readable form)

These follow the control flow of `/repo/{20,30,31,40}/cvss*.go:ParseVector` (and `split`, `splitCouple`, `kvm.Set`,
`strings.Cut`, `strings.HasPrefix`) and are the form on which the parser-level theorems (C01, C02, C06, C08, C13, C18) are
stated. They are hand-written, but **tied to the source by proof**: the translator regenerates the real functions into
`Gen/P20.lean … P40.lean` on every run and `Props/ParseTie.lean` proves, for every byte string (and every stale pool buffer
for v2.0), that the regenerated parser returns the same object / the same error as the model below and never panics.
The tables they consult (`tbl_order`, `const_header`) and the `Set` they store through are the regenerated ones.

Error codes (shared with the translator and the harness):
1 ErrInvalidCVSSHeader, 2 ErrTooShortVector, 3 ErrInvalidMetricOrder, 4 ErrInvalidMetricValue,
5 ErrOutOfBoundsScore, 101 *ErrInvalidMetric{Abv}, 102 *ErrDefinedN{Abv}, 103 *ErrMissing{Abv}.
-/
namespace Model

def eHeader : Go.Err := ⟨1, []⟩
def eTooShort : Go.Err := ⟨2, []⟩
def eOrder : Go.Err := ⟨3, []⟩
def eValue : Go.Err := ⟨4, []⟩
def eInvalidMetric (a : Bytes) : Go.Err := ⟨101, a⟩
def eDefinedN (a : Bytes) : Go.Err := ⟨102, a⟩
def eMissing (a : Bytes) : Go.Err := ⟨103, a⟩

def SLASH : Nat := 47
def COLON : Nat := 58

/-- `strings.Cut(pt, ":")` / `splitCouple`: before and after the first `:`; no colon ⇒ `(pt, "")` -/
def cutColon : Bytes → Bytes × Bytes
  | [] => ([], [])
  | c :: cs => if c = COLON then ([], cs) else let r := cutColon cs; (c :: r.1, r.2)

/-- the elements the byte scans of the v3/v4 parsers visit: split at every `/` (always ≥ 1 element) -/
def splitSlash : Bytes → List Bytes
  | [] => [[]]
  | c :: cs =>
    if c = SLASH then [] :: splitSlash cs
    else match splitSlash cs with
      | h :: t => (c :: h) :: t
      | [] => [[c]]

/-- `strings.HasPrefix` -/
def hasPrefix (s p : Bytes) : Bool := p.isPrefixOf s

/-! ## v3.0 / v3.1 -/

/-- `kvm.Set`: the 22 case strings (each selects its own flag) -/
def kvmNames : List Bytes :=
  [[65,86],[65,67],[80,82],[85,73],[83],[67],[73],[65],            -- AV AC PR UI S C I A
   [69],[82,76],[82,67],                                           -- E RL RC
   [67,82],[73,82],[65,82],[77,65,86],[77,65,67],[77,80,82],[77,85,73],[77,83],[77,67],[77,73],[77,65]]
                                                                   -- CR IR AR MAV MAC MPR MUI MS MC MI MA
/-- the eight `if !kvm.x { return ErrMissing{Abv} }` checks, in source order -/
def kvmMandatory : List Bytes := [[65,86],[65,67],[80,82],[85,73],[83],[67],[73],[65]]

/-- `kvm.Set(abv)`: `seen` is the list of flags already raised -/
def kvmSet (seen : List Bytes) (abv : Bytes) : Except Go.Err (List Bytes) :=
  if !kvmNames.contains abv then .error (eInvalidMetric abv)
  else if seen.contains abv then .error (eDefinedN abv)
  else .ok (abv :: seen)

def firstMissing (seen : List Bytes) : Option Bytes := kvmMandatory.find? (fun a => !seen.contains a)

/-- the element loop of the v3 parsers -/
def loop3 {O : Type} (set : O → Bytes → Bytes → O × Go.Err) : List Bytes → O → List Bytes → Res O
  | [], c, seen =>
    match firstMissing seen with
    | some a => .err (eMissing a)
    | none => .ok c
  | el :: rest, c, seen =>
    let av := cutColon el
    match kvmSet seen av.1 with
    | .error e => .err e
    | .ok seen' =>
      match set c av.1 av.2 with
      | (c', e) => if e = Go.errNil then loop3 set rest c' seen' else .err e

def parse3 {O : Type} (header : Bytes) (zero : O) (set : O → Bytes → Bytes → O × Go.Err) (s : Bytes) : Res O :=
  if hasPrefix s header then loop3 set (splitSlash (s.drop header.length)) zero [] else .err eHeader

def parse30 : Bytes → Res O30 := parse3 GenV30.const_header O30.zero O30.set
def parse31 : Bytes → Res O31 := parse3 GenV31.const_header O31.zero O31.set

/-! ## v4.0 -/

/-- `order` flattened, each entry tagged with "is in group 0" -/
def flatOrder (order : List (List Bytes)) : List (Bool × Bytes) :=
  match order with
  | [] => []
  | g0 :: gs => g0.map (fun a => (true, a)) ++ gs.flatten.map (fun a => (false, a))

/-- the inner `for { … }` of the v4 parser: advance through `order` until `abv` is found; inside the
    base group no skipping is allowed; running off the end is `ErrInvalidMetricOrder`.
    Returns the remaining order. -/
def walk4 : List (Bool × Bytes) → Bytes → Option (List (Bool × Bytes))
  | [], _ => none
  | (isBase, n) :: rest, abv =>
    if isBase && abv ≠ n then none
    else if abv = n then some rest
    else walk4 rest abv

def loop4 (set : O40 → Bytes → Bytes → O40 × Go.Err) : List Bytes → O40 → List (Bool × Bytes) → Res O40
  | [], c, ord => if ord.any (·.1) then .err eTooShort else .ok c
  | el :: rest, c, ord =>
    let av := cutColon el
    match walk4 ord av.1 with
    | none => .err eOrder
    | some ord' =>
      match set c av.1 av.2 with
      | (c', e) => if e = Go.errNil then loop4 set rest c' ord' else .err e

def parse40 (s : Bytes) : Res O40 :=
  if hasPrefix s GenV40.const_header then
    match s.drop GenV40.const_header.length with
    | [] => .err eTooShort                      -- loop body never runs; `slci == 0`
    | c :: rest =>
      if c = SLASH then loop4 O40.set (splitSlash rest) O40.zero (flatOrder GenV40.tbl_order)
      else .err eHeader                         -- the header must be followed by the separator
  else .err eHeader

/-! ## v2.0 -/

/-- `split`: cut at the first `n` slashes; the last part keeps the remainder -/
def splitN : Nat → Bytes → List Bytes
  | 0, s => [s]
  | _, [] => [[]]
  | n + 1, c :: cs =>
    if c = SLASH then [] :: splitN n cs
    else match splitN (n + 1) cs with
      | h :: t => (c :: h) :: t
      | [] => [[c]]

def idx2 (order : List (List Bytes)) (g i : Nat) : Option Bytes := (order.getD g [])[i]?

/-- one iteration of the `for _, pt := range pts` loop; state `(slci, i, obj)` -/
def step2 (order : List (List Bytes)) (slci i : Nat) (c : O20) (pt : Bytes) : Res (Nat × Nat × O20) :=
  let av := cutColon pt
  let abv := av.1
  -- switch slci
  let sel : Option (Nat × Option Bytes) :=
    if slci = 0 ∨ slci = 2 then some (slci, idx2 order slci i)
    else if slci = 1 then
      (if i = 0 ∧ idx2 order 1 i ≠ some abv then some (2, idx2 order 2 0) else some (1, idx2 order 1 i))
    else none
  match sel with
  | none => .err eValue                          -- `default:` arm
  | some (_, none) => .panic                     -- index out of range (unreachable, proved)
  | some (slci, some tgt) =>
    if abv ≠ tgt then .err eOrder else
    match c.set abv av.2 with
    | (c', e) =>
      if e ≠ Go.errNil then .err e else
      let i := i + 1
      if i = (order.getD slci []).length then .ok (slci + 1, 0, c') else .ok (slci, i, c')

def loop2 (order : List (List Bytes)) : List Bytes → Nat → Nat → O20 → Res O20
  | [], _, i, c => if i ≠ 0 then .err eTooShort else .ok c
  | pt :: rest, slci, i, c =>
    match step2 order slci i c pt with
    | .ok (slci', i', c') => loop2 order rest slci' i' c'
    | .err e => .err e
    | .panic => .panic

def parse20 (s : Bytes) : Res O20 := loop2 GenV20.tbl_order (splitN 13 s) 0 0 O20.zero

end Model
