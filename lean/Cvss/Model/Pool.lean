import Cvss.Model.Parse
/-!
# Model: the v2.0 parser *with* its `sync.Pool` buffer, and an ownership state machine (hand-written)

The only shared mutable state of the four packages is `splitPool` in `/repo/20/cvss20.go:73`, a
`sync.Pool` of `[]string` of length 14. `ParseVector` (`cvss20.go:17`) does

```go
partsPtr := splitPool.Get(); defer splitPool.Put(partsPtr); pts := partsPtr.([]string)
ei := split(pts, vector); pts = pts[:ei+1]
for _, pt := range pts { … }
```

so a call works on a buffer whose 14 slots hold **stale strings of earlier calls** (possibly of other
goroutines). `Model.parse20` (in `Cvss/Model/Parse.lean`) ignores the pool and uses the list-valued
`splitN 13`. This file models what the code really does:

* `splitGo` / `split14With buf s` — Go's `split(dst, vector)` (`cvss20.go:79-98`) **writing into an existing
  buffer** `buf`: slots that are not written keep their old content. Returns the buffer and `ei`.
* `parse20With buf s` — `ParseVector` run with the pool handing out `buf`: reads `buf'[0..ei]` only
  (`pts[:ei+1]` is literally `take (ei+1)`), returns the result and the buffer that is `Put` back.
* `Model.Pool.*` — a heap of buffers addressed by `Addr`, a pool (multiset of free addresses), any number of
  threads each running `ParseVector` in **single heap accesses** (one `split` loop iteration or one `range`
  iteration per step), interleaved arbitrarily.

Trusted, not proved here (they are the step rules of the machine): `sync.Pool`'s contract — a buffer returned
by `Get` is handed to nobody else until it is `Put` (rule `getPool` removes the address from the pool; rule
`getNew` requires a fresh address) — and that a goroutine's own reads see its own earlier writes. A deliberately
contract-violating action `getAliased` is included so that the model *can* exhibit interference (see
`Cvss/Props/C14.lean`, `C14.aliasing_breaks`); the theorems quantify over schedules without it.

The tie to the source is `Cvss/Props/C14b.lean` (each step of the machine is one application of the regenerated loop
bodies `GenP20.split_for1` / `GenP20.ParseVector_range1`) and the regenerated shared-state fact lists `GenV20.pkg_calls`
etc. (checked in `Cvss/Props/C14.lean`).
Core-only (no Mathlib).
-/
namespace Model

/-- a pooled `[]string` -/
abbrev Buf := List Bytes

/-- The `for ; i < l; i++ { … }` loop of `split` followed by `dst[curr] = vector[start:]; return curr`.
    `buf` = `dst`, `seg` = `vector[start:i]`, the list argument = `vector[i:]`.

    * end of input: `dst[curr] = vector[start:]` (which is `seg`), return `curr`;
    * `vector[i] == '/'`: `dst[curr] = vector[start:i]`, `start = i+1`, `curr++`, and if `curr == 13`
      **break**: then `dst[13] = vector[start:]` (the whole remainder `cs`, slashes included), return 13;
    * any other byte: `i++`.

    Writes use `List.set` (a no-op out of range, where Go would panic); `splitGo_spec` shows every written
    index is `≤ ei ≤ 13`, so on a 14-slot buffer no write is out of range. (The state machine below models the
    out-of-range panic explicitly and proves it unreachable.) -/
def splitGo (buf : Buf) (curr : Nat) (seg : Bytes) : Bytes → Buf × Nat
  | [] => (buf.set curr seg, curr)
  | c :: cs =>
    if c = SLASH then
      if curr + 1 = 13 then ((buf.set curr seg).set (curr + 1) cs, curr + 1)
      else splitGo (buf.set curr seg) (curr + 1) [] cs
    else splitGo buf curr (seg ++ [c]) cs

/-- `split(dst, vector)` on an existing buffer: `(dst afterwards, ei)` -/
def split14With (buf : Buf) (s : Bytes) : Buf × Nat := splitGo buf 0 [] s

/-- `ParseVector(s)` when `splitPool.Get()` returns `buf`: `(result, buffer given to Put)`.
    The loop ranges over `pts[:ei+1]`; the object is built by the *generated* `Set` through `loop2`. -/
def parse20With (buf : Buf) (s : Bytes) : Res O20 × Buf :=
  let r := split14With buf s
  (loop2 GenV20.tbl_order (r.1.take (r.2 + 1)) 0 0 O20.zero, r.1)

namespace Pool

/-- address of a buffer's backing array -/
abbrev Addr := Nat

/-- where a thread is inside `ParseVector` -/
inductive Phase where
  /-- not inside a call -/
  | idle
  /-- inside `split`'s loop on buffer `a`: next write goes to `dst[curr]`, `seg = vector[start:i]`,
      `rest = vector[i:]`. After the `break` the phase is `split a inp 13 vector[start:] []`, whose next
      step is the final `dst[curr] = vector[start:]`. -/
  | split (a : Addr) (inp : Bytes) (curr : Nat) (seg rest : Bytes)
  /-- inside `for _, pt := range pts` with `pts = buf[:ei+1]`, about to read `pts[k]` -/
  | loop (a : Addr) (inp : Bytes) (ei k slci i : Nat) (c : O20)
  /-- the body has returned `r`; the deferred `splitPool.Put` is pending -/
  | ret (a : Addr) (inp : Bytes) (r : Res O20)
  /-- index out of range on the buffer (proved unreachable) -/
  | crashed
deriving Repr

/-- the buffer a thread holds (between `Get` and `Put`) -/
def Phase.owner : Phase → Option Addr
  | .idle => none
  | .split a _ _ _ _ => some a
  | .loop a _ _ _ _ _ _ => some a
  | .ret a _ _ => some a
  | .crashed => none

/-- One thread-local step: at most one access to the thread's own buffer.
    `(phase, buffer) ↦ (phase', buffer')` -/
def tick (ph : Phase) (buf : Buf) : Phase × Buf :=
  match ph with
  | .split a inp curr seg [] =>
    -- after the loop: `dst[curr] = vector[start:]`; `return curr`; `pts = pts[:ei+1]`; range loop starts
    if curr < buf.length then (.loop a inp curr 0 0 0 O20.zero, buf.set curr seg) else (.crashed, buf)
  | .split a inp curr seg (c :: cs) =>
    if c = SLASH then
      if curr < buf.length then
        if curr + 1 = 13 then (.split a inp (curr + 1) cs [], buf.set curr seg)   -- `break`
        else (.split a inp (curr + 1) [] cs, buf.set curr seg)
      else (.crashed, buf)
    else (.split a inp curr (seg ++ [c]) cs, buf)
  | .loop a inp ei k slci i c =>
    if k < ei + 1 then
      match buf[k]? with
      | none => (.crashed, buf)
      | some pt =>
        match step2 GenV20.tbl_order slci i c pt with
        | .ok (slci', i', c') => (.loop a inp ei (k + 1) slci' i' c', buf)
        | .err e => (.ret a inp (.err e), buf)
        | .panic => (.ret a inp .panic, buf)
    else (.ret a inp (if i ≠ 0 then .err eTooShort else .ok c), buf)
  | ph => (ph, buf)

/-- heap update -/
def upd (h : Addr → Buf) (a : Addr) (b : Buf) : Addr → Buf := fun x => if x = a then b else h x

/-- global state -/
structure St where
  /-- content of every buffer -/
  heap : Addr → Buf
  /-- free buffers (a multiset: `getPool` may take any element) -/
  pool : List Addr
  /-- the threads (any number) -/
  thr : List Phase
  /-- finished calls, newest first: `(thread, input, result)` -/
  log : List (Nat × Bytes × Res O20)

/-- `a` is neither free in the pool nor held by a thread (what `make` returns) -/
def St.fresh (σ : St) (a : Addr) : Bool :=
  !σ.pool.contains a && σ.thr.all (fun ph => !(ph.owner == some a))

/-- scheduler actions -/
inductive Act where
  /-- thread `t` calls `ParseVector(inp)`; `Get` returns the pooled buffer `a` (removed from the pool) -/
  | getPool (t : Nat) (inp : Bytes) (a : Addr)
  /-- thread `t` calls `ParseVector(inp)`; `Get` calls `New`: a fresh buffer `a`. `New` returns 14 empty
      strings; the model allows any 14 strings. -/
  | getNew (t : Nat) (inp : Bytes) (a : Addr) (content : Buf)
  /-- one step of thread `t` inside the call -/
  | tick (t : Nat)
  /-- the deferred `Put` of thread `t`; the call is over, its result is logged -/
  | put (t : Nat)
  /-- `sync.Pool` may drop a free buffer at any time (GC) -/
  | gc (a : Addr)
  /-- CONTRACT VIOLATION (not a `sync.Pool` behaviour): hand out `a` while leaving it in the pool -/
  | getAliased (t : Nat) (inp : Bytes) (a : Addr)
deriving Repr

def Act.legal : Act → Bool
  | .getAliased .. => false
  | _ => true

/-- effect of an action; `none` = not enabled -/
def apply (σ : St) : Act → Option St
  | .getPool t inp a =>
    match σ.thr[t]? with
    | some .idle =>
      if a ∈ σ.pool then some { σ with pool := σ.pool.erase a, thr := σ.thr.set t (.split a inp 0 [] inp) }
      else none
    | _ => none
  | .getNew t inp a content =>
    match σ.thr[t]? with
    | some .idle =>
      if σ.fresh a = true ∧ content.length = 14 then
        some { σ with heap := upd σ.heap a content, thr := σ.thr.set t (.split a inp 0 [] inp) }
      else none
    | _ => none
  | .tick t =>
    match σ.thr[t]? with
    | some ph =>
      match ph.owner with
      | some a =>
        let r := tick ph (σ.heap a)     -- (in phase `ret` this is a stutter step)
        some { σ with heap := upd σ.heap a r.2, thr := σ.thr.set t r.1 }
      | none => none
    | none => none
  | .put t =>
    match σ.thr[t]? with
    | some (.ret a inp r) =>
      some { σ with pool := a :: σ.pool, thr := σ.thr.set t .idle, log := (t, inp, r) :: σ.log }
    | _ => none
  | .gc a => if a ∈ σ.pool then some { σ with pool := σ.pool.erase a } else none
  | .getAliased t inp a =>
    match σ.thr[t]? with
    | some .idle =>
      if a ∈ σ.pool then some { σ with thr := σ.thr.set t (.split a inp 0 [] inp) } else none
    | _ => none

/-- run a schedule; `none` if some action was not enabled -/
def run (σ : St) : List Act → Option St
  | [] => some σ
  | x :: xs => match apply σ x with
    | some σ' => run σ' xs
    | none => none

/-- initial states: any number of idle threads, any pool of distinct 14-slot buffers with any content -/
structure Init (σ : St) : Prop where
  idle : ∀ ph ∈ σ.thr, ph = .idle
  log : σ.log = []
  nodup : σ.pool.Nodup
  len : ∀ a ∈ σ.pool, (σ.heap a).length = 14

end Pool
end Model
