/-!
# Model: allocation cost of a pre-sized append buffer

`Vector()` of every package does `b := make([]byte, 0, lenVec)` and then only `append`s to `b`. Go's `append` allocates a
new backing array exactly when the new length exceeds the capacity. This file models that bookkeeping (lengths only):
`make` = one allocation; an `append` that fits = none; an `append` that does not fit = one more (and a larger capacity).
What the model does NOT say: that nothing else in `Vector()` allocates (escape analysis of the receiver copy, the
`unsafe` string conversion) — that part is measured on the real code (alloc stream), not proved.
-/
namespace Model.Alloc

structure Buf where
  len : Nat
  cap : Nat
  allocs : Nat
deriving Repr, DecidableEq

/-- `make([]byte, 0, cap)` -/
def make (cap : Nat) : Buf := ⟨0, cap, 1⟩

/-- `append(b, piece...)` for a piece of `n` bytes: Go grows the backing array iff `len + n > cap` (new capacity at least
    `len + n`; the exact growth policy does not matter here) -/
def append (b : Buf) (n : Nat) : Buf :=
  if b.len + n ≤ b.cap then { b with len := b.len + n }
  else ⟨b.len + n, max (2 * b.cap) (b.len + n), b.allocs + 1⟩

/-- the buffer after appending pieces of the given lengths, in order -/
def run (cap : Nat) (pieces : List Nat) : Buf := pieces.foldl append (make cap)

theorem foldl_fits (pieces : List Nat) (b : Buf) (h : b.len + pieces.sum ≤ b.cap) :
    (pieces.foldl append b).allocs = b.allocs ∧ (pieces.foldl append b).len = b.len + pieces.sum := by
  induction pieces generalizing b with
  | nil => simp
  | cons n ns ih =>
    simp only [List.foldl_cons, List.sum_cons] at *
    have hfit : b.len + n ≤ b.cap := by omega
    have e : append b n = { b with len := b.len + n } := by simp [append, hfit]
    rw [e]
    have := ih { b with len := b.len + n } (by simp; omega)
    simp at this
    constructor
    · exact this.1
    · rw [this.2]; omega

/-- **a buffer pre-sized with at least the total length never regrows: exactly the one `make` allocation** -/
theorem presized_one_alloc (cap : Nat) (pieces : List Nat) (h : pieces.sum ≤ cap) : (run cap pieces).allocs = 1 := by
  have := foldl_fits pieces (make cap) (by simpa [make] using h)
  simpa [run, make] using this.1

theorem allocs_mono (ps : List Nat) (b : Buf) : b.allocs ≤ (ps.foldl append b).allocs := by
  induction ps generalizing b with
  | nil => simp
  | cons n ns ih =>
    simp only [List.foldl_cons]
    refine Nat.le_trans ?_ (ih _)
    unfold append; split <;> simp

theorem foldl_regrows (ps : List Nat) (b : Buf) (h1 : b.cap < b.len + ps.sum) (h2 : b.len ≤ b.cap) :
    b.allocs < (ps.foldl append b).allocs := by
  induction ps generalizing b with
  | nil => simp at h1; omega
  | cons n ns ih =>
    simp only [List.foldl_cons, List.sum_cons] at *
    by_cases hfit : b.len + n ≤ b.cap
    · have e : append b n = { b with len := b.len + n } := by simp [append, hfit]
      rw [e]
      exact ih { b with len := b.len + n } (by simp; omega) (by simpa using hfit)
    · have e : (append b n).allocs = b.allocs + 1 := by simp [append, hfit]
      have := allocs_mono ns (append b n)
      omega

/-- … and an under-sized buffer regrows at least once -/
theorem undersized_regrows (cap : Nat) (pieces : List Nat) (h : cap < pieces.sum) : 1 < (run cap pieces).allocs := by
  have := foldl_regrows pieces (make cap) (by simpa [make] using h) (by simp [make])
  simpa [run, make] using this

end Model.Alloc
