package main

// Input generators: structured, mostly-valid vectors plus malformed streams.

import (
	"sort"
	"strconv"
	"strings"
)

type pair struct{ a, v string }

func pick[T any](xs []T) T { return xs[rng.Intn(len(xs))] }

// a random grammatical vector of the version, as its list of written pairs
func (v *version) randomValid() []pair {
	var w []pair
	switch v.name {
	case "20":
		groups := []bool{true, rng.Intn(2) == 0, rng.Intn(2) == 0}
		for _, mt := range v.metrics {
			if groups[mt.group] {
				w = append(w, pair{mt.abv, pick(mt.values)})
			}
		}
	case "30", "31":
		for _, mt := range v.metrics {
			if mt.mand || rng.Intn(3) == 0 {
				w = append(w, pair{mt.abv, pick(mt.values)})
			}
		}
		if rng.Intn(2) == 0 {
			rng.Shuffle(len(w), func(i, j int) { w[i], w[j] = w[j], w[i] })
		}
	case "40":
		p := rng.Intn(4)
		for _, mt := range v.metrics {
			if mt.mand || rng.Intn(4) < p {
				w = append(w, pair{mt.abv, pick(mt.values)})
			}
		}
	}
	return w
}

func (v *version) render(w []pair) string {
	var sb strings.Builder
	sb.WriteString(v.header)
	for i, p := range w {
		if v.name != "20" || i > 0 {
			sb.WriteByte('/')
		}
		sb.WriteString(p.a + ":" + p.v)
	}
	return sb.String()
}

// skeleton family: fixed representative valid vectors per version
func (v *version) skeletons() [][]pair {
	first := func(group int, explicitUndef bool, idx int) []pair {
		var w []pair
		for _, mt := range v.metrics {
			if mt.group == group {
				val := mt.values[idx%len(mt.values)]
				if !mt.mand && !explicitUndef && val == mt.values[0] {
					val = mt.values[1]
				}
				w = append(w, pair{mt.abv, val})
			}
		}
		return w
	}
	var sk [][]pair
	base := first(0, false, 0)
	sk = append(sk, base)
	switch v.name {
	case "20":
		sk = append(sk, append(append([]pair{}, base...), first(1, false, 1)...))
		sk = append(sk, append(append([]pair{}, base...), first(2, true, 0)...))
		sk = append(sk, append(append(append([]pair{}, first(0, false, 2)...), first(1, true, 0)...), first(2, false, 3)...))
	case "30", "31":
		sk = append(sk, append(append([]pair{}, first(0, false, 1)...), first(1, false, 2)...))
		all := append(append(append([]pair{}, first(0, false, 2)...), first(1, true, 0)...), first(2, false, 1)...)
		sk = append(sk, all)
		rev := append([]pair{}, all...)
		for i, j := 0, len(rev)-1; i < j; i, j = i+1, j-1 {
			rev[i], rev[j] = rev[j], rev[i]
		}
		sk = append(sk, rev)
	case "40":
		sk = append(sk, append(append([]pair{}, first(0, false, 1)...), first(1, false, 1)...))
		sk = append(sk, append(append([]pair{}, first(0, false, 2)...), first(3, false, 2)...))
		sk = append(sk, append(append(append(append([]pair{}, first(0, false, 0)...), first(1, true, 0)...), first(2, false, 4)...), first(3, false, 4)...))
	}
	return sk
}

var junkTokens = []string{"", "X", "AV", "AV:", ":N", "AV:N", "av:n", "E:X", "E:ND", "ZZ:Q", "A:", "::", "A:B:C", " ", "S:N", "U:Red", "MSI:S", "CVSS:3.1", "CVSS:4.0"}

// token-level single edits of a vector given as header + element list
func (v *version) tokenEdits(w []pair) []string {
	els := make([]string, len(w))
	for i, p := range w {
		els[i] = p.a + ":" + p.v
	}
	join := func(hdr string, e []string) string {
		if v.name == "20" {
			return hdr + strings.Join(e, "/")
		}
		if len(e) == 0 {
			return hdr
		}
		return hdr + "/" + strings.Join(e, "/")
	}
	var res []string
	add := func(hdr string, e []string) { res = append(res, join(hdr, e)) }
	cp := func() []string { return append([]string{}, els...) }
	for i := range els {
		e := cp()
		add(v.header, append(e[:i:i], els[i+1:]...)) // delete
		e = cp()
		e[i] = strings.ToLower(e[i])
		add(v.header, e) // lower-case
		e = cp()
		e[i] = w[i].a + ":" // empty value
		add(v.header, e)
		e = cp()
		e[i] = w[i].a // no colon
		add(v.header, e)
		e = cp()
		e[i] = w[i].a + ":" + w[i].v + w[i].v // value doubled
		add(v.header, e)
		e = cp()
		e[i] = w[i].a + ":" + w[i].v[:len(w[i].v)-1] // value truncated
		add(v.header, e)
		e = cp()
		e[i] = w[i].a + w[i].a + ":" + w[i].v
		add(v.header, e)
		e = cp()
		e[i] = " " + e[i]
		add(v.header, e)
		e = cp()
		e[i] = e[i] + " "
		add(v.header, e)
		e = cp()
		e[i] = w[i].a + "::" + w[i].v
		add(v.header, e)
		if i+1 < len(els) {
			e = cp()
			e[i], e[i+1] = e[i+1], e[i]
			add(v.header, e) // swap neighbours
		}
		for _, j := range junkTokens {
			e = cp()
			e[i] = j
			add(v.header, e) // replace by junk
		}
		// every value string that occurs anywhere in any version's tables (legal for this metric or not)
		for _, val := range valueUniverse() {
			e = cp()
			e[i] = w[i].a + ":" + val
			add(v.header, e)
		}
	}
	for i := 0; i <= len(els); i++ {
		for _, j := range junkTokens {
			e := append(append(append([]string{}, els[:i]...), j), els[i:]...)
			add(v.header, e) // insert junk / valid token
		}
		for k := range els {
			e := append(append(append([]string{}, els[:i]...), els[k]), els[i:]...)
			add(v.header, e) // duplicate element k at position i
		}
		// insert every metric of the version with its first and last value
		for _, mt := range v.metrics {
			e := append(append(append([]string{}, els[:i]...), mt.abv+":"+mt.values[len(mt.values)-1]), els[i:]...)
			add(v.header, e)
		}
		add(v.header, els[:i]) // truncate
	}
	full := join(v.header, els)
	for _, sfx := range []string{"/", ":", " ", "\n", "//", "/ ", "\x00"} {
		res = append(res, full+sfx)
	}
	for _, hdr := range []string{"", "CVSS:3.0", "CVSS:3.1", "CVSS:4.0", "cvss:3.1", "CVSS:3.", "CVSS:3.1/", "CVSS:3.11", "CVSS:4.00", "CVSS:2.0", " CVSS:3.1", "CVSS:4.0 ", "VSS:4.0", "CVSS:4.1"} {
		add(hdr, els)
	}
	if v.header != "" {
		res = append(res, v.header+strings.Join(els, "/")) // header directly followed by first element
		res = append(res, v.header+"//"+strings.Join(els, "/"))
		res = append(res, v.header[:len(v.header)-1]+"/"+strings.Join(els, "/"))
	} else {
		res = append(res, "/"+full)
	}
	for cut := 0; cut < len(full); cut += 1 + len(full)/40 {
		res = append(res, full[:cut])
	}
	return res
}

var abvUniv []string

// all metric abbreviations of all versions
func abvUniverse() []string {
	if abvUniv == nil {
		seen := map[string]bool{}
		for _, v := range versions {
			for _, mt := range v.metrics {
				if !seen[mt.abv] {
					seen[mt.abv] = true
					abvUniv = append(abvUniv, mt.abv)
				}
			}
		}
		sort.Strings(abvUniv)
	}
	return abvUniv
}

var valueUniv []string

// all value strings of all metrics of all versions
func valueUniverse() []string {
	if valueUniv == nil {
		seen := map[string]bool{}
		for _, v := range versions {
			for _, mt := range v.metrics {
				for _, x := range mt.values {
					if !seen[x] {
						seen[x] = true
						valueUniv = append(valueUniv, x)
					}
				}
			}
		}
		sort.Strings(valueUniv)
	}
	return valueUniv
}

func mutateBytes(s string) string {
	b := []byte(s)
	n := 1 + rng.Intn(3)
	alphabet := "/:ACEHILMNPRSTUVXacn01. \n\x00"
	for k := 0; k < n; k++ {
		switch rng.Intn(4) {
		case 0:
			if len(b) > 0 {
				b[rng.Intn(len(b))] = alphabet[rng.Intn(len(alphabet))]
			}
		case 1:
			if len(b) > 0 {
				i := rng.Intn(len(b))
				b = append(b[:i], b[i+1:]...)
			}
		case 2:
			i := rng.Intn(len(b) + 1)
			b = append(b[:i], append([]byte{alphabet[rng.Intn(len(alphabet))]}, b[i:]...)...)
		case 3:
			if len(b) > 0 {
				b[rng.Intn(len(b))] ^= 1 << uint(rng.Intn(8))
			}
		}
	}
	return string(b)
}

func randomBytes() string {
	n := rng.Intn(60)
	b := make([]byte, n)
	for i := range b {
		if rng.Intn(3) == 0 {
			b[i] = byte(rng.Intn(256))
		} else {
			b[i] = "CVSS:3.14.0/AVNLPHXU:EMRTIDF"[rng.Intn(28)]
		}
	}
	return string(b)
}

func dedupe(xs []string) []string {
	sort.Strings(xs)
	j := 0
	for i, x := range xs {
		if i == 0 || x != xs[i-1] {
			xs[j] = x
			j++
		}
	}
	return xs[:j]
}

// parse stream: every string is offered to its native parser (P) and to all four (X)
func streamParse(thorough bool) {
	nValid, nMut, nRand := 1500, 6000, 1500
	if thorough {
		nValid, nMut, nRand = 20000, 150000, 30000
	}
	for _, v := range versions {
		var strs []string
		for _, sk := range v.skeletons() {
			e1 := v.tokenEdits(sk)
			strs = append(strs, v.render(sk))
			strs = append(strs, e1...)
			if thorough {
				// pairs of edits: apply byte mutation on top of every single edit too
				for _, s := range e1 {
					strs = append(strs, mutateBytes(s))
				}
			}
		}
		strs = append(strs, v.longInputs()...)
		for i := 0; i < nValid; i++ {
			strs = append(strs, v.render(v.randomValid()))
		}
		for i := 0; i < nMut; i++ {
			strs = append(strs, mutateBytes(v.render(v.randomValid())))
		}
		for i := 0; i < nRand; i++ {
			strs = append(strs, randomBytes())
		}
		// Vector() of random objects of this version: accepted by this parser only (C13, second clause)
		for i := 0; i < 300; i++ {
			strs = append(strs, v.vector(v.randomWF()))
		}
		// v3: two or three mandatory metrics missing (the error names the first missing one in specification order)
		if v.name == "30" || v.name == "31" {
			for i := 0; i < 400; i++ {
				w := v.randomValid()
				for k := 0; k < 2+rng.Intn(2); k++ {
					idx := rng.Intn(len(w))
					for _, mt := range v.metrics {
						if mt.abv == w[idx].a && mt.mand {
							w = append(w[:idx:idx], w[idx+1:]...)
							break
						}
					}
				}
				strs = append(strs, v.render(w))
			}
		}
		strs = dedupe(strs)
		for _, s := range strs {
			v.opParse(s)
			opCross(s)
		}
		// Vector() of random objects of this version goes to the other parsers too (C13)
	}
}

// defect stream (C18): single documented defects applied to valid vectors
func streamDefect(thorough bool) {
	for _, v := range versions {
		var ws [][]pair
		ws = append(ws, v.skeletons()...)
		n := 20
		if thorough {
			n = 400
		}
		for i := 0; i < n; i++ {
			ws = append(ws, v.randomValid())
		}
		for _, w := range ws {
			valid := v.render(w)
			emitD := func(kind string, i, j int, a, val, defective string) {
				emit("E "+v.name+" "+kind+" "+itoa(i)+" "+itoa(j)+" "+hexS(a)+" "+hexS(val)+" "+hexS(valid)+" "+hexS(defective), v.parseOutcome(defective))
			}
			body := valid[len(v.header):]
			if v.name != "20" {
				// Spec side condition (Spec/Errors.lean, Defect.header): the part of the result before its first '/' is not the header;
				// this includes the right header followed by junk
				for _, p := range []string{"", "CVSS:3.", "cvss:4.0", "CVSS:2.0", "CVSS:3.0", "CVSS:3.1", "CVSS:4.0", "XCVSS:3.1", "CVSS:4.1",
					v.header + "X", v.header + "1", v.header + " ", v.header + ":", v.header + "\x00", v.header + v.header, " " + v.header, "X/" + v.header, v.header + "/ZZ:Q"} {
					s := p + body
					head := s
					if k := strings.IndexByte(s, '/'); k >= 0 {
						head = s[:k]
					}
					if head != v.header {
						emitD("header", 0, 0, "", p, s)
					}
				}
			}
			with := func(i int, p pair) []pair { c := append([]pair{}, w...); c[i] = p; return c }
			ins := func(j int, p pair) []pair {
				c := append([]pair{}, w[:j]...)
				c = append(c, p)
				return append(c, w[j:]...)
			}
			legal := func(a, val string) bool {
				for _, mt := range v.metrics {
					if mt.abv == a {
						for _, x := range mt.values {
							if x == val {
								return true
							}
						}
					}
				}
				return false
			}
			for i, p := range w {
				for _, bad := range append([]string{"", strings.ToLower(p.v), "ZZ", p.v + "x", "X "}, valueUniverse()...) {
					if !legal(p.a, bad) {
						emitD("illegal", i, 0, "", bad, v.render(with(i, pair{p.a, bad})))
					}
				}
				if v.name == "30" || v.name == "31" {
					for _, mt := range v.metrics {
						if mt.abv == p.a && mt.mand {
							c := append(append([]pair{}, w[:i]...), w[i+1:]...)
							emitD("remove", i, 0, "", "", v.render(c))
						}
					}
				}
				// repeated metric at every position
				for j := 0; j <= len(w); j++ {
					if !thorough && j != 0 && j != len(w) && j != i && j != i+1 {
						continue
					}
					var val string
					for _, mt := range v.metrics {
						if mt.abv == p.a {
							val = pick(mt.values)
						}
					}
					emitD("repeated", i, j, "", val, v.render(ins(j, pair{p.a, val})))
				}
				if v.name == "20" || v.name == "40" {
					// move element i to position j (misplaced metric)
					for j := 0; j < len(w); j++ {
						if j == i || (!thorough && j != 0 && j != len(w)-1 && j != i+2 && j+2 != i) {
							continue
						}
						c := append(append([]pair{}, w[:i]...), w[i+1:]...)
						c = append(c[:j], append([]pair{p}, c[j:]...)...)
						emitD("move", i, j, "", "", v.render(c))
					}
					if i+1 < len(w) {
						c := append([]pair{}, w...)
						c[i], c[i+1] = c[i+1], c[i]
						emitD("swap", i, 0, "", "", v.render(c))
					}
				}
			}
			for j := 0; j <= len(w); j++ {
				for _, a := range []string{"XX", "av", "AVV", "", "A V", "E ", "mav", "Q", "MAVX", "Safety", "ABCDEFGHIJ", "CVSS", "MSIS"} {
					isM := false
					for _, mt := range v.metrics {
						if mt.abv == a {
							isM = true
						}
					}
					if !isM {
						emitD("unknown", 0, j, a, "N", v.render(ins(j, pair{a, "N"})))
					}
				}
			}
			if v.name == "20" {
				for n := 1; n < len(w); n++ {
					if n != 6 && n != 9 && n != 11 && n != 14 {
						emitD("truncate", n, 0, "", "", v.render(w[:n]))
					}
				}
			}
			if v.name == "40" {
				for n := 0; n < 11; n++ {
					emitD("truncate", n, 0, "", "", v.render(w[:n]))
				}
			}
		}
	}
}

func itoa(i int) string { return strconv.Itoa(i) }

// a random well-formed object: legal Set of a random value for a random subset of metrics
func (v *version) randomWF() []byte {
	b := make([]byte, v.n)
	p := rng.Intn(5)
	for _, mt := range v.metrics {
		if mt.mand || rng.Intn(4) < p {
			nb, err := v.set(b, mt.abv, pick(mt.values))
			if err == nil {
				b = nb
			}
		}
	}
	return b
}

func caseVariants(s string) []string {
	return []string{strings.ToLower(s), s + " ", " " + s, s + s, "", s[:len(s)-1], s + "\x00"}
}

// object stream: Set/Get/observers on histories from the zero value, on random well-formed objects
// and on arbitrary raw bytes
func streamObj(thorough bool) {
	nHist, nWF, nRaw := 60, 300, 300
	if thorough {
		nHist, nWF, nRaw = 2000, 20000, 20000
	}
	for _, v := range versions {
		zero := make([]byte, v.n)
		v.opObj(zero, true)
		// exhaustive: every (metric, value) from a few byte patterns, and Get of every metric after it
		for _, pat := range []byte{0x00, 0xFF, 0xAA, 0x55} {
			b := make([]byte, v.n)
			for i := range b {
				b[i] = pat
			}
			for _, mt := range v.metrics {
				v.opGet(b, mt.abv)
				for _, val := range mt.values {
					v.opSet(b, mt.abv, val)
				}
				for _, bad := range append(caseVariants(mt.values[len(mt.values)-1]), "ZZ", "X", "ND", "N") {
					v.opSet(b, mt.abv, bad)
				}
				for _, bad := range caseVariants(mt.abv) {
					v.opSet(b, bad, mt.values[0])
					v.opGet(b, bad)
				}
			}
			// every abbreviation of every version (most are unknown to this one), with a value that is legal somewhere
			for _, a := range abvUniverse() {
				v.opGet(b, a)
				for _, val := range []string{"N", "H", "X", "ND", "L"} {
					v.opSet(b, a, val)
				}
			}
			for range [1]int{} {
			}
		}
		// single-metric objects from zero (every metric × value), observers on each
		for _, mt := range v.metrics {
			for _, val := range mt.values {
				nb := v.opSet(zero, mt.abv, val)
				v.opObj(nb, true)
			}
		}
		// random histories
		for h := 0; h < nHist; h++ {
			b := make([]byte, v.n)
			steps := 5 + rng.Intn(40)
			for s := 0; s < steps; s++ {
				mt := pick(v.metrics)
				switch rng.Intn(10) {
				case 0:
					b = v.opSet(b, mt.abv, pick([]string{"", "ZZ", strings.ToLower(mt.values[0]), "X", "ND", "S", "N", "H"}))
				case 1:
					b = v.opSet(b, pick(caseVariants(mt.abv)), pick(mt.values))
				case 2:
					v.opGet(b, mt.abv)
				case 3:
					v.opObj(b, true)
				default:
					b = v.opSet(b, mt.abv, pick(mt.values))
				}
			}
			v.opObj(b, true)
		}
		for i := 0; i < nWF; i++ {
			b := v.randomWF()
			v.opObj(b, true)
			mt := pick(v.metrics)
			v.opSet(b, mt.abv, pick(mt.values))
		}
		for i := 0; i < nRaw; i++ {
			b := make([]byte, v.n)
			rng.Read(b)
			v.opObj(b, false)
			mt := pick(v.metrics)
			v.opSet(b, mt.abv, pick(mt.values))
			v.opGet(b, mt.abv)
		}
	}
}

// inputs far from the usual sizes: very long vectors/elements, exact part counts around the v2 split limit,
// bytes >= 0x80, NUL
func (v *version) longInputs() []string {
	var res []string
	for _, sk := range v.skeletons() {
		full := v.render(sk)
		els := make([]string, len(sk))
		for i, p := range sk {
			els[i] = p.a + ":" + p.v
		}
		last := els[len(els)-1]
		for _, k := range []int{1, 2, 3, 4, 5, 8, 13, 14, 15, 16, 17, 250, 300, 1000} {
			res = append(res, full+strings.Repeat("/"+last, k))
			res = append(res, full+strings.Repeat("/", k))
			res = append(res, full+strings.Repeat("/E:X", k))
			if k <= len(els) {
				// exactly k parts
				res = append(res, v.header+map[bool]string{true: "", false: "/"}[v.name == "20"]+strings.Join(els[:k], "/"))
			}
		}
		// total part counts 12..17 by repeating the last element (v2 splits into at most 14 parts)
		for n := 12; n <= 17; n++ {
			e := append([]string{}, els...)
			for len(e) < n {
				e = append(e, last)
			}
			sep := "/"
			if v.name == "20" {
				sep = ""
			}
			res = append(res, v.header+sep+strings.Join(e[:n], "/"))
		}
		long := strings.Repeat("H", 300)
		for i := range els {
			e := append([]string{}, els...)
			e[i] = sk[i].a + ":" + long
			res = append(res, v.render(nil)+joinEls(v, e))
			e = append([]string{}, els...)
			e[i] = long + ":" + sk[i].v
			res = append(res, v.render(nil)+joinEls(v, e))
			for _, b := range []string{"\x80", "\xff", "\x00", "\xc3\xa9", "\xe2\x80\x8b"} {
				e = append([]string{}, els...)
				e[i] = sk[i].a + ":" + sk[i].v + b
				res = append(res, v.render(nil)+joinEls(v, e))
				e = append([]string{}, els...)
				e[i] = sk[i].a + b + ":" + sk[i].v
				res = append(res, v.render(nil)+joinEls(v, e))
				e = append([]string{}, els...)
				e[i] = b + e[i]
				res = append(res, v.render(nil)+joinEls(v, e))
			}
		}
		res = append(res, full+strings.Repeat("A", 5000), strings.Repeat("/", 5000), v.header+strings.Repeat("/AV:N", 400))
	}
	return res
}

func joinEls(v *version, e []string) string {
	if v.name == "20" {
		return strings.Join(e, "/")
	}
	return "/" + strings.Join(e, "/")
}
