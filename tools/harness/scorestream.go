package main

// Enumerations for the score properties (C03, C04, C05, C10, C11, C12).

func streamScore(thorough bool, args []string) {
	n := 3000
	if thorough {
		n = 200000
	}
	for _, v := range versions {
		v.opScore(make([]byte, v.n))
		for i := 0; i < n; i++ {
			v.opScore(v.randomWF())
		}
		// raw bytes too (correspondence of the panic behaviour)
		for i := 0; i < n/20; i++ {
			b := make([]byte, v.n)
			rng.Read(b)
			v.opScore(b)
		}
	}
}
