package main

import "strings"

// Enumerations for the score properties (C03, C04, C05, C10, C11, C12).

// all assignments of the given metrics (by index into v.metrics) on top of object b
func (v *version) enumerate(b []byte, idx []int, f func([]byte)) {
	if len(idx) == 0 {
		f(b)
		return
	}
	mt := v.metrics[idx[0]]
	for _, val := range mt.values {
		nb, err := v.set(b, mt.abv, val)
		if err != nil {
			continue
		}
		v.enumerate(nb, idx[1:], f)
	}
}

func (v *version) mandIdx() []int {
	var r []int
	for i, mt := range v.metrics {
		if mt.mand {
			r = append(r, i)
		}
	}
	return r
}

func streamScore(thorough bool, filter []string) {
	nRand, nMono, nEff := 4000, 1500, 4000
	if thorough {
		nRand, nMono, nEff = 120000, 20000, 40000
	}
	kinds, vers := "FMK", ""
	if len(filter) > 0 && filter[0] != "" {
		kinds = filter[0]
	}
	if len(filter) > 1 {
		vers = filter[1]
	}
	has := func(k string) bool { return strings.Contains(kinds, k) }
	if !has("F") {
		nRand = 0
	}
	if !has("M") {
		nMono = 0
	}
	if !has("K") {
		nEff = 0
	}
	for _, v := range versions {
		if vers != "" && !strings.Contains(vers, v.name) {
			continue
		}
		zero := make([]byte, v.n)
		mand := v.mandIdx()
		if has("F") {
			v.opScore(zero)
			v.scoreEnumerations(thorough, zero, mand)
		}
		// (c) random well-formed objects, and raw bytes (correspondence of the panic behaviour)
		for i := 0; i < nRand; i++ {
			v.opScore(v.randomWF())
		}
		// (c') the same scores reached through a history on ONE object: score a start object, Set every metric to the
		// target's value (scoring again half-way), score — state that a scoring method leaves behind in its receiver
		// (a pointer receiver, a spare bit) shows here and nowhere else. Start objects: random, and the all-None/all-High corners.
		for i := 0; i < nRand/4; i++ {
			b := v.randomWF()
			a0 := v.randomWF()
			switch i % 4 {
			case 1, 2:
				// the target with 1..4 metrics changed
				a0 = b
				for k := 0; k <= rng.Intn(4); k++ {
					mt := pick(v.metrics)
					if nb, err := v.set(a0, mt.abv, pick(mt.values)); err == nil {
						a0 = nb
					}
				}
			case 3:
				// the target with every metric that has a value `N` set to it (no impact at all: the early-exit paths)
				a0 = b
				for _, mt := range v.metrics {
					for _, val := range mt.values {
						if val == "N" {
							if nb, err := v.set(a0, mt.abv, "N"); err == nil {
								a0 = nb
							}
						}
					}
				}
			}
			v.opScoreHist(a0, b)
		}
		for i := 0; i < nRand/20; i++ {
			b := make([]byte, v.n)
			rng.Read(b)
			v.opScore(b)
		}
		// (d) C12: one metric, every ordered pair of its values, on random objects
		for i := 0; i < nMono; i++ {
			b := v.randomWF()
			mt := pick(v.metrics)
			for _, v1 := range mt.values {
				for _, v2 := range mt.values {
					if v1 != v2 {
						v.opMono(b, mt.abv, v1, v2)
					}
				}
			}
		}
		// (e) C10: pairs of objects that differ only in ways the effective values hide
		if v.name != "20" {
			for i := 0; i < nEff; i++ {
				b := v.randomWF()
				v.opEff(b, v.effTwin(b))
			}
		}
	}
}

// a different object with (as far as this generator knows) the same effective values
func (v *version) effTwin(b []byte) []byte {
	get := func(a string) string { s, _ := v.get(b, a); return s }
	set := func(x []byte, a, val string) []byte {
		nb, err := v.set(x, a, val)
		if err != nil {
			return x
		}
		return nb
	}
	nb := b
	isMod := func(a string) (string, bool) {
		if len(a) > 1 && a[0] == 'M' {
			for _, mt := range v.metrics {
				if mt.mand && mt.abv == a[1:] {
					return a[1:], true
				}
			}
		}
		return "", false
	}
	for _, mt := range v.metrics {
		if base, ok := isMod(mt.abv); ok {
			switch {
			case get(mt.abv) == "X" && rng.Intn(2) == 0:
				// replace X by an explicit copy of the base value
				nb = set(nb, mt.abv, get(base))
			case get(mt.abv) != "X" && rng.Intn(2) == 0:
				// change the overridden base metric
				for _, bm := range v.metrics {
					if bm.abv == base {
						nb = set(nb, base, pick(bm.values))
					}
				}
			}
		}
	}
	// defaults of undefined metrics
	dflt := map[string]string{"E": "H", "RL": "U", "RC": "C", "CR": "M", "IR": "M", "AR": "M"}
	if v.name == "40" {
		dflt = map[string]string{"E": "A", "CR": "H", "IR": "H", "AR": "H"}
	}
	for a, d := range dflt {
		if rng.Intn(2) == 0 {
			if get(a) == "X" {
				nb = set(nb, a, d)
			} else if get(a) == d {
				nb = set(nb, a, "X")
			}
		}
	}
	// supplemental metrics never matter (v4); environmental metrics never matter for base/temporal (v3: judged per key)
	for _, mt := range v.metrics {
		if mt.group == 3 && rng.Intn(2) == 0 {
			nb = set(nb, mt.abv, pick(mt.values))
		}
		if v.name != "40" && mt.group == 2 && rng.Intn(4) == 0 {
			nb = set(nb, mt.abv, pick(mt.values))
		}
	}
	return nb
}

func (v *version) scoreEnumerations(thorough bool, zero []byte, mand []int) {
	// thorough, v2/v3: every base class with every temporal assignment (v2: 72,900; v3: 259,200 objects)
	if thorough && v.name != "40" {
		var temporal []int
		for i, mt := range v.metrics {
			if mt.group == 1 {
				temporal = append(temporal, i)
			}
		}
		v.enumerate(zero, append(append([]int{}, mand...), temporal...), v.opScore)
		// … and every base class with every requirement assignment: the complete effective domain of the
		// environmental-inner equations (v2: 46,656; v3: 165,888 objects; Modified metrics X = base value)
		var req []int
		for i, mt := range v.metrics {
			if mt.abv == "CR" || mt.abv == "IR" || mt.abv == "AR" {
				req = append(req, i)
			}
		}
		v.enumerate(zero, append(append([]int{}, mand...), req...), v.opScore)
	}
	// thorough, v4: every base class once more with random threat/requirement/Modified-safety values
	if thorough && v.name == "40" {
		v.enumerate(zero, mand, func(b []byte) {
			nb := b
			for _, a := range []string{"E", "CR", "IR", "AR", "MSI", "MSA"} {
				for _, mt := range v.metrics {
					if mt.abv == a {
						if x, err := v.set(nb, a, pick(mt.values)); err == nil {
							nb = x
						}
					}
				}
			}
			v.opScore(nb)
		})
	}
	// (a) every base class (all optional metrics not defined) — exhaustive for v2 (729) and v3 (2,592);
	//     v4 has 104,976 base classes: exhaustive in thorough, a stride sample in quick
	cnt := 0
	v.enumerate(zero, mand, func(b []byte) {
		cnt++
		if v.name == "40" && !thorough && cnt%23 != 0 {
			return
		}
		v.opScore(b)
	})
	// (b) on a few base objects: every optional metric alone with every value, and every pair of optional
	//     metrics of the same group (temporal × temporal, …) in thorough
	bases := [][]byte{zero}
	for i := 0; i < 6; i++ {
		b := zero
		for _, k := range mand {
			mt := v.metrics[k]
			nb, _ := v.set(b, mt.abv, mt.values[(i*7+k*3)%len(mt.values)])
			b = nb
		}
		bases = append(bases, b)
	}
	for _, b := range bases {
		for k, mt := range v.metrics {
			if mt.mand {
				continue
			}
			v.enumerate(b, []int{k}, v.opScore)
			if thorough {
				for k2 := k + 1; k2 < len(v.metrics); k2++ {
					if !v.metrics[k2].mand {
						v.enumerate(b, []int{k, k2}, v.opScore)
					}
				}
			}
		}
	}
}
