module harness

go 1.22.0

require github.com/pandatix/go-cvss v0.0.0

replace github.com/pandatix/go-cvss => /repo
