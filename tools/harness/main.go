// Harness: drives the real go-cvss packages (built with -tags verif) and writes one line per
// operation: `OP args | implementation-output`. The Lean driver reads the same lines, evaluates the
// model and the Spec, and reports differences and violations. All randomness derives from the seed.
package main

import (
	"bufio"
	"fmt"
	"math/rand"
	"os"
	"strconv"
	"strings"
)

var out *bufio.Writer
var rng *rand.Rand
var nOps int

func hexS(s string) string {
	if s == "" {
		return "-"
	}
	const d = "0123456789abcdef"
	b := make([]byte, 0, 2*len(s))
	for i := 0; i < len(s); i++ {
		b = append(b, d[s[i]>>4], d[s[i]&15])
	}
	return string(b)
}
func hexB(b []byte) string { return hexS(string(b)) }

func emit(op, impl string) {
	out.WriteString(op)
	out.WriteString(" | ")
	out.WriteString(impl)
	out.WriteByte('\n')
	nOps++
}

// guarded call: a panic in the implementation becomes the outcome "panic"
func guard(f func() string) (r string) {
	defer func() {
		if e := recover(); e != nil {
			r = "panic"
		}
	}()
	return f()
}

func (v *version) gets(b []byte) string {
	parts := make([]string, len(v.metrics))
	for i, mt := range v.metrics {
		s, err := v.get(b, mt.abv)
		if err != nil {
			parts[i] = "!"
		} else {
			parts[i] = hexS(s)
		}
	}
	return strings.Join(parts, ",")
}

func (v *version) roundTrip(b []byte) string {
	b2, err := v.parse(v.vector(b))
	if err != nil || string(b2) != string(b) {
		return "diff"
	}
	return "same"
}

func (v *version) opParse(s string) {
	emit("P "+v.name+" "+hexS(s), guard(func() string {
		b, err := v.parse(s)
		if err != nil {
			return "err " + v.errCode(err)
		}
		return "ok " + hexB(b) + " " + hexS(v.vector(b)) + " " + v.gets(b) + " " + v.roundTrip(b)
	}))
}

func (v *version) parseOutcome(s string) string {
	return guard(func() string {
		_, err := v.parse(s)
		if err != nil {
			return "err " + v.errCode(err)
		}
		return "ok"
	})
}

func opCross(s string) {
	emit("X "+hexS(s), guard(func() string {
		r := ""
		for _, v := range versions {
			if _, err := v.parse(s); err == nil {
				r += "1"
			} else {
				r += "0"
			}
		}
		return r
	}))
}

func (v *version) opSet(b []byte, abv, val string) []byte {
	var nb []byte
	emit("S "+v.name+" "+hexB(b)+" "+hexS(abv)+" "+hexS(val), guard(func() string {
		gb := v.gets(b)
		var err error
		nb, err = v.set(b, abv, val)
		return v.errCode(err) + " " + hexB(nb) + " " + gb + " " + v.gets(nb)
	}))
	if nb == nil {
		return b
	}
	return nb
}

func (v *version) opGet(b []byte, abv string) {
	emit("G "+v.name+" "+hexB(b)+" "+hexS(abv), guard(func() string {
		s, err := v.get(b, abv)
		return hexS(s) + " " + v.errCode(err)
	}))
}

// reached: the object was obtained through the public API only (zero value, Set, ParseVector)
func (v *version) opObj(b []byte, reached bool) {
	r := "0"
	if reached {
		r = "1"
	}
	emit("O "+v.name+" "+hexB(b)+" "+r, guard(func() string {
		vec := v.vector(b)
		nm := "-"
		if v.name == "40" {
			nm = hexS(v.nomen(b))
		}
		return hexS(vec) + " " + strconv.Itoa(v.lenVec(b)) + " " + v.gets(b) + " " + v.roundTrip(b) + " " + nm
	}))
	v.opEq(b, pick(v.metrics).abv)
}

// Go-level equality after a history of non-mutating calls (C07, last sentence)
func (v *version) opEq(b []byte, abv string) {
	emit("Q "+v.name+" "+hexB(b)+" "+hexS(abv), guard(func() string { return v.eqhist(b, abv) }))
}

// ---------------------------------------------------------------------------------------------

func main() {
	if len(os.Args) < 4 {
		fmt.Fprintln(os.Stderr, "usage: harness <stream> <quick|thorough> <seed> [args…]")
		os.Exit(2)
	}
	stream, tier := os.Args[1], os.Args[2]
	// "score:F:30,31" = stream score restricted to operation kinds F and versions 30, 31
	var filter []string
	if i := strings.Index(stream, ":"); i >= 0 {
		filter = strings.Split(stream[i+1:], ":")
		stream = stream[:i]
	}
	seed, _ := strconv.ParseInt(os.Args[3], 10, 64)
	rng = rand.New(rand.NewSource(seed))
	out = bufio.NewWriterSize(os.Stdout, 1<<20)
	defer out.Flush()
	thorough := tier == "thorough"
	switch stream {
	case "parse":
		streamParse(thorough)
	case "defect":
		streamDefect(thorough)
	case "obj":
		streamObj(thorough)
	case "score":
		streamScore(thorough, filter)
	case "rating":
		streamRating(thorough)
	case "float":
		streamFloat(thorough)
	case "alloc":
		streamAlloc(thorough)
	case "race":
		streamRace(thorough)
	case "hist":
		switch {
		case len(filter) > 0 && filter[0] == "gen":
			histObjects()
		case len(os.Args) > 4:
			streamHist(len(filter) > 0 && filter[0] == "rev", os.Args[4])
		default:
			fmt.Fprintln(os.Stderr, "hist: need hist:gen, or hist:fwd|hist:rev <object file>")
			os.Exit(2)
		}
	case "ops":
		// execute the operation lines of a file (model-based search, bin/check step "search")
		if len(os.Args) < 5 {
			fmt.Fprintln(os.Stderr, "usage: harness ops <tier> <seed> <file>")
			os.Exit(2)
		}
		streamOps(os.Args[4])
	case "sweep20":
		streamSweep20()
	case "replay":
		// replay one op line (without the impl part) given as remaining args
		replay(os.Args[4:])
	default:
		fmt.Fprintln(os.Stderr, "unknown stream", stream)
		os.Exit(2)
	}
	out.Flush()
	fmt.Fprintf(os.Stderr, "harness: stream=%s tier=%s seed=%d ops=%d\n", stream, tier, seed, nOps)
}

func unhex(s string) string {
	if s == "-" {
		return ""
	}
	b := make([]byte, len(s)/2)
	for i := range b {
		x, _ := strconv.ParseUint(s[2*i:2*i+2], 16, 8)
		b[i] = byte(x)
	}
	return string(b)
}

// replay re-executes one operation on the real code
func replay(a []string) {
	if len(a) == 0 {
		return
	}
	switch a[0] {
	case "P":
		verByName(a[1]).opParse(unhex(a[2]))
	case "X":
		opCross(unhex(a[1]))
	case "E":
		v := verByName(a[1])
		emit(strings.Join(a, " "), v.parseOutcome(unhex(a[8])))
	case "S":
		verByName(a[1]).opSet([]byte(unhex(a[2])), unhex(a[3]), unhex(a[4]))
	case "G":
		verByName(a[1]).opGet([]byte(unhex(a[2])), unhex(a[3]))
	case "O":
		verByName(a[1]).opObj([]byte(unhex(a[2])), len(a) > 3 && a[3] == "1")
	case "Q":
		verByName(a[1]).opEq([]byte(unhex(a[2])), unhex(a[3]))
	case "H":
		verByName(a[1]).opScoreHist([]byte(unhex(a[2])), []byte(unhex(a[3])))
	case "F":
		verByName(a[1]).opScore([]byte(unhex(a[2])))
	case "R":
		x, _ := strconv.ParseUint(a[2], 16, 64)
		verByName(a[1]).opRating(x)
	case "M":
		verByName(a[1]).opMono([]byte(unhex(a[2])), unhex(a[3]), unhex(a[4]), unhex(a[5]))
	case "K":
		verByName(a[1]).opEff([]byte(unhex(a[2])), []byte(unhex(a[3])))
	case "A", "C", "U":
		// runtime scenarios and float primitives are not single replayable calls: re-run the stream they came from
		fmt.Fprintln(os.Stderr, "replay: operation kind", a[0], "is replayed by re-running its stream (alloc / race / hist / float)")
		os.Exit(4)
	}
}
