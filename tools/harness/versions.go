package main

// Adapters giving the four go-cvss packages one shape. Objects are passed around as their packed
// bytes (through the `verif` build-tag hooks), so every operation can start from any byte state.

import (
	"fmt"

	gocvss20 "github.com/pandatix/go-cvss/20"
	gocvss30 "github.com/pandatix/go-cvss/30"
	gocvss31 "github.com/pandatix/go-cvss/31"
	gocvss40 "github.com/pandatix/go-cvss/40"
)

type metric struct {
	abv    string
	values []string // specification order; for optional metrics the first one is the not-defined value
	mand   bool
	group  int
}

type version struct {
	name    string
	n       int
	header  string // as written before the first element ("" for v2, "CVSS:3.1" …)
	metrics []metric
	parse   func(s string) ([]byte, error)
	get     func(b []byte, abv string) (string, error)
	set     func(b []byte, abv, val string) ([]byte, error)
	vector  func(b []byte) string
	lenVec  func(b []byte) int
	nomen   func(b []byte) string
	scores  func(b []byte) []float64
	rating  func(x float64) (string, error)
	errCode func(err error) string
	// eqhist: build the object twice from the same bytes, call every non-mutating operation on one of them (all reads,
	// all scores, failed Sets), then compare the two with Go's == (C07: equal values
	// => equal objects, whatever calls came before); also against ParseVector(Vector()) when that holds the same bytes
	eqhist func(b []byte, abv string) string
	// histscores: start from the object `a0`, score it, Set every metric to the value it has in `b` (scoring once more
	// half-way), and return the final scores and bytes — all on ONE object, through the public API
	histscores func(a0, b []byte) ([]float64, []byte)
}

func histScores[T any, P interface {
	*T
	Get(string) (string, error)
	Set(string, string) error
}](obj, target P, ms []metric, scores func(P) []float64, bytesOf func(P) []byte) ([]float64, []byte) {
	quiet := func() {
		defer func() { recover() }()
		scores(obj)
	}
	quiet()
	for i, mt := range ms {
		// only the metrics that differ are Set (a Set of every metric could wipe hidden state by accident)
		if val, err := target.Get(mt.abv); err == nil {
			if cur, err2 := obj.Get(mt.abv); err2 != nil || cur != val {
				obj.Set(mt.abv, val)
			}
		}
		if i == len(ms)/2 {
			quiet()
		}
	}
	return scores(obj), bytesOf(obj)
}

func eqHist[T comparable, P interface {
	*T
	Vector() string
	Get(string) (string, error)
	Set(string, string) error
}](a, fresh P, parse func(string) (P, error), scores func(P), bytesOf func(P) []byte, ms []metric, abv string) string {
	_ = a.Vector()
	for _, mt := range ms {
		a.Get(mt.abv)
	}
	a.Get("??")
	func() {
		defer func() { recover() }()
		scores(a)
	}()
	a.Set("??", "?")
	a.Set(abv, "\x00")
	if string(bytesOf(a)) != string(bytesOf(fresh)) {
		return "bytes-changed-by-reads"
	}
	if *a != *fresh {
		return "neq-fresh: same bytes, == is false after read-only calls"
	}
	if p, err := parse(a.Vector()); err == nil && p != nil && string(bytesOf(p)) == string(bytesOf(a)) && *p != *a {
		return "neq-parsed: same bytes, == is false against ParseVector(Vector())"
	}
	return "eq"
}

// asPtr: err IS a value of the pointer type (a direct type assertion — a wrapped error is not "the documented error value")
func asPtr[T any](err error, target **T) bool {
	p, ok := any(err).(*T)
	if ok {
		*target = p
	}
	return ok
}

func m(abv string, mand bool, group int, vs ...string) metric {
	return metric{abv: abv, values: vs, mand: mand, group: group}
}

var metrics20 = []metric{
	m("AV", true, 0, "L", "A", "N"), m("AC", true, 0, "H", "M", "L"), m("Au", true, 0, "M", "S", "N"),
	m("C", true, 0, "N", "P", "C"), m("I", true, 0, "N", "P", "C"), m("A", true, 0, "N", "P", "C"),
	m("E", false, 1, "ND", "U", "POC", "F", "H"), m("RL", false, 1, "ND", "OF", "TF", "W", "U"), m("RC", false, 1, "ND", "UC", "UR", "C"),
	m("CDP", false, 2, "ND", "N", "L", "LM", "MH", "H"), m("TD", false, 2, "ND", "N", "L", "M", "H"),
	m("CR", false, 2, "ND", "L", "M", "H"), m("IR", false, 2, "ND", "L", "M", "H"), m("AR", false, 2, "ND", "L", "M", "H"),
}

var metrics3 = []metric{
	m("AV", true, 0, "N", "A", "L", "P"), m("AC", true, 0, "L", "H"), m("PR", true, 0, "N", "L", "H"), m("UI", true, 0, "N", "R"),
	m("S", true, 0, "U", "C"), m("C", true, 0, "H", "L", "N"), m("I", true, 0, "H", "L", "N"), m("A", true, 0, "H", "L", "N"),
	m("E", false, 1, "X", "H", "F", "P", "U"), m("RL", false, 1, "X", "U", "W", "T", "O"), m("RC", false, 1, "X", "C", "R", "U"),
	m("CR", false, 2, "X", "H", "M", "L"), m("IR", false, 2, "X", "H", "M", "L"), m("AR", false, 2, "X", "H", "M", "L"),
	m("MAV", false, 2, "X", "N", "A", "L", "P"), m("MAC", false, 2, "X", "L", "H"), m("MPR", false, 2, "X", "N", "L", "H"),
	m("MUI", false, 2, "X", "N", "R"), m("MS", false, 2, "X", "U", "C"), m("MC", false, 2, "X", "H", "L", "N"),
	m("MI", false, 2, "X", "H", "L", "N"), m("MA", false, 2, "X", "H", "L", "N"),
}

var metrics40 = []metric{
	m("AV", true, 0, "N", "A", "L", "P"), m("AC", true, 0, "L", "H"), m("AT", true, 0, "N", "P"), m("PR", true, 0, "N", "L", "H"),
	m("UI", true, 0, "N", "P", "A"), m("VC", true, 0, "H", "L", "N"), m("VI", true, 0, "H", "L", "N"), m("VA", true, 0, "H", "L", "N"),
	m("SC", true, 0, "H", "L", "N"), m("SI", true, 0, "H", "L", "N"), m("SA", true, 0, "H", "L", "N"),
	m("E", false, 1, "X", "A", "P", "U"),
	m("CR", false, 2, "X", "H", "M", "L"), m("IR", false, 2, "X", "H", "M", "L"), m("AR", false, 2, "X", "H", "M", "L"),
	m("MAV", false, 2, "X", "N", "A", "L", "P"), m("MAC", false, 2, "X", "L", "H"), m("MAT", false, 2, "X", "N", "P"),
	m("MPR", false, 2, "X", "N", "L", "H"), m("MUI", false, 2, "X", "N", "P", "A"), m("MVC", false, 2, "X", "H", "L", "N"),
	m("MVI", false, 2, "X", "H", "L", "N"), m("MVA", false, 2, "X", "H", "L", "N"), m("MSC", false, 2, "X", "H", "L", "N"),
	m("MSI", false, 2, "X", "S", "H", "L", "N"), m("MSA", false, 2, "X", "S", "H", "L", "N"),
	m("S", false, 3, "X", "N", "P"), m("AU", false, 3, "X", "N", "Y"), m("R", false, 3, "X", "A", "U", "I"), m("V", false, 3, "X", "D", "C"),
	m("RE", false, 3, "X", "L", "M", "H"), m("U", false, 3, "X", "Clear", "Green", "Amber", "Red"),
}

func errS(code int, abv string) string { return fmt.Sprintf("%d:%s", code, hexS(abv)) }

var v20 = &version{
	name: "20", n: 4, header: "", metrics: metrics20,
	histscores: func(a0, b []byte) ([]float64, []byte) {
		return histScores(gocvss20.VerifFromBytes([4]byte(a0)), gocvss20.VerifFromBytes([4]byte(b)), metrics20,
			func(c *gocvss20.CVSS20) []float64 {
				return []float64{c.BaseScore(), c.TemporalScore(), c.EnvironmentalScore(), c.Impact(), c.Exploitability()}
			},
			func(c *gocvss20.CVSS20) []byte { x := gocvss20.VerifBytes(c); return x[:] })
	},
	eqhist: func(b []byte, abv string) string {
		return eqHist(gocvss20.VerifFromBytes([4]byte(b)), gocvss20.VerifFromBytes([4]byte(b)), gocvss20.ParseVector,
			func(c *gocvss20.CVSS20) {
				c.BaseScore()
				c.TemporalScore()
				c.EnvironmentalScore()
				c.Impact()
				c.Exploitability()
			},
			func(c *gocvss20.CVSS20) []byte { x := gocvss20.VerifBytes(c); return x[:] }, metrics20, abv)
	},
	parse: func(s string) ([]byte, error) {
		c, err := gocvss20.ParseVector(s)
		if (c == nil) == (err == nil) {
			panic("parse shape: object and error both nil or both non-nil")
		}
		if err != nil {
			return nil, err
		}
		b := gocvss20.VerifBytes(c)
		return b[:], nil
	},
	get: func(b []byte, abv string) (string, error) { return gocvss20.VerifFromBytes([4]byte(b)).Get(abv) },
	set: func(b []byte, abv, val string) ([]byte, error) {
		c := gocvss20.VerifFromBytes([4]byte(b))
		err := c.Set(abv, val)
		r := gocvss20.VerifBytes(c)
		return r[:], err
	},
	vector: func(b []byte) string { return gocvss20.VerifFromBytes([4]byte(b)).Vector() },
	lenVec: func(b []byte) int { return gocvss20.VerifLenVec(gocvss20.VerifFromBytes([4]byte(b))) },
	nomen:  func(b []byte) string { return "" },
	scores: func(b []byte) []float64 {
		c := gocvss20.VerifFromBytes([4]byte(b))
		return []float64{c.BaseScore(), c.TemporalScore(), c.EnvironmentalScore(), c.Impact(), c.Exploitability()}
	},
	errCode: func(err error) string {
		var im *gocvss20.ErrInvalidMetric
		switch {
		case err == nil:
			return errS(0, "")
		case err == gocvss20.ErrTooShortVector:
			return errS(2, "")
		case err == gocvss20.ErrInvalidMetricOrder:
			return errS(3, "")
		case err == gocvss20.ErrInvalidMetricValue:
			return errS(4, "")
		case asPtr(err, &im):
			return errS(101, im.Abv)
		}
		return errS(99, err.Error())
	},
}

var v30 = &version{
	name: "30", n: 6, header: "CVSS:3.0", metrics: metrics3,
	histscores: func(a0, b []byte) ([]float64, []byte) {
		return histScores(gocvss30.VerifFromBytes([6]byte(a0)), gocvss30.VerifFromBytes([6]byte(b)), metrics3,
			func(c *gocvss30.CVSS30) []float64 {
				return []float64{c.BaseScore(), c.TemporalScore(), c.EnvironmentalScore(), c.Impact(), c.Exploitability()}
			},
			func(c *gocvss30.CVSS30) []byte { x := gocvss30.VerifBytes(c); return x[:] })
	},
	eqhist: func(b []byte, abv string) string {
		return eqHist(gocvss30.VerifFromBytes([6]byte(b)), gocvss30.VerifFromBytes([6]byte(b)), gocvss30.ParseVector,
			func(c *gocvss30.CVSS30) {
				c.BaseScore()
				c.TemporalScore()
				c.EnvironmentalScore()
				c.Impact()
				c.Exploitability()
			},
			func(c *gocvss30.CVSS30) []byte { x := gocvss30.VerifBytes(c); return x[:] }, metrics3, abv)
	},
	parse: func(s string) ([]byte, error) {
		c, err := gocvss30.ParseVector(s)
		if (c == nil) == (err == nil) {
			panic("parse shape: object and error both nil or both non-nil")
		}
		if err != nil {
			return nil, err
		}
		b := gocvss30.VerifBytes(c)
		return b[:], nil
	},
	get: func(b []byte, abv string) (string, error) { return gocvss30.VerifFromBytes([6]byte(b)).Get(abv) },
	set: func(b []byte, abv, val string) ([]byte, error) {
		c := gocvss30.VerifFromBytes([6]byte(b))
		err := c.Set(abv, val)
		r := gocvss30.VerifBytes(c)
		return r[:], err
	},
	vector: func(b []byte) string { return gocvss30.VerifFromBytes([6]byte(b)).Vector() },
	lenVec: func(b []byte) int { return gocvss30.VerifLenVec(gocvss30.VerifFromBytes([6]byte(b))) },
	nomen:  func(b []byte) string { return "" },
	scores: func(b []byte) []float64 {
		c := gocvss30.VerifFromBytes([6]byte(b))
		return []float64{c.BaseScore(), c.TemporalScore(), c.EnvironmentalScore(), c.Impact(), c.Exploitability()}
	},
	rating: gocvss30.Rating,
	errCode: func(err error) string {
		var im *gocvss30.ErrInvalidMetric
		var dn *gocvss30.ErrDefinedN
		var ms *gocvss30.ErrMissing
		switch {
		case err == nil:
			return errS(0, "")
		case err == gocvss30.ErrInvalidCVSSHeader:
			return errS(1, "")
		case err == gocvss30.ErrTooShortVector:
			return errS(2, "")
		case err == gocvss30.ErrInvalidMetricValue:
			return errS(4, "")
		case err == gocvss30.ErrOutOfBoundsScore:
			return errS(5, "")
		case asPtr(err, &im):
			return errS(101, im.Abv)
		case asPtr(err, &dn):
			return errS(102, dn.Abv)
		case asPtr(err, &ms):
			return errS(103, ms.Abv)
		}
		return errS(99, err.Error())
	},
}

var v31 = &version{
	name: "31", n: 6, header: "CVSS:3.1", metrics: metrics3,
	histscores: func(a0, b []byte) ([]float64, []byte) {
		return histScores(gocvss31.VerifFromBytes([6]byte(a0)), gocvss31.VerifFromBytes([6]byte(b)), metrics3,
			func(c *gocvss31.CVSS31) []float64 {
				return []float64{c.BaseScore(), c.TemporalScore(), c.EnvironmentalScore(), c.Impact(), c.Exploitability()}
			},
			func(c *gocvss31.CVSS31) []byte { x := gocvss31.VerifBytes(c); return x[:] })
	},
	eqhist: func(b []byte, abv string) string {
		return eqHist(gocvss31.VerifFromBytes([6]byte(b)), gocvss31.VerifFromBytes([6]byte(b)), gocvss31.ParseVector,
			func(c *gocvss31.CVSS31) {
				c.BaseScore()
				c.TemporalScore()
				c.EnvironmentalScore()
				c.Impact()
				c.Exploitability()
			},
			func(c *gocvss31.CVSS31) []byte { x := gocvss31.VerifBytes(c); return x[:] }, metrics3, abv)
	},
	parse: func(s string) ([]byte, error) {
		c, err := gocvss31.ParseVector(s)
		if (c == nil) == (err == nil) {
			panic("parse shape: object and error both nil or both non-nil")
		}
		if err != nil {
			return nil, err
		}
		b := gocvss31.VerifBytes(c)
		return b[:], nil
	},
	get: func(b []byte, abv string) (string, error) { return gocvss31.VerifFromBytes([6]byte(b)).Get(abv) },
	set: func(b []byte, abv, val string) ([]byte, error) {
		c := gocvss31.VerifFromBytes([6]byte(b))
		err := c.Set(abv, val)
		r := gocvss31.VerifBytes(c)
		return r[:], err
	},
	vector: func(b []byte) string { return gocvss31.VerifFromBytes([6]byte(b)).Vector() },
	lenVec: func(b []byte) int { return gocvss31.VerifLenVec(gocvss31.VerifFromBytes([6]byte(b))) },
	nomen:  func(b []byte) string { return "" },
	scores: func(b []byte) []float64 {
		c := gocvss31.VerifFromBytes([6]byte(b))
		return []float64{c.BaseScore(), c.TemporalScore(), c.EnvironmentalScore(), c.Impact(), c.Exploitability()}
	},
	rating: gocvss31.Rating,
	errCode: func(err error) string {
		var im *gocvss31.ErrInvalidMetric
		var dn *gocvss31.ErrDefinedN
		var ms *gocvss31.ErrMissing
		switch {
		case err == nil:
			return errS(0, "")
		case err == gocvss31.ErrInvalidCVSSHeader:
			return errS(1, "")
		case err == gocvss31.ErrTooShortVector:
			return errS(2, "")
		case err == gocvss31.ErrInvalidMetricValue:
			return errS(4, "")
		case err == gocvss31.ErrOutOfBoundsScore:
			return errS(5, "")
		case asPtr(err, &im):
			return errS(101, im.Abv)
		case asPtr(err, &dn):
			return errS(102, dn.Abv)
		case asPtr(err, &ms):
			return errS(103, ms.Abv)
		}
		return errS(99, err.Error())
	},
}

var v40 = &version{
	name: "40", n: 9, header: "CVSS:4.0", metrics: metrics40,
	histscores: func(a0, b []byte) ([]float64, []byte) {
		return histScores(gocvss40.VerifFromBytes([9]byte(a0)), gocvss40.VerifFromBytes([9]byte(b)), metrics40,
			func(c *gocvss40.CVSS40) []float64 { return []float64{c.Score()} },
			func(c *gocvss40.CVSS40) []byte { x := gocvss40.VerifBytes(c); return x[:] })
	},
	eqhist: func(b []byte, abv string) string {
		return eqHist(gocvss40.VerifFromBytes([9]byte(b)), gocvss40.VerifFromBytes([9]byte(b)), gocvss40.ParseVector,
			func(c *gocvss40.CVSS40) { c.Score(); c.Nomenclature() },
			func(c *gocvss40.CVSS40) []byte { x := gocvss40.VerifBytes(c); return x[:] }, metrics40, abv)
	},
	parse: func(s string) ([]byte, error) {
		c, err := gocvss40.ParseVector(s)
		if (c == nil) == (err == nil) {
			panic("parse shape: object and error both nil or both non-nil")
		}
		if err != nil {
			return nil, err
		}
		b := gocvss40.VerifBytes(c)
		return b[:], nil
	},
	get: func(b []byte, abv string) (string, error) { return gocvss40.VerifFromBytes([9]byte(b)).Get(abv) },
	set: func(b []byte, abv, val string) ([]byte, error) {
		c := gocvss40.VerifFromBytes([9]byte(b))
		err := c.Set(abv, val)
		r := gocvss40.VerifBytes(c)
		return r[:], err
	},
	vector: func(b []byte) string { return gocvss40.VerifFromBytes([9]byte(b)).Vector() },
	lenVec: func(b []byte) int { return gocvss40.VerifLenVec(gocvss40.VerifFromBytes([9]byte(b))) },
	nomen:  func(b []byte) string { return gocvss40.VerifFromBytes([9]byte(b)).Nomenclature() },
	scores: func(b []byte) []float64 { return []float64{gocvss40.VerifFromBytes([9]byte(b)).Score()} },
	rating: gocvss40.Rating,
	errCode: func(err error) string {
		var im *gocvss40.ErrInvalidMetric
		switch {
		case err == nil:
			return errS(0, "")
		case err == gocvss40.ErrInvalidCVSSHeader:
			return errS(1, "")
		case err == gocvss40.ErrTooShortVector:
			return errS(2, "")
		case err == gocvss40.ErrInvalidMetricOrder:
			return errS(3, "")
		case err == gocvss40.ErrInvalidMetricValue:
			return errS(4, "")
		case err == gocvss40.ErrOutOfBoundsScore:
			return errS(5, "")
		case asPtr(err, &im):
			return errS(101, im.Abv)
		}
		return errS(99, err.Error())
	},
}

var versions = []*version{v20, v30, v31, v40}

func verByName(n string) *version {
	for _, v := range versions {
		if v.name == n {
			return v
		}
	}
	return nil
}
