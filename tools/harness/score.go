package main

// Score, rating and float-primitive streams.

import (
	"math"
	"strconv"
	"strings"
)

func bits(f float64) string { return strconv.FormatUint(math.Float64bits(f), 16) }

// F ver obj | bits of every score (space separated) or panic
func (v *version) opScore(b []byte) {
	emit("F "+v.name+" "+hexB(b), guard(func() string {
		sc := v.scores(b)
		parts := make([]string, len(sc))
		for i, x := range sc {
			parts[i] = bits(x)
		}
		r := strings.Join(parts, " ")
		if v.rating != nil {
			// the Rating of the (last) main scores must be accepted (C11)
			for i, x := range sc {
				if i < 3 {
					_, err := v.rating(x)
					if err != nil {
						r += " rating-rejects"
					}
				}
			}
		}
		return r + " " + v.gets(b)
	}))
}

// corner: the well-formed object in which every metric takes its value number k (counted from the end when k exceeds the list)
func (v *version) corner(k int) []byte {
	b := make([]byte, v.n)
	for _, mt := range v.metrics {
		val := mt.values[len(mt.values)-1]
		if k < len(mt.values) {
			val = mt.values[k]
		}
		if nb, err := v.set(b, mt.abv, val); err == nil {
			b = nb
		}
	}
	return b
}

// H ver start target | scores of the object reached from `start` by Set-ting every metric to target's value (format of F)
func (v *version) opScoreHist(a0, b []byte) {
	emit("H "+v.name+" "+hexB(a0)+" "+hexB(b), guard(func() string {
		sc, fb := v.histscores(a0, b)
		parts := make([]string, len(sc))
		for i, x := range sc {
			parts[i] = bits(x)
		}
		r := strings.Join(parts, " ")
		if v.rating != nil {
			for i, x := range sc {
				if i < 3 {
					if _, err := v.rating(x); err != nil {
						r += " rating-rejects"
					}
				}
			}
		}
		return r + " " + v.gets(fb)
	}))
}

// M ver obj abv v1 v2 | scores with abv:=v1, scores with abv:=v2   (C12 monotonicity pairs)
func (v *version) opMono(b []byte, abv, v1, v2 string) {
	emit("M "+v.name+" "+hexB(b)+" "+hexS(abv)+" "+hexS(v1)+" "+hexS(v2), guard(func() string {
		b1, e1 := v.set(b, abv, v1)
		b2, e2 := v.set(b, abv, v2)
		if e1 != nil || e2 != nil {
			return "seterr"
		}
		var parts []string
		for _, x := range v.scores(b1) {
			parts = append(parts, bits(x))
		}
		parts = append(parts, "/")
		for _, x := range v.scores(b2) {
			parts = append(parts, bits(x))
		}
		return strings.Join(parts, " ")
	}))
}

// K ver obj1 obj2 | scores1 / scores2 gets1 gets2   (C10: equal effective keys ⇒ equal scores)
func (v *version) opEff(b1, b2 []byte) {
	emit("K "+v.name+" "+hexB(b1)+" "+hexB(b2), guard(func() string {
		var parts []string
		for _, x := range v.scores(b1) {
			parts = append(parts, bits(x))
		}
		parts = append(parts, "/")
		for _, x := range v.scores(b2) {
			parts = append(parts, bits(x))
		}
		return strings.Join(parts, " ") + " " + v.gets(b1) + " " + v.gets(b2)
	}))
}

func (v *version) opRating(x uint64) {
	emit("R "+v.name+" "+strconv.FormatUint(x, 16), guard(func() string {
		s, err := v.rating(math.Float64frombits(x))
		code := v.errCode(err)
		return hexS(s) + " " + code[:strings.Index(code, ":")]
	}))
}

func streamRating(thorough bool) {
	var xs []uint64
	for k := -5; k <= 105; k++ {
		f := float64(k) / 10
		xs = append(xs, math.Float64bits(f), math.Float64bits(math.Nextafter(f, 100)), math.Float64bits(math.Nextafter(f, -100)))
	}
	for _, f := range []float64{0, math.Copysign(0, -1), math.Inf(1), math.Inf(-1), math.NaN(), math.SmallestNonzeroFloat64, -math.SmallestNonzeroFloat64, math.MaxFloat64, 0.1, 0.1 - 1e-17, 0.30000000000000004, 3.9999999999999996, 6.999999999999999, 8.999999999999998, 10.000000000000002} {
		xs = append(xs, math.Float64bits(f))
	}
	n := 2000
	if thorough {
		n = 200000
	}
	for i := 0; i < n; i++ {
		switch rng.Intn(3) {
		case 0:
			xs = append(xs, rng.Uint64())
		case 1:
			xs = append(xs, math.Float64bits(rng.Float64()*12-1))
		default:
			xs = append(xs, math.Float64bits(float64(rng.Intn(120))/10)+uint64(rng.Intn(5))-2)
		}
	}
	for _, v := range versions {
		if v.rating == nil {
			continue
		}
		for _, x := range xs {
			v.opRating(x)
		}
	}
}

func randFloatBits() uint64 {
	switch rng.Intn(8) {
	case 0:
		return rng.Uint64()
	case 1:
		sp := []float64{0, math.Copysign(0, -1), 1, -1, math.Inf(1), math.Inf(-1), math.NaN(), math.SmallestNonzeroFloat64, math.MaxFloat64, 0.1, 10, 100000, 10000, 0.5, 1.5, 2.5, -0.5}
		return math.Float64bits(sp[rng.Intn(len(sp))])
	case 2:
		return uint64(rng.Intn(1 << 20)) // subnormals
	case 3:
		return math.Float64bits(float64(rng.Intn(2000000)) / 100000)
	case 4:
		return math.Float64bits(float64(rng.Intn(1000)) + 0.5)
	default:
		return math.Float64bits((rng.Float64() - 0.3) * math.Pow(10, float64(rng.Intn(12)-4)))
	}
}

func b2u(b bool) uint64 {
	if b {
		return 1
	}
	return 0
}

// U op x y | result bits: validates the Lean soft-float against the hardware
func streamFloat(thorough bool) {
	n := 20000
	if thorough {
		n = 500000
	}
	ops := []string{"add", "sub", "mul", "div", "min", "max", "round", "rte", "floor", "ceil", "tr", "abs", "lt", "le", "eq", "isnan", "trunc", "ofnat"}
	for i := 0; i < n; i++ {
		op := ops[rng.Intn(len(ops))]
		x, y := randFloatBits(), randFloatBits()
		fx, fy := math.Float64frombits(x), math.Float64frombits(y)
		var r uint64
		switch op {
		case "add":
			r = math.Float64bits(fx + fy)
		case "sub":
			r = math.Float64bits(fx - fy)
		case "mul":
			r = math.Float64bits(fx * fy)
		case "div":
			r = math.Float64bits(fx / fy)
		case "min":
			r = math.Float64bits(math.Min(fx, fy))
		case "round":
			r = math.Float64bits(math.Round(fx))
		case "rte":
			r = math.Float64bits(math.RoundToEven(fx))
		case "floor":
			r = math.Float64bits(math.Floor(fx))
		case "ceil":
			r = math.Float64bits(math.Ceil(fx))
		case "tr":
			r = math.Float64bits(math.Trunc(fx))
		case "abs":
			r = math.Float64bits(math.Abs(fx))
		case "max":
			r = math.Float64bits(math.Max(fx, fy))
		case "lt":
			r = b2u(fx < fy)
		case "le":
			r = b2u(fx <= fy)
		case "eq":
			r = b2u(fx == fy)
		case "isnan":
			r = b2u(math.IsNaN(fx))
		case "trunc":
			// |int(x)| for finite x of moderate size
			if math.IsNaN(fx) || math.IsInf(fx, 0) || math.Abs(fx) > 1e15 {
				continue
			}
			t := int64(fx)
			if t < 0 {
				t = -t
			}
			r = uint64(t)
		case "ofnat":
			x = uint64(rng.Intn(1 << 30))
			r = math.Float64bits(float64(x))
		}
		if (op == "add" || op == "sub" || op == "mul" || op == "div" || op == "min" || op == "max" || op == "round" || op == "rte" || op == "floor" || op == "ceil" || op == "tr" || op == "abs") && math.IsNaN(math.Float64frombits(r)) {
			// NaN payloads are not modelled: canonicalise
			r = 0x7ff8000000000001
			emit("U "+op+" "+strconv.FormatUint(x, 16)+" "+strconv.FormatUint(y, 16), "nan")
			continue
		}
		emit("U "+op+" "+strconv.FormatUint(x, 16)+" "+strconv.FormatUint(y, 16), strconv.FormatUint(r, 16))
	}
}

// score stream: see streamScore in scorestream.go
