package main

// Runtime streams: allocation measurements (C17) and the concurrency / pool stress run (C14).
// These observe the Go runtime, which no Lean model exhibits; they are testing, and are labelled so.

import (
	"fmt"
	"math"
	"os"
	"runtime"
	"runtime/debug"
	"strconv"
	"strings"
	"sync"

	gocvss20 "github.com/pandatix/go-cvss/20"
	gocvss30 "github.com/pandatix/go-cvss/30"
	gocvss31 "github.com/pandatix/go-cvss/31"
	gocvss40 "github.com/pandatix/go-cvss/40"
)

var sinkS string
var sinkF float64
var sinkE error
var sinkP any

// minimum number of heap allocations of f over n runs, prep() run (unmeasured) before each
func minAllocs(n int, prep, f func()) uint64 {
	var a, b runtime.MemStats
	best := uint64(math.MaxUint64)
	for i := 0; i < n; i++ {
		if prep != nil {
			prep()
		}
		runtime.ReadMemStats(&a)
		f()
		runtime.ReadMemStats(&b)
		if d := b.Mallocs - a.Mallocs; d < best {
			best = d
		}
	}
	return best
}

// per-version closures working on a pre-built object (construction is outside the measurement)
type meas struct {
	parse  func(s string)
	vector func()
	get    func(abv string)
	set    func(abv, val string)
	score  func()
	nomen  func()
	rating func(x float64)
}

func (v *version) measurer(b []byte) meas {
	switch v.name {
	case "20":
		c := gocvss20.VerifFromBytes([4]byte(b))
		return meas{
			parse:  func(s string) { sinkP, sinkE = gocvss20.ParseVector(s) },
			vector: func() { sinkS = c.Vector() },
			get:    func(a string) { sinkS, sinkE = c.Get(a) },
			set:    func(a, val string) { sinkE = c.Set(a, val) },
			score: func() {
				sinkF = c.BaseScore() + c.TemporalScore() + c.EnvironmentalScore() + c.Impact() + c.Exploitability()
			},
		}
	case "30":
		c := gocvss30.VerifFromBytes([6]byte(b))
		return meas{
			parse:  func(s string) { sinkP, sinkE = gocvss30.ParseVector(s) },
			vector: func() { sinkS = c.Vector() },
			get:    func(a string) { sinkS, sinkE = c.Get(a) },
			set:    func(a, val string) { sinkE = c.Set(a, val) },
			score: func() {
				sinkF = c.BaseScore() + c.TemporalScore() + c.EnvironmentalScore() + c.Impact() + c.Exploitability()
			},
			rating: func(x float64) { sinkS, sinkE = gocvss30.Rating(x) },
		}
	case "31":
		c := gocvss31.VerifFromBytes([6]byte(b))
		return meas{
			parse:  func(s string) { sinkP, sinkE = gocvss31.ParseVector(s) },
			vector: func() { sinkS = c.Vector() },
			get:    func(a string) { sinkS, sinkE = c.Get(a) },
			set:    func(a, val string) { sinkE = c.Set(a, val) },
			score: func() {
				sinkF = c.BaseScore() + c.TemporalScore() + c.EnvironmentalScore() + c.Impact() + c.Exploitability()
			},
			rating: func(x float64) { sinkS, sinkE = gocvss31.Rating(x) },
		}
	default:
		c := gocvss40.VerifFromBytes([9]byte(b))
		return meas{
			parse:  func(s string) { sinkP, sinkE = gocvss40.ParseVector(s) },
			vector: func() { sinkS = c.Vector() },
			get:    func(a string) { sinkS, sinkE = c.Get(a) },
			set:    func(a, val string) { sinkE = c.Set(a, val) },
			score:  func() { sinkF = c.Score() },
			nomen:  func() { sinkS = c.Nomenclature() },
			rating: func(x float64) { sinkS, sinkE = gocvss40.Rating(x) },
		}
	}
}

// A ver kind arg1 arg2 arg3 | allocs
func streamAlloc(thorough bool) {
	runtime.GOMAXPROCS(1)
	debug.SetGCPercent(-1)
	n := 20
	nObj := 60
	if thorough {
		n = 60
		nObj = 600
	}
	emitA := func(v *version, kind, a1, a2, a3 string, k uint64) {
		emit("A "+v.name+" "+kind+" "+a1+" "+a2+" "+a3, strconv.FormatUint(k, 10))
	}
	for _, v := range versions {
		zero := make([]byte, v.n)
		// objects: zero, each optional metric alone with each of its values, everything defined, random ones
		objs := [][]byte{zero}
		for _, mt := range v.metrics {
			for _, val := range mt.values {
				b, err := v.set(zero, mt.abv, val)
				if err == nil {
					objs = append(objs, b)
				}
			}
		}
		for idx := 1; idx <= 4; idx++ {
			b := zero
			for _, mt := range v.metrics {
				nb, err := v.set(b, mt.abv, mt.values[idx%len(mt.values)])
				if err == nil {
					b = nb
				}
			}
			objs = append(objs, b)
		}
		// extremal lengths: every metric takes one of its longest (resp. shortest) value strings — the objects on which a
		// buffer bound that is off by a few bytes shows (ties between equally long values are broken at random)
		nExt := 120
		if thorough {
			nExt = 1500
		}
		for k := 0; k < nExt; k++ {
			b := zero
			for _, mt := range v.metrics {
				best := []string{}
				for _, val := range mt.values {
					switch {
					case len(best) == 0 || (k%4 != 3 && len(val) > len(best[0])) || (k%4 == 3 && len(val) < len(best[0])):
						best = []string{val}
					case len(val) == len(best[0]):
						best = append(best, val)
					}
				}
				if k%4 == 2 && rng.Intn(6) == 0 {
					best = mt.values // mostly-longest
				}
				if nb, err := v.set(b, mt.abv, pick(best)); err == nil {
					b = nb
				}
			}
			objs = append(objs, b)
		}
		for i := 0; i < nObj; i++ {
			objs = append(objs, v.randomWF())
		}
		bads := []string{"", "garbage", v.header + "/AV:N", strings.Replace(v.vector(objs[len(objs)-1]), ":", ":Z", 3), v.vector(objs[1]) + "/", v.vector(objs[2]) + "/ZZ:Q"}
		for _, b := range objs {
			ms := v.measurer(b)
			vec := v.vector(b)
			emitA(v, "vector", hexB(b), "-", "-", minAllocs(n, nil, ms.vector))
			emitA(v, "parse", "-", hexS(vec), "-", minAllocs(n, func() { ms.parse(vec) }, func() { ms.parse(vec) }))
			emitA(v, "score", hexB(b), "-", "-", minAllocs(n, nil, ms.score))
			if ms.nomen != nil {
				emitA(v, "nomen", hexB(b), "-", "-", minAllocs(n, nil, ms.nomen))
			}
			mt := pick(v.metrics)
			emitA(v, "get", hexB(b), hexS(mt.abv), "-", minAllocs(n, nil, func() { ms.get(mt.abv) }))
			val := pick(mt.values)
			emitA(v, "set", hexB(b), hexS(mt.abv), hexS(val), minAllocs(n, nil, func() { ms.set(mt.abv, val) }))
			emitA(v, "set", hexB(b), hexS(mt.abv), hexS("Zz"), minAllocs(n, nil, func() { ms.set(mt.abv, "Zz") }))
		}
		// a successful parse right after a rejected one (multi-step histories)
		for _, bad := range bads {
			for _, b := range objs[:8] {
				ms := v.measurer(b)
				vec := v.vector(b)
				emitA(v, "parse", hexS(bad), hexS(vec), "-", minAllocs(n, func() { ms.parse(vec); ms.parse(bad) }, func() { ms.parse(vec) }))
			}
		}
		// every kind of rejection (token edits of every vector shape: each group combination, an element too many, too few,
		// repeated, unknown, illegal …) followed by a valid parse: an error path that forgets to hand a pooled buffer back
		// shows as extra allocations of the NEXT call
		{
			var rej []string
			for _, w := range v.skeletons() {
				rej = append(rej, v.tokenEdits(w)...)
			}
			rej = dedupe(rej)
			rng.Shuffle(len(rej), func(i, j int) { rej[i], rej[j] = rej[j], rej[i] })
			limit := 250
			if thorough {
				limit = 4000
			}
			okVec := v.vector(objs[len(objs)-1])
			ms := v.measurer(objs[len(objs)-1])
			cnt := 0
			for _, bad := range rej {
				if cnt >= limit {
					break
				}
				if _, err := v.parse(bad); err == nil {
					continue
				}
				cnt++
				bad := bad
				emitA(v, "parse", hexS(bad), hexS(okVec), "-", minAllocs(5, func() { ms.parse(okVec); ms.parse(bad) }, func() { ms.parse(okVec) }))
			}
		}
		if v.rating != nil {
			ms := v.measurer(zero)
			for _, x := range []float64{0, 0.05, 3.9, 4, 9.9, 10, 11, -1, math.Inf(1)} {
				emitA(v, "rating", strconv.FormatUint(math.Float64bits(x), 16), "-", "-", minAllocs(n, nil, func() { ms.rating(x) }))
			}
		}
	}
}

// C14: concurrent use, poisoned pool, stability of returned strings, independence of copies.
// Every line: `C scenario detail | same` (or `diff …`).
func streamRace(thorough bool) {
	workers, rounds := 16, 200
	if thorough {
		rounds = 3000
	}
	// cold start: the very first scoring / serialising / parsing calls of the process happen concurrently (lazily
	// initialised package state shows only here); the sequential reference is computed afterwards
	for _, v := range versions {
		// the random choices are drawn here (the rng is not goroutine-safe and the library is not touched yet); the objects
		// themselves are built inside the goroutines, so the first Set/Get/Vector/score/parse calls are all concurrent
		const nCold = 64
		choices := make([][][2]int, nCold)
		for i := range choices {
			for k, mt := range v.metrics {
				if mt.mand || rng.Intn(3) == 0 {
					choices[i] = append(choices[i], [2]int{k, rng.Intn(len(mt.values))})
				}
			}
		}
		build := func(i int) []byte {
			b := make([]byte, v.n)
			for _, c := range choices[i] {
				mt := v.metrics[c[0]]
				if nb, err := v.set(b, mt.abv, mt.values[c[1]]); err == nil {
					b = nb
				}
			}
			return b
		}
		objs := make([][]byte, nCold)
		got := make([]string, nCold)
		var wg sync.WaitGroup
		start := make(chan struct{})
		for i := range objs {
			wg.Add(1)
			go func(i int) {
				defer wg.Done()
				<-start
				objs[i] = build(i)
				g, _ := v.get(objs[i], v.metrics[i%len(v.metrics)].abv)
				got[i] = g + " " + v.observe(objs[i]) + " " + v.fullOutcome(v.vector(objs[i]))
			}(i)
		}
		close(start)
		wg.Wait()
		res := "same"
		for i := range objs {
			g, _ := v.get(build(i), v.metrics[i%len(v.metrics)].abv)
			if want := g + " " + v.observe(build(i)) + " " + v.fullOutcome(v.vector(build(i))); want != got[i] || string(build(i)) != string(objs[i]) {
				res = "diff cold-start:" + hexB(objs[i])
			}
		}
		emit("C "+v.name+" cold-concurrent "+strconv.Itoa(len(objs)), res)
	}
	for _, v := range versions {
		// inputs and their sequential results
		var inputs []string
		for i := 0; i < 64; i++ {
			w := v.randomValid()
			s := v.render(w)
			if i%4 == 3 {
				s = mutateBytes(s)
			}
			inputs = append(inputs, s)
		}
		expect := make([]string, len(inputs))
		for i, s := range inputs {
			expect[i] = v.fullOutcome(s)
		}
		shared := v.randomWF() // shared read-only object
		sharedExpect := v.observe(shared)
		var wg sync.WaitGroup
		diffs := make([]string, workers)
		for w := 0; w < workers; w++ {
			wg.Add(1)
			go func(w int) {
				defer wg.Done()
				own := make([]byte, v.n)
				for r := 0; r < rounds; r++ {
					i := (r*7 + w*13) % len(inputs)
					if got := v.fullOutcome(inputs[i]); got != expect[i] {
						diffs[w] = fmt.Sprintf("parse %s: %s != %s", hexS(inputs[i]), got, expect[i])
						return
					}
					if got := v.observe(shared); got != sharedExpect {
						diffs[w] = "shared object observed differently: " + got
						return
					}
					mt := v.metrics[(r+w)%len(v.metrics)]
					nb, err := v.set(own, mt.abv, mt.values[r%len(mt.values)])
					if err != nil {
						diffs[w] = "set failed"
						return
					}
					own = nb
				}
			}(w)
		}
		wg.Wait()
		res := "same"
		for _, d := range diffs {
			if d != "" {
				res = "diff " + strings.ReplaceAll(d, " ", "_")
			}
		}
		emit("C "+v.name+" concurrent "+strconv.Itoa(workers)+"x"+strconv.Itoa(rounds), res)

		// a string returned by Vector() never changes afterwards
		var kept []string
		var keptCopy []string
		var objs [][]byte
		for i := 0; i < 200; i++ {
			b := v.randomWF()
			s := v.vector(b)
			kept = append(kept, s)
			keptCopy = append(keptCopy, string(append([]byte{}, s...)))
			objs = append(objs, b)
		}
		for i := 0; i < 2000; i++ {
			b := objs[i%len(objs)]
			_ = v.vector(b)
			_, _ = v.parse(inputs[i%len(inputs)])
			mt := pick(v.metrics)
			_, _ = v.set(b, mt.abv, pick(mt.values))
		}
		runtime.GC()
		res = "same"
		for i := range kept {
			if kept[i] != keptCopy[i] {
				res = "diff vector-string-changed"
			}
		}
		emit("C "+v.name+" vector-stable 200", res)

		// a copy of an object is independent of the original (value semantics through the public API)
		res = "same"
		for i := 0; i < 200; i++ {
			if d := v.copyIndependent(); d != "" {
				res = "diff " + d
			}
		}
		emit("C "+v.name+" copy-independent 200", res)

		// one live object through a whole history of Set/score/Vector calls: after every step it must behave like a fresh
		// object with the same bytes (no hidden per-object state such as cached scores)
		res = "same"
		for h := 0; h < 40 && res == "same"; h++ {
			live := v.live(make([]byte, v.n))
			for st := 0; st < 25; st++ {
				mt := pick(v.metrics)
				val := pick(append(append([]string{}, mt.values...), "ZZ"))
				live.set(mt.abv, val)
				if got, want := live.observe(), v.observe(live.bytes()); got != want {
					res = "diff live-object-after-Set(" + mt.abv + "," + val + "):" + hexB(live.bytes())
					break
				}
			}
		}
		emit("C "+v.name+" same-object 40x25", res)
	}
	// v2 pool: poisoned buffers must not influence results
	poison := func() []string {
		p := make([]string, 14)
		for i := range p {
			p[i] = pick([]string{"AV:N", "E:H", "garbage", "", "AR:H", "RC:C", "A:C/X"})
		}
		return p
	}
	n := 2000
	if thorough {
		n = 40000
	}
	res := "same"
	for i := 0; i < n; i++ {
		s := v20.render(v20.randomValid())
		switch i % 5 {
		case 1:
			s = mutateBytes(s)
		case 2:
			s = s[:rng.Intn(len(s)+1)]
		}
		clean := v20.fullOutcome(s)
		for k := 0; k < 4; k++ {
			gocvss20.VerifPoolPut(poison())
		}
		if got := v20.fullOutcome(s); got != clean {
			res = "diff poisoned-pool:" + hexS(s)
		}
	}
	emit("C 20 poisoned-pool "+strconv.Itoa(n), res)

	// v2 pool: no buffer may be in the pool twice (a second Put on some path would hand one scratch slice to two
	// concurrent parsers). Deterministic probe on one goroutine: empty the pool, run ONE call of every kind (accepted and
	// every kind of rejection), then take two buffers out without putting any back — they must be different arrays.
	var inputs []string
	for _, w := range v20.skeletons() {
		inputs = append(inputs, v20.render(w))
		inputs = append(inputs, v20.tokenEdits(w)...)
	}
	inputs = dedupe(inputs)
	rng.Shuffle(len(inputs), func(i, j int) { inputs[i], inputs[j] = inputs[j], inputs[i] })
	limit := 600
	if thorough {
		limit = 20000
	}
	if len(inputs) > limit {
		inputs = inputs[:limit]
	}
	res = "same"
	var keep [][]string
	for _, in := range inputs {
		keep = keep[:0]
		for k := 0; k < 6; k++ {
			keep = append(keep, gocvss20.VerifPoolGet()) // drain (and hold on to) whatever is pooled
		}
		v20.parseOutcome(in)
		a, b := gocvss20.VerifPoolGet(), gocvss20.VerifPoolGet()
		if len(a) > 0 && len(b) > 0 && &a[0] == &b[0] {
			res = "diff pool-holds-one-buffer-twice-after:" + hexS(in)
			break
		}
	}
	emit("C 20 pool-unique "+strconv.Itoa(len(inputs)), res)
}

func (v *version) fullOutcome(s string) string {
	return guard(func() string {
		b, err := v.parse(s)
		if err != nil {
			return "err " + v.errCode(err)
		}
		return "ok " + hexB(b)
	})
}

func (v *version) observe(b []byte) string {
	return guard(func() string {
		sc := v.scores(b)
		parts := []string{v.vector(b), v.gets(b)}
		for _, x := range sc {
			parts = append(parts, bits(x))
		}
		return strings.Join(parts, " ")
	})
}

// through the real types: copy, mutate the copy, original unchanged (and vice versa)
func (v *version) copyIndependent() string {
	b := v.randomWF()
	mt := pick(v.metrics)
	val := pick(mt.values)
	switch v.name {
	case "20":
		c := gocvss20.VerifFromBytes([4]byte(b))
		d := *c
		_ = d.Set(mt.abv, val)
		if gocvss20.VerifBytes(c) != [4]byte(b) {
			return "original changed"
		}
	case "30":
		c := gocvss30.VerifFromBytes([6]byte(b))
		d := *c
		_ = d.Set(mt.abv, val)
		if gocvss30.VerifBytes(c) != [6]byte(b) {
			return "original changed"
		}
	case "31":
		c := gocvss31.VerifFromBytes([6]byte(b))
		d := *c
		_ = d.Set(mt.abv, val)
		if gocvss31.VerifBytes(c) != [6]byte(b) {
			return "original changed"
		}
	case "40":
		c := gocvss40.VerifFromBytes([9]byte(b))
		d := *c
		_ = d.Set(mt.abv, val)
		if gocvss40.VerifBytes(c) != [9]byte(b) {
			return "original changed"
		}
	}
	return ""
}

// History stream (C14): the same operations on the same inputs, executed in forward or reverse order by two separate
// processes; bin/check compares the two outputs key by key. A result that depends on what was called before (caches,
// memoisation, pooled state) differs between the two runs.
// histObjects prints the objects (one "ver hex" per line) the hist stream works on; a separate process does this so that
// neither measured run is pre-warmed by the generation itself
func histObjects() {
	for _, v := range versions {
		zero := make([]byte, v.n)
		var objs [][]byte
		bases := [][]byte{zero, v.randomWF(), v.randomWF(), v.randomWF()}
		for _, b := range bases {
			objs = append(objs, b)
			for _, mt := range v.metrics {
				for _, val := range mt.values {
					if nb, err := v.set(b, mt.abv, val); err == nil {
						objs = append(objs, nb)
					}
				}
			}
		}
		for i := 0; i < 300; i++ {
			objs = append(objs, v.randomWF())
		}
		seen := map[string]bool{}
		for _, b := range objs {
			if !seen[string(b)] {
				seen[string(b)] = true
				out.WriteString(v.name + " " + hexB(b) + "\n")
			}
		}
	}
}

func streamHist(reverse bool, objfile string) {
	type job struct {
		key string
		run func() string
	}
	var jobs []job
	data, err := os.ReadFile(objfile)
	if err != nil {
		fmt.Fprintln(os.Stderr, "hist: cannot read object file:", err)
		os.Exit(3)
	}
	for _, line := range strings.Split(strings.TrimSpace(string(data)), "\n") {
		f := strings.Fields(line)
		if len(f) != 2 {
			continue
		}
		v := verByName(f[0])
		b := []byte(unhex(f[1]))
		// the first operation on every object differs between jobs, so each exported function also gets to be "first"
		jobs = append(jobs, job{"C " + v.name + " history obs:" + hexB(b), func() string { return v.observe(b) }})
		jobs = append(jobs, job{"C " + v.name + " history vecparse:" + hexB(b), func() string {
			vec := v.vector(b)
			return v.fullOutcome(vec) + "_" + v.fullOutcome(vec[:len(vec)*2/3]) + "_" + v.fullOutcome(vec+"/")
		}})
		mt := v.metrics[int(b[0])%len(v.metrics)]
		jobs = append(jobs, job{"C " + v.name + " history setget:" + hexB(b), func() string {
			nb, err := v.set(b, mt.abv, mt.values[len(mt.values)-1])
			g, _ := v.get(nb, mt.abv)
			return hexB(nb) + "_" + v.errCode(err) + "_" + g
		}})
	}
	if reverse {
		for i, j := 0, len(jobs)-1; i < j; i, j = i+1, j-1 {
			jobs[i], jobs[j] = jobs[j], jobs[i]
		}
	}
	for _, j := range jobs {
		out.WriteString(j.key + " | " + strings.ReplaceAll(j.run(), " ", "_") + "\n")
		nOps++
	}
}

// a live object kept across calls (as opposed to the byte-state adapters, which rebuild the object for every call)
type liveObj struct {
	set     func(abv, val string)
	observe func() string
	bytes   func() []byte
}

func obsJoin(vec string, gets func(string) string, ms []metric, sc []float64) string {
	parts := []string{vec}
	var g []string
	for _, mt := range ms {
		g = append(g, gets(mt.abv))
	}
	parts = append(parts, strings.Join(g, ","))
	for _, x := range sc {
		parts = append(parts, bits(x))
	}
	return strings.Join(parts, " ")
}

func (v *version) live(b []byte) liveObj {
	hexGet := func(get func(string) (string, error)) func(string) string {
		return func(a string) string {
			s, err := get(a)
			if err != nil {
				return "!"
			}
			return hexS(s)
		}
	}
	switch v.name {
	case "20":
		c := gocvss20.VerifFromBytes([4]byte(b))
		return liveObj{
			set: func(a, val string) { _ = c.Set(a, val) },
			observe: func() string {
				return guard(func() string {
					return obsJoin(c.Vector(), hexGet(c.Get), v.metrics, []float64{c.BaseScore(), c.TemporalScore(), c.EnvironmentalScore(), c.Impact(), c.Exploitability()})
				})
			},
			bytes: func() []byte { x := gocvss20.VerifBytes(c); return x[:] },
		}
	case "30":
		c := gocvss30.VerifFromBytes([6]byte(b))
		return liveObj{
			set: func(a, val string) { _ = c.Set(a, val) },
			observe: func() string {
				return guard(func() string {
					return obsJoin(c.Vector(), hexGet(c.Get), v.metrics, []float64{c.BaseScore(), c.TemporalScore(), c.EnvironmentalScore(), c.Impact(), c.Exploitability()})
				})
			},
			bytes: func() []byte { x := gocvss30.VerifBytes(c); return x[:] },
		}
	case "31":
		c := gocvss31.VerifFromBytes([6]byte(b))
		return liveObj{
			set: func(a, val string) { _ = c.Set(a, val) },
			observe: func() string {
				return guard(func() string {
					return obsJoin(c.Vector(), hexGet(c.Get), v.metrics, []float64{c.BaseScore(), c.TemporalScore(), c.EnvironmentalScore(), c.Impact(), c.Exploitability()})
				})
			},
			bytes: func() []byte { x := gocvss31.VerifBytes(c); return x[:] },
		}
	default:
		c := gocvss40.VerifFromBytes([9]byte(b))
		return liveObj{
			set: func(a, val string) { _ = c.Set(a, val) },
			observe: func() string {
				return guard(func() string { return obsJoin(c.Vector(), hexGet(c.Get), v.metrics, []float64{c.Score()}) })
			},
			bytes: func() []byte { x := gocvss40.VerifBytes(c); return x[:] },
		}
	}
}
