package main

func streamAlloc(thorough bool) {}
func streamRace(thorough bool)  {}
