package main

// Search support (bin/check, step "search"):
//
//   harness ops <tier> <seed> <file>     executes the operation lines of <file> (the text before " | " of a harness
//                                        line, e.g. `F 31 <object bytes hex>`, as written by lean/Driver/Search.lean)
//                                        on the real code, one result line each.
//   harness sweep20 <tier> <seed>        v2.0 only (the one version whose object space can be walked): runs the real
//                                        BaseScore/TemporalScore/EnvironmentalScore/Impact/Exploitability on ALL
//                                        139,968,000 well-formed objects and compares each result, bit for bit, with the
//                                        composition of the real code's own results on the representatives of the factored
//                                        domains the C05 proofs enumerate (base 729; recomputed base 46,656; temporal step;
//                                        final step). The representatives themselves are judged against the Spec by the
//                                        model-based search and the score stream; an object that breaks the factorisation
//                                        is written as an `F` operation line and then judged against the Spec by the driver.

import (
	"bufio"
	"fmt"
	"math"
	"os"
	"strings"
	"sync"
)

func streamOps(file string) {
	f, err := os.Open(file)
	if err != nil {
		fmt.Fprintln(os.Stderr, "ops:", err)
		os.Exit(2)
	}
	defer f.Close()
	sc := bufio.NewScanner(f)
	sc.Buffer(make([]byte, 1<<20), 1<<24)
	for sc.Scan() {
		line := strings.TrimSpace(sc.Text())
		if i := strings.Index(line, " | "); i >= 0 {
			line = line[:i]
		}
		if line == "" {
			continue
		}
		replay(strings.Split(line, " "))
	}
}

type sc5 [5]uint64

func (v *version) bits5(b []byte) (r sc5) {
	defer func() {
		if e := recover(); e != nil {
			r = sc5{1, 1, 1, 1, 1} // a panic: never equal to a representative's result pattern by accident (subnormal 5e-324)
		}
	}()
	for i, x := range v.scores(b) {
		r[i] = math.Float64bits(x)
	}
	return r
}

const sweepMaxReport = 200

func streamSweep20() {
	v := v20
	zero := make([]byte, v.n)
	// contribution of every (metric, value): the bytes of the zero object after Set (fields are disjoint bit ranges)
	contrib := make([][][]byte, len(v.metrics))
	for i, mt := range v.metrics {
		for _, val := range mt.values {
			nb, err := v.set(zero, mt.abv, val)
			if err != nil {
				nb = append([]byte{}, zero...)
			}
			contrib[i] = append(contrib[i], nb)
		}
	}
	or := func(dst []byte, parts ...[]byte) {
		for i := range dst {
			dst[i] = 0
		}
		for _, p := range parts {
			for i := range dst {
				dst[i] |= p[i]
			}
		}
	}
	// index spaces: base (metrics 0..5), temporal t (6..8), final f (9,10), requirements r (11..13)
	space := func(idx ...int) [][]byte {
		res := [][]byte{append([]byte{}, zero...)}
		for _, k := range idx {
			var nx [][]byte
			for _, p := range res {
				for _, c := range contrib[k] {
					q := make([]byte, v.n)
					or(q, p, c)
					nx = append(nx, q)
				}
			}
			res = nx
		}
		return res
	}
	B, T, F, R := space(0, 1, 2, 3, 4, 5), space(6, 7, 8), space(9, 10), space(11, 12, 13)
	obj := func(b, r, t, f []byte) []byte {
		o := make([]byte, v.n)
		or(o, b, r, t, f)
		return o
	}
	// tables from the real code on the representatives
	baseT := make([]sc5, len(B))   // all five results of the base-only object
	repBase := map[uint64][]byte{} // BaseScore bits -> a base part
	for i, b := range B {
		baseT[i] = v.bits5(obj(b, R[0], T[0], F[0]))
		if _, ok := repBase[baseT[i][0]]; !ok {
			repBase[baseT[i][0]] = b
		}
	}
	tempT := map[uint64][]uint64{} // BaseScore bits -> TemporalScore bits per t
	for fl, b := range repBase {
		row := make([]uint64, len(T))
		for ti, t := range T {
			row[ti] = v.bits5(obj(b, R[0], t, F[0]))[1]
		}
		tempT[fl] = row
	}
	rbT := make([][]uint64, len(B)) // recomputed base = EnvironmentalScore with temporal and CDP/TD not defined
	repRB := map[uint64][]byte{}
	for i, b := range B {
		rbT[i] = make([]uint64, len(R))
		for ri, r := range R {
			o := obj(b, r, T[0], F[0])
			rbT[i][ri] = v.bits5(o)[2]
			if _, ok := repRB[rbT[i][ri]]; !ok {
				repRB[rbT[i][ri]] = o
			}
		}
	}
	t2T := map[uint64][]uint64{} // recomputed base bits -> adjusted temporal bits per t
	repAT := map[uint64][]byte{}
	for fl, o := range repRB {
		row := make([]uint64, len(T))
		for ti, t := range T {
			o2 := obj(o, t, zero, zero)
			row[ti] = v.bits5(o2)[2]
			if _, ok := repAT[row[ti]]; !ok {
				repAT[row[ti]] = o2
			}
		}
		t2T[fl] = row
	}
	fT := map[uint64][]uint64{} // adjusted temporal bits -> EnvironmentalScore bits per f
	for fl, o := range repAT {
		row := make([]uint64, len(F))
		for fi, f := range F {
			row[fi] = v.bits5(obj(o, f, zero, zero))[2]
		}
		fT[fl] = row
	}
	// the sweep, parallel over the base classes
	var mu sync.Mutex
	var bad [][]byte
	total := 0
	var wg sync.WaitGroup
	sem := make(chan struct{}, 8)
	for bi := range B {
		wg.Add(1)
		sem <- struct{}{}
		go func(bi int) {
			defer wg.Done()
			defer func() { <-sem }()
			b := B[bi]
			o := make([]byte, v.n)
			var mine [][]byte
			n := 0
			trow := tempT[baseT[bi][0]]
			for ri, r := range R {
				t2row := t2T[rbT[bi][ri]]
				for ti, t := range T {
					var frow []uint64
					if t2row != nil {
						frow = fT[t2row[ti]]
					}
					for fi, f := range F {
						or(o, b, r, t, f)
						got := v.bits5(o)
						n++
						ok := got[0] == baseT[bi][0] && got[3] == baseT[bi][3] && got[4] == baseT[bi][4] &&
							trow != nil && got[1] == trow[ti] && frow != nil && got[2] == frow[fi]
						if !ok && len(mine) < sweepMaxReport {
							mine = append(mine, append([]byte{}, o...))
						}
					}
				}
			}
			mu.Lock()
			total += n
			if len(bad) < sweepMaxReport {
				bad = append(bad, mine...)
			}
			mu.Unlock()
		}(bi)
	}
	wg.Wait()
	// one operation is always written, so that an empty result is distinguishable from a run that did not happen
	v.opScore(obj(B[0], R[0], T[0], F[0]))
	for i, o := range bad {
		if i >= sweepMaxReport {
			break
		}
		v.opScore(o)
	}
	fmt.Fprintf(os.Stderr, "sweep20: %d objects, %d break the factorisation (at most %d written)\n", total, len(bad), sweepMaxReport)
}
