module okgen
go 1.22.0
