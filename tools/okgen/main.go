// okgen: source-to-source generator of "returns normally" twins.
//
// For every function f of a go-cvss package that can panic — directly (a `panic(...)` statement, an index expression, an
// integer division by a non-constant) or through a callee — it writes a twin `f_ok` with the same parameters and receiver that
// returns `true` exactly when f returns normally: the body of f with
//   - a local verdict `okResult := true`,
//   - `panic(...)`                      replaced by `okResult = false`,
//   - `return e…`                       replaced by `return okResult && S`,
//   - before every statement, a guard `okResult = okResult && S` where S is the conjunction, over the expressions the statement
//     evaluates (in evaluation order, short-circuit operators respected), of `g_ok(args)` for every call of a function g that can
//     panic and of `int(i) < len(x)` for every index expression x[i],
//
// everything else (assignments, conditions, loops) left as it is, so that the twin follows the same path as f.
// Functions that cannot panic at all get no twin; their names are listed in the generated constant `okPanicFree`.
//
// Output: a scratch copy of the package (non-test files other than the `//go:build verif` hooks, verbatim) plus `zz_ok.go`.
// The ordinary translator (tools/gen) is then run on that copy with the twins of the exported API as roots, which yields
// lean/Cvss/Gen/K<ver>.lean — a regenerated, kernel-evaluable statement of "this call does not panic" for every function.
//
// Not covered (refused, exit 1, when they occur in a function that needs a twin): slice expressions, type assertions, closures,
// defer/go, labelled statements, division by a non-constant. nil dereference of the in-out `*[]byte` parameters is not a
// panic source here (every caller passes the address of a local).
//
// usage: okgen <package dir> <output dir> <skip>…     (skip: functions handled by the parser-mode translator, e.g. ParseVector)
package main

import (
	"bytes"
	"fmt"
	"go/ast"
	"go/build"
	"go/constant"
	"go/format"
	"go/importer"
	"go/parser"
	"go/token"
	"go/types"
	"os"
	"path/filepath"
	"sort"
	"strings"
)

var (
	fset *token.FileSet
	info *types.Info
	pkg  *types.Package
)

func die(n ast.Node, f string, a ...any) {
	fmt.Fprintf(os.Stderr, "%s: okgen: unsupported: %s\n", fset.Position(n.Pos()), fmt.Sprintf(f, a...))
	os.Exit(1)
}

func matchFile(dir, name string) bool {
	ctx := build.Default
	ctx.BuildTags = nil
	ctx.CgoEnabled = true
	ok, err := ctx.MatchFile(dir, name)
	return err == nil && ok
}

// key of a function or method declared in the package: "f" or "T.m"
func declKey(fd *ast.FuncDecl) string {
	if fd.Recv == nil {
		return fd.Name.Name
	}
	rt := fd.Recv.List[0].Type
	if st, ok := rt.(*ast.StarExpr); ok {
		rt = st.X
	}
	if id, ok := rt.(*ast.Ident); ok {
		return id.Name + "." + fd.Name.Name
	}
	return "?." + fd.Name.Name
}

// callee of a call expression, if it is a function or method declared in this package
func calleeKey(c *ast.CallExpr) (string, bool) {
	switch f := c.Fun.(type) {
	case *ast.Ident:
		if fn, ok := info.Uses[f].(*types.Func); ok && fn.Pkg() == pkg {
			return f.Name, true
		}
	case *ast.SelectorExpr:
		if sel, ok := info.Selections[f]; ok && sel.Kind() == types.MethodVal {
			if fn, ok := sel.Obj().(*types.Func); ok && fn.Pkg() == pkg {
				t := sel.Recv()
				if p, ok := t.(*types.Pointer); ok {
					t = p.Elem()
				}
				if n, ok := t.(*types.Named); ok {
					return n.Obj().Name() + "." + fn.Name(), true
				}
			}
		}
	}
	return "", false
}

func isPanicCall(e ast.Expr) bool {
	c, ok := e.(*ast.CallExpr)
	if !ok {
		return false
	}
	id, ok := c.Fun.(*ast.Ident)
	if !ok || id.Name != "panic" {
		return false
	}
	_, isB := info.Uses[id].(*types.Builtin)
	return isB
}

func isConst(e ast.Expr) bool {
	tv, ok := info.Types[e]
	return ok && tv.Value != nil
}

// direct panic sources of a function body, and its package-level callees
func analyse(fd *ast.FuncDecl) (direct bool, callees []string) {
	seen := map[string]bool{}
	ast.Inspect(fd.Body, func(n ast.Node) bool {
		switch x := n.(type) {
		case *ast.CallExpr:
			if isPanicCall(x) {
				direct = true
			}
			if k, ok := calleeKey(x); ok && !seen[k] {
				seen[k] = true
				callees = append(callees, k)
			}
		case *ast.IndexExpr:
			if tv, ok := info.Types[x.X]; ok {
				switch tv.Type.Underlying().(type) {
				case *types.Map:
				default:
					direct = true
				}
			}
		case *ast.SliceExpr, *ast.TypeAssertExpr:
			direct = true
		case *ast.BinaryExpr:
			if (x.Op == token.QUO || x.Op == token.REM) && !isConst(x.Y) {
				if bt, ok := info.Types[x].Type.Underlying().(*types.Basic); ok && bt.Info()&types.IsInteger != 0 {
					direct = true
				}
			}
		}
		return true
	})
	return
}

var needs = map[string]bool{} // functions that can panic

func and(a, b ast.Expr) ast.Expr {
	if a == nil {
		return b
	}
	if b == nil {
		return a
	}
	return &ast.BinaryExpr{X: a, Op: token.LAND, Y: b}
}

func ident(s string) *ast.Ident { return &ast.Ident{Name: s} }

// safe(e): a Go boolean expression that is true iff evaluating e does not panic (nil = trivially true)
func safe(e ast.Expr) ast.Expr {
	if e == nil || isConst(e) {
		return nil
	}
	if tv, ok := info.Types[e]; ok && tv.IsType() {
		return nil
	}
	switch x := e.(type) {
	case *ast.ParenExpr:
		return safe(x.X)
	case *ast.Ident, *ast.BasicLit:
		return nil
	case *ast.SelectorExpr:
		return safe(x.X)
	case *ast.StarExpr:
		return safe(x.X)
	case *ast.UnaryExpr:
		return safe(x.X)
	case *ast.BinaryExpr:
		switch x.Op {
		case token.LAND:
			// a && b: b is evaluated only when a holds
			if sb := safe(x.Y); sb != nil {
				return and(safe(x.X), &ast.ParenExpr{X: &ast.BinaryExpr{X: &ast.UnaryExpr{Op: token.NOT, X: &ast.ParenExpr{X: x.X}}, Op: token.LOR, Y: sb}})
			}
			return safe(x.X)
		case token.LOR:
			if sb := safe(x.Y); sb != nil {
				return and(safe(x.X), &ast.ParenExpr{X: &ast.BinaryExpr{X: &ast.ParenExpr{X: x.X}, Op: token.LOR, Y: sb}})
			}
			return safe(x.X)
		case token.QUO, token.REM:
			if !isConst(x.Y) {
				if bt, ok := info.Types[x].Type.Underlying().(*types.Basic); ok && bt.Info()&types.IsInteger != 0 {
					die(x, "integer division by a non-constant")
				}
			}
		}
		return and(safe(x.X), safe(x.Y))
	case *ast.IndexExpr:
		s := and(safe(x.X), safe(x.Index))
		tv := info.Types[x.X]
		switch tv.Type.Underlying().(type) {
		case *types.Map:
			return s
		}
		var idx ast.Expr = x.Index
		if c, ok := info.Types[x.Index]; ok && c.Value != nil {
			n, _ := constant.Int64Val(c.Value)
			idx = &ast.BasicLit{Kind: token.INT, Value: fmt.Sprint(n)}
		} else {
			idx = &ast.CallExpr{Fun: ident("int"), Args: []ast.Expr{x.Index}}
		}
		inRange := &ast.BinaryExpr{X: idx, Op: token.LSS, Y: &ast.CallExpr{Fun: ident("len"), Args: []ast.Expr{x.X}}}
		return and(s, inRange)
	case *ast.CallExpr:
		if isPanicCall(x) {
			die(x, "panic in expression position")
		}
		var s ast.Expr
		if sel, ok := x.Fun.(*ast.SelectorExpr); ok {
			s = safe(sel.X)
		}
		for _, a := range x.Args {
			s = and(s, safe(a))
		}
		if k, ok := calleeKey(x); ok && needs[k] {
			var fun ast.Expr
			switch f := x.Fun.(type) {
			case *ast.Ident:
				fun = ident(f.Name + "_ok")
			case *ast.SelectorExpr:
				fun = &ast.SelectorExpr{X: f.X, Sel: ident(f.Sel.Name + "_ok")}
			}
			s = and(s, &ast.CallExpr{Fun: fun, Args: x.Args})
		}
		return s
	case *ast.CompositeLit:
		var s ast.Expr
		for _, el := range x.Elts {
			if kv, ok := el.(*ast.KeyValueExpr); ok {
				s = and(s, safe(kv.Value))
			} else {
				s = and(s, safe(el))
			}
		}
		return s
	case *ast.SliceExpr:
		die(x, "slice expression")
	case *ast.TypeAssertExpr:
		die(x, "type assertion")
	case *ast.FuncLit:
		die(x, "closure")
	}
	die(e, "expression %T", e)
	return nil
}

// The twin keeps its verdict in the local `okResult` (initially true) and never adds control flow of its own: a guard is the
// assignment `okResult = okResult && (S)`, a panic is `okResult = false`, a return is `return okResult && (S)`. After a failed
// guard or a panic the twin simply runs on (everything is total in the model); the verdict can only go from true to false.
const okVar = "okResult"

func guard(c ast.Expr) []ast.Stmt {
	if c == nil {
		return nil
	}
	return []ast.Stmt{&ast.AssignStmt{Lhs: []ast.Expr{ident(okVar)}, Tok: token.ASSIGN,
		Rhs: []ast.Expr{&ast.BinaryExpr{X: ident(okVar), Op: token.LAND, Y: &ast.ParenExpr{X: c}}}}}
}

func retOK(c ast.Expr) ast.Stmt {
	if c == nil {
		return &ast.ReturnStmt{Results: []ast.Expr{ident(okVar)}}
	}
	return &ast.ReturnStmt{Results: []ast.Expr{&ast.BinaryExpr{X: ident(okVar), Op: token.LAND, Y: &ast.ParenExpr{X: c}}}}
}

func block(ss []ast.Stmt) []ast.Stmt {
	var out []ast.Stmt
	for _, s := range ss {
		out = append(out, stmt(s)...)
	}
	return out
}

func stmt(s ast.Stmt) []ast.Stmt {
	switch x := s.(type) {
	case *ast.ReturnStmt:
		var c ast.Expr
		for _, r := range x.Results {
			c = and(c, safe(r))
		}
		return []ast.Stmt{retOK(c)}
	case *ast.ExprStmt:
		if isPanicCall(x.X) {
			return []ast.Stmt{&ast.AssignStmt{Lhs: []ast.Expr{ident(okVar)}, Tok: token.ASSIGN, Rhs: []ast.Expr{ident("false")}}}
		}
		return append(guard(safe(x.X)), x)
	case *ast.AssignStmt:
		var c ast.Expr
		for _, l := range x.Lhs {
			if _, isId := l.(*ast.Ident); !isId {
				c = and(c, safe(l))
			}
		}
		for _, r := range x.Rhs {
			c = and(c, safe(r))
		}
		return append(guard(c), x)
	case *ast.DeclStmt:
		var c ast.Expr
		if gd, ok := x.Decl.(*ast.GenDecl); ok {
			for _, sp := range gd.Specs {
				if vs, ok := sp.(*ast.ValueSpec); ok {
					for _, v := range vs.Values {
						c = and(c, safe(v))
					}
				}
			}
		}
		return append(guard(c), x)
	case *ast.IncDecStmt, *ast.BranchStmt, *ast.EmptyStmt:
		if b, ok := x.(*ast.BranchStmt); ok && (b.Label != nil || b.Tok == token.GOTO || b.Tok == token.FALLTHROUGH) {
			die(b, "labelled branch / goto / fallthrough")
		}
		return []ast.Stmt{s}
	case *ast.BlockStmt:
		return []ast.Stmt{&ast.BlockStmt{List: block(x.List)}}
	case *ast.IfStmt:
		if x.Init != nil {
			die(x, "if with init")
		}
		n := &ast.IfStmt{Cond: x.Cond, Body: &ast.BlockStmt{List: block(x.Body.List)}}
		if x.Else != nil {
			e := stmt(x.Else)
			if len(e) == 1 {
				switch e[0].(type) {
				case *ast.BlockStmt, *ast.IfStmt:
					n.Else = e[0]
				}
			}
			if n.Else == nil {
				n.Else = &ast.BlockStmt{List: e}
			}
		}
		return append(guard(safe(x.Cond)), n)
	case *ast.SwitchStmt:
		if x.Init != nil {
			die(x, "switch with init")
		}
		c := safe(x.Tag)
		nb := &ast.BlockStmt{}
		for _, cl := range x.Body.List {
			cc := cl.(*ast.CaseClause)
			for _, e := range cc.List {
				c = and(c, safe(e))
			}
			nb.List = append(nb.List, &ast.CaseClause{List: cc.List, Body: block(cc.Body)})
		}
		return append(guard(c), &ast.SwitchStmt{Tag: x.Tag, Body: nb})
	case *ast.RangeStmt:
		return append(guard(safe(x.X)), &ast.RangeStmt{Key: x.Key, Value: x.Value, Tok: x.Tok, X: x.X, Body: &ast.BlockStmt{List: block(x.Body.List)}})
	case *ast.ForStmt:
		if x.Init != nil || x.Post != nil {
			die(x, "for loop with init/post")
		}
		// the condition is re-evaluated on every iteration: guard it inside the body as well
		body := append(block(x.Body.List), guard(safe(x.Cond))...)
		return append(guard(safe(x.Cond)), &ast.ForStmt{Cond: x.Cond, Body: &ast.BlockStmt{List: body}})
	}
	die(s, "statement %T", s)
	return nil
}

func main() {
	if len(os.Args) < 3 {
		fmt.Fprintln(os.Stderr, "usage: okgen <package dir> <output dir> <skip>…")
		os.Exit(2)
	}
	dir, out := os.Args[1], os.Args[2]
	skip := map[string]bool{}
	for _, s := range os.Args[3:] {
		skip[s] = true
	}
	fset = token.NewFileSet()
	pkgs, err := parser.ParseDir(fset, dir, func(fi os.FileInfo) bool {
		return !strings.HasSuffix(fi.Name(), "_test.go") && matchFile(dir, fi.Name()) // the files of the ordinary build (go/build rules)
	}, 0)
	if err != nil {
		fmt.Fprintln(os.Stderr, "okgen:", err)
		os.Exit(1)
	}
	if err := os.MkdirAll(out, 0o755); err != nil {
		panic(err)
	}
	for _, p := range pkgs {
		var names []string
		for n := range p.Files {
			names = append(names, n)
		}
		sort.Strings(names)
		var files []*ast.File
		for _, n := range names {
			files = append(files, p.Files[n])
			data, _ := os.ReadFile(n)
			if err := os.WriteFile(filepath.Join(out, filepath.Base(n)), data, 0o644); err != nil {
				panic(err)
			}
		}
		conf := types.Config{Importer: importer.ForCompiler(fset, "source", nil)}
		info = &types.Info{Types: map[ast.Expr]types.TypeAndValue{}, Defs: map[*ast.Ident]types.Object{}, Uses: map[*ast.Ident]types.Object{}, Selections: map[*ast.SelectorExpr]*types.Selection{}}
		pkg, err = conf.Check(p.Name, fset, files, info)
		if err != nil {
			fmt.Fprintln(os.Stderr, "okgen:", err)
			os.Exit(1)
		}
		decls := map[string]*ast.FuncDecl{}
		var order []string
		for _, f := range files {
			for _, d := range f.Decls {
				if fd, ok := d.(*ast.FuncDecl); ok && fd.Body != nil && fd.Name.Name != "init" {
					k := declKey(fd)
					decls[k] = fd
					order = append(order, k)
				}
			}
		}
		sort.Strings(order)
		// fixpoint: which functions can panic
		callees := map[string][]string{}
		for _, k := range order {
			d, cs := analyse(decls[k])
			callees[k] = cs
			if d {
				needs[k] = true
			}
		}
		for changed := true; changed; {
			changed = false
			for _, k := range order {
				if needs[k] {
					continue
				}
				for _, c := range callees[k] {
					if needs[c] {
						needs[k] = true
						changed = true
					}
				}
			}
		}
		var buf bytes.Buffer
		fmt.Fprintf(&buf, "// Code generated by /verif/tools/okgen from package %s. DO NOT EDIT.\n\npackage %s\n\n", filepath.Base(dir), p.Name)
		var free []string
		for _, k := range order {
			if skip[k] {
				continue
			}
			if !needs[k] {
				free = append(free, k)
			}
		}
		fmt.Fprintf(&buf, "// okPanicFree lists the functions that contain no panic statement, no index expression, no integer division by a\n// non-constant, no slice expression or type assertion, and call only functions of this list.\nvar okPanicFree = []string{")
		for i, k := range free {
			if i > 0 {
				buf.WriteString(", ")
			}
			fmt.Fprintf(&buf, "%q", k)
		}
		buf.WriteString("}\n\n")
		for _, k := range order {
			if skip[k] || !needs[k] {
				continue
			}
			fd := decls[k]
			body := block(fd.Body.List)
			body = append(body, retOK(nil))
			// named results become locals
			pre := []ast.Stmt{&ast.AssignStmt{Lhs: []ast.Expr{ident(okVar)}, Tok: token.DEFINE, Rhs: []ast.Expr{ident("true")}}}
			if fd.Type.Results != nil {
				for _, r := range fd.Type.Results.List {
					for _, n := range r.Names {
						if n.Name != "_" {
							pre = append(pre, &ast.DeclStmt{Decl: &ast.GenDecl{Tok: token.VAR, Specs: []ast.Spec{&ast.ValueSpec{Names: []*ast.Ident{ident(n.Name)}, Type: r.Type}}}})
						}
					}
				}
			}
			twin := &ast.FuncDecl{
				Recv: fd.Recv,
				Name: ident(fd.Name.Name + "_ok"),
				Type: &ast.FuncType{Params: fd.Type.Params, Results: &ast.FieldList{List: []*ast.Field{{Type: ident("bool")}}}},
				Body: &ast.BlockStmt{List: append(pre, body...)},
			}
			fmt.Fprintf(&buf, "// %s_ok reports whether %s returns normally (does not panic) on these arguments.\n", fd.Name.Name, k)
			var fb bytes.Buffer
			if err := format.Node(&fb, token.NewFileSet(), twin); err != nil {
				fmt.Fprintln(os.Stderr, "okgen: print", k, err)
				os.Exit(1)
			}
			buf.Write(fb.Bytes())
			buf.WriteString("\n\n")
		}
		// imports used by the twins
		imps := map[string]string{}
		for _, k := range order {
			if skip[k] || !needs[k] {
				continue
			}
			ast.Inspect(decls[k], func(n ast.Node) bool {
				if id, ok := n.(*ast.Ident); ok {
					if pn, ok := info.Uses[id].(*types.PkgName); ok {
						imps[pn.Name()] = pn.Imported().Path()
					}
				}
				return true
			})
		}
		if len(imps) > 0 {
			var ib bytes.Buffer
			var ns []string
			for n := range imps {
				ns = append(ns, n)
			}
			sort.Strings(ns)
			ib.WriteString("import (\n")
			for _, n := range ns {
				if filepath.Base(imps[n]) == n {
					fmt.Fprintf(&ib, "\t%q\n", imps[n])
				} else {
					fmt.Fprintf(&ib, "\t%s %q\n", n, imps[n])
				}
			}
			ib.WriteString(")\n\n")
			marker := "package " + p.Name + "\n\n"
			txt := buf.String()
			i := strings.Index(txt, marker) + len(marker)
			buf.Reset()
			buf.WriteString(txt[:i] + ib.String() + txt[i:])
		}
		src, err := format.Source(buf.Bytes())
		if err != nil {
			os.WriteFile(filepath.Join(out, "zz_ok.go.broken"), buf.Bytes(), 0o644)
			fmt.Fprintln(os.Stderr, "okgen: generated source does not parse:", err)
			os.Exit(1)
		}
		if err := os.WriteFile(filepath.Join(out, "zz_ok.go"), src, 0o644); err != nil {
			panic(err)
		}
		var nl []string
		for _, k := range order {
			if needs[k] && !skip[k] {
				nl = append(nl, k)
			}
		}
		fmt.Fprintf(os.Stderr, "okgen: %s: %d twins (%s); %d panic-free\n", filepath.Base(dir), len(nl), strings.Join(nl, " "), len(free))
	}
}
