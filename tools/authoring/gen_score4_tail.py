#!/usr/bin/env python3
"""Regenerates Cvss/Proofs/Score4Tail00..17.lean (one `decide +kernel` theorem per MacroVector, balanced into
18 modules by number of distance tuples). The chunk files do not depend on the Go source; they only name the
270 MacroVectors. Score4TailAll.lean (list of the 270 MacroVectors + combination) was produced alongside."""
D1=[1,4,5];D2=[1,2];D36={(0,0):7,(0,1):6,(1,0):8,(1,1):8,(2,1):10};D4=[6,5,4]
mvs=[(a,b,c,d,e,f) for a in range(3) for b in range(2) for c in range(3) for d in range(3) for e in range(3) for f in range(2) if not (c==2 and f==0)]
def cnt(m): return D1[m[0]]*D2[m[1]]*D36[(m[2],m[5])]*D4[m[3]]
NCH=18
chunks=[[] for _ in range(NCH)]; load=[0]*NCH
for m in sorted(mvs,key=cnt,reverse=True):
    i=load.index(min(load)); chunks[i].append(m); load[i]+=cnt(m)
for i,ch in enumerate(chunks):
    ch.sort()
    s=f'''import Cvss.Proofs.Score4TailDef
/-! GENERATED chunk {i} of the v4.0 float-tail obligation: for each MacroVector below and every severity
distance tuple within its depths, `roundup(eqsv − mean)` (the generated tail) is `F64.tenth` of the Spec's
exact half-up value. Kernel evaluation (`decide +kernel`), {load[i]} tuples. -/
namespace Proofs.Score4
'''
    for m in ch:
        k=''.join(map(str,m))
        s+=f"set_option maxHeartbeats 2000000 in\ntheorem tail_{k} : tailOkMV {' '.join(map(str,m))} = true := by decide +kernel\n"
    s+="end Proofs.Score4\n"
    open(f'Cvss/Proofs/Score4Tail{i:02d}.lean','w').write(s)
