base = [("AV",0,5),("AC",0,5),("AT",0,5),("PR",0,5),("UI",0,5),("VC",1,5),("VI",1,5),("VA",2,5),("SC",1,5),("SI",1,5),("SA",2,5)]
single = [ # abv, byte, mask, inc
 ("E",2,12,4),("CR",2,3,5),("IR",3,192,5),("AR",3,48,5),("MAV",3,14,6),
 ("MAT",4,96,6),("MPR",4,24,6),("MUI",4,6,6),
 ("MVI",5,96,6),("MVA",5,24,6),("MSC",5,6,6),
 ("MSA",6,56,6),("S",6,6,4),
 ("R",7,96,4),("V",7,24,4),("RE",7,6,5)]
split = [ # abv, byte of p, byte of q, qmask, inc
 ("MAC",3,4,128,6),("MVC",4,5,128,6),("MSI",5,6,192,6),("AU",6,7,128,5)]
order = ["E","CR","IR","AR","MAV","MAC","MAT","MPR","MUI","MVC","MVI","MVA","MSC","MSI","MSA","S","AU","R","V","RE","U"]
names = [a for a,_,_ in base] + order
rs = " ".join(f"r{i}" for i in range(55))
gargs = "r25 r26 r27 r28 r29 r30 r31 r32 r33 r34 r35 r36 r1 r37 r38 r39 r40 r41 r42 r43 r44 r45 r46 r47 r48 r49 r50 r51 r52 r53 r54 r24"
def bytes9(d):
    return " ".join(d.get(i,"0") for i in range(9))
out = []
w = out.append
w(r'''import Cvss.Proofs.VecCommon
/-!
# v4.0: the generated `Vector()` writes the Spec canonical form, and `lenVec()` is its length

* `vector_eq` (A): for **every** object `c` (no well-formedness needed)
  `c.vector = Spec.V4.canonical (metrics.map fun m => (m.abv, (c.get m.abv).1))`.
* `length_formula` (B, strongest form, every byte state):
  `c.vector.length + #{metrics reading as an illegal value} = c.lenVec + 4·[U reads as an illegal value]`.
  Per metric one enumeration of ONE byte (or of the two parts of a field split over two bytes) through the
  generated `Get`; the `U` metric's values have different lengths (`Clear/Green/Amber` add 8, `Red` adds 6) and is
  compared with the generated `switch`. A `U` code 5..7 reads as `""`, which is not `"X"`: `Vector` writes `/U:`
  (3 bytes) for it but `lenVec` reserves nothing.
* consequences: `length_eq` (C17: legal values ⇒ equality), `length_le` / `length_eq_iff` (when `U` reads as a
  legal value the buffer is never outgrown, and equality holds iff all metrics are legal),
  `length_gt_example` (a non-well-formed byte state where `Vector()` OUTGROWS the pre-sized buffer).
-/
namespace Proofs.Vec40
open Spec Proofs.Vec
open Model (O40)

/-! ## (A) shape -/

theorem mand_eq (b pre v : Spec.Bytes) : GenV40.mandatory b pre v = b ++ (pre ++ v) := by
  simp [GenV40.mandatory]

theorem nm_eq (b pre v : Spec.Bytes) : GenV40.notMandatory b pre v = b ++ opt pre v := by
  unfold GenV40.notMandatory opt Go.strEq
  by_cases h : v = [88] <;> simp [h, mand_eq]

set_option maxHeartbeats 2000000 in
theorem core_shape (''' + rs + r''' : Nat) :
    GenV40.Vector_core ''' + rs + r'''
    = V4.header ++ emit V4.metrics
        (GenV40.get_core ''' + gargs + r''') := by
  simp only [GenV40.Vector_core, flet_eq, mand_eq, nm_eq]
  generalize GenV40.get_core ''' + gargs + r''' = G
  simp [emit, piece, opt, render, V4.metrics, V4.base, V4.threat, V4.environmental, V4.supplemental, V4.header,
    mand, optX, Spec.b, SLASH, COLON]

/-- the private `get` of `Vector()` is the first component of the public `Get` -/
theorem get_fst (c : O40) :
    (fun a => (c.get a).1) = GenV40.get c.u0 c.u1 c.u2 c.u3 c.u4 c.u5 c.u6 c.u7 c.u8 := rfl

theorem vector_shape (c : O40) : c.vector = V4.header ++ emit V4.metrics (fun a => (c.get a).1) := by
  rw [get_fst]
  unfold O40.vector GenV40.Vector GenV40.get
  rw [core_shape]

/-- **(A)** `Vector()` spells the canonical form of the object's own values — for every object. -/
theorem vector_eq (c : O40) :
    c.vector = V4.canonical (V4.metrics.map fun m => (m.abv, (c.get m.abv).1)) := by
  rw [vector_shape]; exact (V4_canonical_eq _).symm

/-! ## (B) length -/

abbrev M (a : String) : Metric := met V4.metrics a

/-- length of the piece the canonical form writes for metric `m` of object `c`, plus 1 if `m` reads as an
    illegal value -/
def plen (c : O40) (m : Metric) : Nat := (piece m (c.get m.abv).1).length + bad m (c.get m.abv).1

/-- the value `Get(a)` returns on the object whose byte `k` is `u` and whose other bytes are zero -/
def byteVal (k u : Nat) (a : Spec.Bytes) : Spec.Bytes :=
  (GenV40.Get (sel 0 k u) (sel 1 k u) (sel 2 k u) (sel 3 k u) (sel 4 k u) (sel 5 k u) (sel 6 k u) (sel 7 k u)
    (sel 8 k u) a).1

/-- slot statement for a metric stored inside byte `k`: for every value `u` of that byte, the length of the
    piece written for the metric (+1 if the value it reads as is illegal) is `f u` -/
abbrev SlotB (a : String) (k : Nat) (f : Nat → Nat) : Prop :=
  ∀ u, u < 256 → (piece (M a) (byteVal k u (b a))).length + bad (M a) (byteVal k u (b a)) = f u

/-! mandatory metrics: `/abv:` and one letter (`lenVec` accounts for them in its constant) -/''')
for (a,k,n) in base:
    w(f'theorem slot_{a} : SlotB "{a}" {k} (fun _ => {n}) := by decide +kernel')
w('\n/-! optional metrics: mask test and increment of the generated `lenVec` -/')
for (a,k,m,inc) in single:
    w(f'theorem slot_{a} : SlotB "{a}" {k} (fun u => cond (!(Nat.beq (Nat.land u {m}) 0)) {inc} 0) := by decide +kernel')
w('')
w('/-! fields split over two bytes: `p` is bit 0 of the first byte, `q` the top bit(s) of the next one -/')
for (a,kp,kq,qm,inc) in split:
    qs = "[0, 128]" if qm==128 else "[0, 64, 128, 192]"
    w(f'''def val{a} (p q : Nat) : Spec.Bytes := (GenV40.Get {bytes9({kp:"p",kq:"q"})} (b "{a}")).1
theorem slot_{a} : ∀ p, p < 2 → ∀ q ∈ {qs},
    (piece (M "{a}") (val{a} p q)).length + bad (M "{a}") (val{a} p q)
      = cond ((!(Nat.beq p 0)) || (!(Nat.beq q 0))) {inc} 0 := by decide +kernel
theorem get_{a} (c : O40) : (c.get (M "{a}").abv).1 = val{a} (Nat.land c.u{kp} 1) (Nat.land c.u{kq} {qm}) := by
  unfold val{a} O40.get GenV40.Get
  rw [land_idem, land_idem]
  rfl
''')
w(r'''/-- `U` (bit 0 of `u7`, top two bits of `u8`): `lenVec` switches on the code -/
def valU (p q : Nat) : Spec.Bytes := (GenV40.Get 0 0 0 0 0 0 0 p q (b "U")).1
/-- the code of `U` as `lenVec` computes it -/
abbrev codeU (p q : Nat) : Nat := Nat.lor (Nat.mod (Nat.shiftLeft p 2) 256) (Nat.shiftRight q 6)
/-- … and here the illegal codes are NOT covered by `lenVec`: `/U:` (3 bytes, +1 for being illegal) on the left,
    nothing on the right -/
theorem slot_U : ∀ p, p < 2 → ∀ q ∈ [0, 64, 128, 192],
    (piece (M "U") (valU p q)).length + bad (M "U") (valU p q)
      = cond ((Nat.beq (codeU p q) 1) || (Nat.beq (codeU p q) 2) || (Nat.beq (codeU p q) 3)) 8
          (cond (Nat.beq (codeU p q) 4) 6 0) + 4 * bad (M "U") (valU p q) := by decide +kernel
theorem get_U (c : O40) : (c.get (b "U")).1 = valU (Nat.land c.u7 1) (Nat.land c.u8 192) := by
  unfold valU O40.get GenV40.Get
  rw [land_idem, land_idem]
  rfl

/-- closed form of the generated two-way `switch` step of `lenVec` -/
theorem cond_add2 (c : Bool) (l k x : Nat) : cond c (Nat.add l k) (l + x) = l + cond c k x := by
  cases c <;> rfl

theorem slot_apply (c : O40) (m : Metric) (n : Nat) (v' : Spec.Bytes)
    (hs : (piece m v').length + bad m v' = n) (hget : (c.get m.abv).1 = v') : plen c m = n := by
  unfold plen; rw [hget]; exact hs

theorem metrics_list : V4.metrics = [''' + ", ".join(f'"{a}"' for a in names) + r'''].map M := by rfl

set_option maxHeartbeats 4000000 in
/-- **(B)** for every byte state: `len(Vector())` + number of metrics reading as an illegal value
    = `lenVec()` + 4 if `U` reads as an illegal value -/
theorem length_formula (c : O40) (hb : c.IsBytes) :
    c.vector.length + (V4.metrics.map fun m => bad m (c.get m.abv).1).sum
      = c.lenVec + 4 * bad (M "U") (c.get (b "U")).1 := by
  obtain ⟨h0, h1, h2, h3, h4, h5, h6, h7, h8⟩ := hb''')
for (a,k,n) in base:
    w(f'  have h{a} := slot_apply c (M "{a}") _ _ (slot_{a} c.u{k} h{k}) rfl')
for (a,k,m,inc) in single:
    w(f'  have h{a} := slot_apply c (M "{a}") _ _ (slot_{a} c.u{k} h{k}) rfl')
for (a,kp,kq,qm,inc) in split+[("U",7,8,192,0)]:
    w(f'''  have h{a} := slot_apply c (M "{a}") _ _
    (slot_{a} _ (land1_lt c.u{kp} h{kp}) _ (land{qm}_mem c.u{kq} h{kq})) (get_{a} c)''')
hs = " ".join("h"+a for a in names)
optn = order[:-1]
w(r'''  have hhdr : V4.header.length = 8 := by decide
  have hlen : c.vector.length + (V4.metrics.map fun m => bad m (c.get m.abv).1).sum
      = V4.header.length + (V4.metrics.map (plen c)).sum := by
    rw [vector_shape, List.length_append, length_emit]
    unfold plen
    rw [sum_map_add]; omega
  dsimp only [codeU] at ''' + hs + r'''
  rw [hlen, hhdr, metrics_list, get_U c]
  simp only [List.map, List.sum_cons, List.sum_nil, ''' + ", ".join("h"+a for a,_,_ in base) + r''', hU]
  unfold O40.lenVec GenV40.lenVec
  simp only [GenV40.lenVec_core, flet_eq, cond_add, cond_add2]
  rw [''' + ", ".join("← h"+a for a in optn) + "]")
for i,a in enumerate(optn):
    w(f'  generalize plen c (M "{a}") = x{i+1}')
w('  generalize bad (M "U") (valU (Nat.land c.u7 1) (Nat.land c.u8 192)) = bU')
w(f"  clear {hs} hlen hhdr h0 h1 h2 h3 h4 h5 h6 h7 h8")
w(r'''  omega

theorem mem_U : M "U" ∈ V4.metrics := met_mem _ _ (by decide +kernel)

/-- **C17** for every byte state whose metrics all read as legal values (unused bits are irrelevant) -/
theorem length_eq (c : O40) (hb : c.IsBytes) (hv : ∀ m ∈ V4.metrics, (c.get m.abv).1 ∈ m.values) :
    c.vector.length = c.lenVec := by
  have h := length_formula c hb
  have hU : bad (M "U") (c.get (b "U")).1 = 0 := by
    unfold bad; exact if_pos (hv (M "U") mem_U)
  rw [(bad_sum_eq_zero_iff V4.metrics fun a => (c.get a).1).mpr hv, hU] at h
  exact h

/-- if `U` reads as a legal value, `Vector()` never outgrows the buffer pre-sized with `lenVec()` … -/
theorem length_le (c : O40) (hb : c.IsBytes) (hU : (c.get (b "U")).1 ∈ (M "U").values) :
    c.vector.length ≤ c.lenVec := by
  have h := length_formula c hb
  have hU' : bad (M "U") (c.get (b "U")).1 = 0 := by unfold bad; rw [if_pos hU]
  omega

/-- … and C17 holds exactly when every metric reads as a legal value -/
theorem length_eq_iff (c : O40) (hb : c.IsBytes) (hU : (c.get (b "U")).1 ∈ (M "U").values) :
    c.vector.length = c.lenVec ↔ ∀ m ∈ V4.metrics, (c.get m.abv).1 ∈ m.values := by
  have h := length_formula c hb
  have hU' : bad (M "U") (c.get (b "U")).1 = 0 := by unfold bad; rw [if_pos hU]
  rw [← bad_sum_eq_zero_iff V4.metrics fun a => (c.get a).1]
  omega

theorem wf_bytes (c : O40) (h : c.wf = true) : c.IsBytes := by
  simp only [O40.wf, O40.bytes, List.all_cons, List.all_nil, Bool.and_eq_true, Nat.blt_eq] at h
  obtain ⟨⟨⟨h0, h1, h2, h3, h4, h5, h6, h7, h8, _⟩, _⟩, _⟩ := h
  exact ⟨h0, h1, h2, h3, h4, h5, h6, h7, h8⟩

theorem wf_legal (c : O40) (h : c.wf = true) : ∀ m ∈ V4.metrics, (c.get m.abv).1 ∈ m.values := by
  simp only [O40.wf, Bool.and_eq_true] at h
  exact legalGets_mem _ _ h.2

/-- **C17** for well-formed objects -/
theorem length_eq_wf (c : O40) (h : c.wf = true) : c.vector.length = c.lenVec :=
  length_eq c (wf_bytes c h) (wf_legal c h)

/-- the hypotheses are satisfiable by a non-trivial object (with the short `U:Red`) -/
example : (⟨86, 88, 40, 0, 64, 1, 1, 1, 0⟩ : O40).wf = true := by decide +kernel
example : (⟨86, 88, 40, 0, 64, 1, 1, 1, 0⟩ : O40).vector
    = b "CVSS:4.0/AV:A/AC:H/AT:P/PR:L/UI:A/VC:L/VI:N/VA:H/SC:L/SI:H/SA:N/E:P/MAT:P/MSI:S/AU:Y/U:Red" := by
  decide +kernel

/-- On a non-well-formed byte state the equality fails, and in the bad direction: `U` code 5 (`u7 = 1`,
    `u8 = 0x40`) makes `Vector()` write `/U:` (66 bytes) into a buffer pre-sized by `lenVec()` to 63. -/
theorem length_gt_example :
    (⟨0, 0, 0, 0, 0, 0, 0, 1, 64⟩ : O40).vector.length = 66 ∧ (⟨0, 0, 0, 0, 0, 0, 0, 1, 64⟩ : O40).lenVec = 63 := by
  decide +kernel

end Proofs.Vec40''')
open('/root/work/vec/lean/Cvss/Proofs/Vec40.lean','w').write("\n".join(out)+"\n")
