#!/usr/bin/env python3
# Authoring-time generator for Cvss/Proofs/Layout40.lean and Cvss/Proofs/ByteFacts40.lean.
# The table below is a hand transcription of the v4.0 bit layout; every line of the output is *checked*
# by Lean against the generated GenV40.Get / GenV40.Set (rfl / simp), nothing is trusted.
import sys, os
ROOT = os.path.dirname(os.path.dirname(os.path.abspath(__file__)))
spec = "AV AC AT PR UI VC VI VA SC SI SA E CR IR AR MAV MAC MAT MPR MUI MVC MVI MVA MSC MSI MSA S AU R V RE U".split()
genorder = "AV AC AT PR UI VC SC VI SI VA SA E CR IR AR MAV MAC MAT MPR MUI MVC MVI MVA MSC MSI MSA S AU R V RE U".split()
nvals = dict(AV=4,AC=2,AT=2,PR=3,UI=3,VC=3,VI=3,VA=3,SC=3,SI=3,SA=3,E=4,CR=4,IR=4,AR=4,MAV=5,MAC=3,MAT=3,MPR=4,MUI=4,
             MVC=4,MVI=4,MVA=4,MSC=4,MSI=5,MSA=5,S=3,AU=3,R=4,V=3,RE=4,U=5)
# single fields: name -> (byte, mask, shift)
single = dict(AV=(0,192,6),AC=(0,32,5),AT=(0,16,4),PR=(0,12,2),UI=(0,3,0),
              VC=(1,192,6),SC=(1,48,4),VI=(1,12,2),SI=(1,3,0),
              VA=(2,192,6),SA=(2,48,4),E=(2,12,2),CR=(2,3,0),
              IR=(3,192,6),AR=(3,48,4),MAV=(3,14,1),
              MAT=(4,96,5),MPR=(4,24,3),MUI=(4,6,1),
              MVI=(5,96,5),MVA=(5,24,3),MSC=(5,6,1),
              MSA=(6,56,3),S=(6,6,1),
              R=(7,96,5),V=(7,24,3),RE=(7,6,1))
# split fields: name -> (hibyte, hishl, lomask, loshr, set_himask, set_hishr, set_lomask, set_loshl, keeplo)
split = dict(MAC=(3,1,128,7,10,1,1,7,True), MVC=(4,1,128,7,2,1,1,7,True), MSI=(5,2,192,6,4,2,3,6,True),
             AU=(6,1,128,7,2,1,1,7,True), U=(7,2,192,6,4,2,3,6,False))
# pieces per byte in bit order (high to low): (name, part) part in 's','hi','lo'
bytes_ = [[("AV",'s'),("AC",'s'),("AT",'s'),("PR",'s'),("UI",'s')],
          [("VC",'s'),("SC",'s'),("VI",'s'),("SI",'s')],
          [("VA",'s'),("SA",'s'),("E",'s'),("CR",'s')],
          [("IR",'s'),("AR",'s'),("MAV",'s'),("MAC",'hi')],
          [("MAC",'lo'),("MAT",'s'),("MPR",'s'),("MUI",'s'),("MVC",'hi')],
          [("MVC",'lo'),("MVI",'s'),("MVA",'s'),("MSC",'s'),("MSI",'hi')],
          [("MSI",'lo'),("MSA",'s'),("S",'s'),("AU",'hi')],
          [("AU",'lo'),("R",'s'),("V",'s'),("RE",'s'),("U",'hi')],
          [("U",'lo')]]
pos = {}
for b, ps in enumerate(bytes_):
    for p,(n,part) in enumerate(ps):
        pos[(n,part)] = (b,p)

def rd(name, part, u):
    if part == 's':
        b,m,s = single[name]
        return f"Nat.land {u} {m}" if s == 0 else f"Nat.shiftRight (Nat.land {u} {m}) {s}"
    hb,hshl,lm,ls,_,_,_,_,_ = split[name]
    if part == 'hi':
        return f"Nat.mod (Nat.shiftLeft (Nat.land {u} 1) {hshl}) 256"
    return f"Nat.shiftRight (Nat.land {u} {lm}) {ls}"

def wr(name, part):
    if part == 's':
        b,m,s = single[name]
        keep = 255 - m
        return f"Nat.lor (Nat.land u {keep}) i" if s == 0 else f"Nat.lor (Nat.land u {keep}) (Nat.mod (Nat.shiftLeft i {s}) 256)"
    hb,hshl,lm,ls,shm,shs,slm,sls,keeplo = split[name]
    if part == 'hi':
        return f"Nat.lor (Nat.land u 254) (Nat.shiftRight (Nat.land i {shm}) {shs})"
    if keeplo:
        return f"Nat.lor (Nat.land u {255-lm}) (Nat.mod (Nat.shiftLeft (Nat.land i {slm}) {sls}) 256)"
    return f"Nat.mod (Nat.shiftLeft (Nat.land i {slm}) {sls}) 256"

def q(name, part):
    if part == 's': return "i"
    hb,hshl,lm,ls,shm,shs,slm,sls,keeplo = split[name]
    return f"Nat.land i {1<<hshl}" if part == 'hi' else f"Nat.land i {slm}"

def parts(name): return ['s'] if name in single else ['hi','lo']
def wname(k, part): return f"W{k}" + {'s':'','hi':'h','lo':'l'}[part]

L = []
A = L.append
A('''import Cvss.Proofs.BitsCommon40
/-!
# The v4.0 bit layout, tied to the generated `Get` / `Set`

`D0 … D8` list the pieces every byte is cut into (bit order), `codes c` the 32 metric codes in **Spec**
order, `W‹k›` the byte update performed by `Set` of metric `k`, `upd k c i` the object after storing code
`i` in metric `k`. Each of these is *checked* against the generated code:

* `GC‹k›`      : `GenV40.Get_core … (abv k)` decodes its `k`-th hoisted read with `gvals k`, the value list in code order read off `Get` itself (by `rfl`);
* `get_idx`    : `c.get (abv k) = ((gvals k).getD (code k c) [], nil)` (unification against `GenV40.Get`);
* `SA‹k›`/`set_idx` : `c.set (abv k) value = arm (validate value (gvals k)) c (upd k c)` (by `simp` through `GenV40.Set`);
* `set_unknown`, `get_unknown` : the default arms.

A changed mask, shift, literal or value list in the Go source makes the corresponding lemma fail.
(File produced by tools/gen_layout40.py at authoring time; it is ordinary checked Lean.)
-/
set_option maxRecDepth 100000
namespace Proofs.B40
open Spec (Metric legal isMetric findMetric)
open Model (O40)

/-! ## pieces of each byte -/
''')
for b, ps in enumerate(bytes_):
    items = ", ".join(rd(n,part,"u") for n,part in ps)
    names = " ".join(n + ("" if part=='s' else "."+part) for n,part in ps)
    A(f"/-- `u{b}`: {names} -/")
    A(f"def D{b} (u : Nat) : List Nat := [{items}]")
A("")
A("/-- the 32 metric codes in Spec order -/")
cs = []
for k,n in enumerate(spec):
    if n in single:
        b,p = pos[(n,'s')]
        cs.append(f"(D{b} c.u{b}).getD {p} 0")
    else:
        b,p = pos[(n,'hi')]; b2,p2 = pos[(n,'lo')]
        cs.append(f"Nat.lor ((D{b} c.u{b}).getD {p} 0) ((D{b2} c.u{b2}).getD {p2} 0)")
A("def codes (c : O40) : List Nat :=\n  [" + ",\n   ".join(cs) + "]")
A("def code (k : Nat) (c : O40) : Nat := (codes c).getD k 0")
A("theorem codes_length (c : O40) : (codes c).length = 32 := rfl")
A("")
A("/-! ## byte updates performed by `Set` -/")
for k,n in enumerate(spec):
    for part in parts(n):
        A(f"/-- {n}{'' if part=='s' else ' '+part} -/")
        uarg = "u" if "u" in wr(n,part).replace("shiftLeft","").replace("mod","") and "land u" in wr(n,part) else "_u"
        A(f"def {wname(k,part)} ({uarg} i : Nat) : Nat := {wr(n,part)}")
A("")
A("/-- the object after `Set` stored code `i` in metric `k` -/")
A("def upd : Nat → O40 → Nat → O40")
for k,n in enumerate(spec):
    ups = []
    for part in parts(n):
        b,p = pos[(n,part)]
        ups.append(f"u{b} := {wname(k,part)} c.u{b} i")
    A(f"  | {k}, c, i => {{ c with {', '.join(ups)} }}")
A("  | _, c, _ => c")
A("")
A("/-! ## `Get` -/")
rs = " ".join(f"r{j}" for j in range(32))
A("/-- what the generated `Get` answers for metric `k` when every field reads `i` (a black-box decoder) -/")
A("def dec (k i : Nat) : List Nat := (GenV40.Get_core " + " ".join("i" for _ in range(32)) + " (abv k)).1")
A("/-- the value list of metric `k` **in code order**, read off the generated `Get` (the Spec lists the same values in\n    another order; `gvals_perm` in `Bits40`) -/")
A("def gvals (k : Nat) : List (List Nat) := (List.range (nv k)).map (dec k)")
for k,n in enumerate(spec):
    j = genorder.index(n)
    nv = nvals[n]
    pats = " | ".join(str(x) for x in range(nv))
    A(f"theorem GC{k} ({rs} : Nat) :\n    GenV40.Get_core {rs} (abv {k}) = ((gvals {k}).getD r{j} [], Go.errNil) := by\n  match r{j} with\n  | {pats} => rfl\n  | _ + {nv} => rfl")
A("")
A("/-- `Get` of the `k`-th Spec metric decodes code `k` with the Spec value list; the error is always nil -/")
for k,n in enumerate(spec):
    A(f"theorem GI{k} (c : O40) : c.get (abv {k}) = ((gvals {k}).getD (code {k} c) [], Go.errNil) := by\n  unfold O40.get GenV40.Get; exact GC{k} ..")
A("theorem get_idx (c : O40) : ∀ k, k < 32 → c.get (abv k) = ((gvals k).getD (code k c) [], Go.errNil) :=")
A("  all32 " + " ".join(f"(GI{k} c)" for k in range(32)))
A("")
A("/-! ## `Set` -/")
A('''/-- what every arm of `Set` does with the result of `validate` -/
def arm (r : Nat × Go.Err) (c : O40) (f : Nat → O40) : O40 × Go.Err :=
  cond (!(Go.Err.beq r.2 Go.errNil)) (c, r.2) (f r.1, Go.errNil)
''')
for k,n in enumerate(spec):
    A(f'''theorem SA{k} (c : O40) (value : List Nat) :
    c.set (abv {k}) value = arm (GenV40.validate value (gvals {k})) c (upd {k} c) := by
  generalize hr : GenV40.validate value _ = r
  simp (config := {{decide := true}}) only [O40.set, GenV40.Set, Go.strEq, cond_true, cond_false, decide_true,
    decide_false, flet_eq]
  erw [hr]
  unfold arm
  cases (!(r.2.beq Go.errNil)) <;> rfl''')
A("")
A("theorem set_idx (c : O40) (value : List Nat) : ∀ k, k < 32 →\n    c.set (abv k) value = arm (GenV40.validate value (gvals k)) c (upd k c) :=")
A("  all32 " + " ".join(f"(SA{k} c value)" for k in range(32)))
A('''
/-! ## the default arms -/

theorem set_unknown (c : O40) (a v : List Nat) (h : isMetric Spec.V4.metrics a = false) :
    c.set a v = (c, Model.eInvalidMetric a) := by
  simp (config := {decide := true}) only [O40.set, GenV40.Set, strEq_unk h, cond_false]
  rfl

theorem get_unknown (c : O40) (a : List Nat) (h : isMetric Spec.V4.metrics a = false) :
    c.get a = ([], Model.eInvalidMetric a) := by
  simp (config := {decide := true}) only [O40.get, GenV40.Get, GenV40.Get_core, strEq_unk h, cond_false]
  rfl

end Proofs.B40''')
open(os.path.join(ROOT,"Cvss/Proofs/Layout40.lean"),"w").write("\n".join(L)+"\n")

# ---------------- ByteFacts40 ----------------
L = []
A = L.append
A('''import Cvss.Proofs.Layout40
/-!
# One-byte facts about the v4.0 layout (all by enumeration of a single byte)

* `B‹k›…`  : writing code `i` (any legal code of metric `k`) with the `Set` update `W‹k›` changes exactly the
  piece of metric `k` in that byte (to `i`, or to the high/low part of `i` for a split field) and keeps the
  byte a byte; stated for **every** `Nat` (the masks only look at the low 8 bits: `D‹b›_mod`, `W‹k›_mod`);
* `J‹k›`   : the two parts of a split field recombine to the code;
* `E‹b›`   : the pieces determine the byte (`enc‹b›` is a left inverse of `D‹b›`);
* `SPh/SPl‹k›` : both parts of a split field can be read back from the code;
* `CU‹k›`  : `codes (upd k c i) = (codes c).set k i` — the heart of C07;
* `UB‹k›`  : `upd` keeps bytes bytes and the unused bits of `u8` zero.
(File produced by tools/gen_layout40.py at authoring time; it is ordinary checked Lean.)
-/
set_option maxRecDepth 100000
namespace Proofs.B40
open Model (O40)
''')
for b in range(9):
    A(f"theorem D{b}_mod (u : Nat) : D{b} (u % 256) = D{b} u := by\n  simp (config := {{decide := true}}) only [D{b}, land_mod]")
A("")
for k,n in enumerate(spec):
    for part in parts(n):
        w = wname(k,part)
        b,p = pos[(n,part)]
        if n == 'U' and part == 'lo':
            A(f"theorem {w}_mod (u i : Nat) : {w} (u % 256) i = {w} u i := rfl")
        else:
            A(f"theorem {w}_mod (u i : Nat) : {w} (u % 256) i = {w} u i := by\n  simp (config := {{decide := true}}) only [{w}, land_mod]")
        A(f"theorem B{k}{part if part!='s' else ''}' : ∀ u, u < 256 → ∀ i, i < nv {k} →\n    D{b} ({w} u i) = (D{b} u).set {p} ({q(n,part)}) ∧ {w} u i < 256 := by decide +kernel")
        A(f"theorem B{k}{part if part!='s' else ''} (u i : Nat) (hi : i < nv {k}) : D{b} ({w} u i) = (D{b} u).set {p} ({q(n,part)}) := by\n  rw [← {w}_mod, ← D{b}_mod u]; exact (B{k}{part if part!='s' else ''}' _ (Nat.mod_lt _ (by decide)) i hi).1")
    if n in split:
        A(f"theorem J{k} : ∀ i, i < nv {k} → Nat.lor ({q(n,'hi')}) ({q(n,'lo')}) = i := by decide")
A("")
A("/-! ## `codes` after `upd` -/")
for k,n in enumerate(spec):
    if n in single:
        b,p = pos[(n,'s')]
        A(f'''theorem CU{k} (c : O40) (i : Nat) (hi : i < nv {k}) : codes (upd {k} c i) = (codes c).set {k} i := by
  have h1 := B{k} c.u{b} i hi
  simp only [codes, upd, h1]
  rfl''')
    else:
        b,p = pos[(n,'hi')]; b2,p2 = pos[(n,'lo')]
        A(f'''theorem CU{k} (c : O40) (i : Nat) (hi : i < nv {k}) : codes (upd {k} c i) = (codes c).set {k} i := by
  have h1 := B{k}hi c.u{b} i hi
  have h2 := B{k}lo c.u{b2} i hi
  have e : codes (upd {k} c i) = (codes c).set {k} (Nat.lor ({q(n,'hi')}) ({q(n,'lo')})) := by
    simp only [codes, upd, h1, h2]
    rfl
  rw [e, J{k} i hi]''')
A("")
A("theorem codes_upd (c : O40) : ∀ k, k < 32 → ∀ i, i < nv k → codes (upd k c i) = (codes c).set k i :=")
A("  all32 " + " ".join(f"(CU{k} c)" for k in range(32)))
A("")
A("/-! ## bytes stay bytes; the unused bits of `u8` stay zero (`Set(\"U\")` even clears them) -/")
for k,n in enumerate(spec):
    hs = []
    for part in parts(n):
        b,p = pos[(n,part)]
        hs.append((b, f"(B{k}{part if part!='s' else ''}' c.u{b} h{b} i hi).2"))
    fields = []
    d = dict(hs)
    for b in range(9):
        fields.append(d.get(b, f"h{b}"))
    A(f'''theorem UB{k} (c : O40) (hc : c.IsBytes) (i : Nat) (hi : i < nv {k}) : (upd {k} c i).IsBytes := by
  obtain ⟨h0, h1, h2, h3, h4, h5, h6, h7, h8⟩ := hc
  exact ⟨{", ".join(fields)}⟩''')
A("theorem upd_isBytes (c : O40) (hc : c.IsBytes) : ∀ k, k < 32 → ∀ i, i < nv k → (upd k c i).IsBytes :=")
A("  all32 " + " ".join(f"(UB{k} c hc)" for k in range(32)))
A("")
k31 = spec.index("U")
A(f"theorem W{k31}l_low : ∀ i, i < nv {k31} → W{k31}l 0 i % 64 = 0 := by decide")
A("/-- every arm except `U` leaves `u8` alone -/")
A("theorem upd_u8 (c : O40) (i : Nat) : ∀ k, k < 32 → k ≠ 31 → (upd k c i).u8 = c.u8 :=\n  all32 " + " ".join(("(fun _ => rfl)" if k != 31 else "(fun h => absurd rfl h)") for k in range(32)))
A(f"/-- the `U` arm overwrites `u8` without keeping its low six bits -/")
A(f"theorem upd_u8_U (c : O40) (i : Nat) (hi : i < nv 31) : (upd 31 c i).u8 % 64 = 0 := W{k31}l_low i hi")
A('''theorem upd_u8_low (c : O40) (h : c.u8 % 64 = 0) (k : Nat) (hk : k < 32) (i : Nat) (hi : i < nv k) :
    (upd k c i).u8 % 64 = 0 := by
  by_cases e : k = 31
  · subst e; exact upd_u8_U c i hi
  · rw [upd_u8 c i k hk e]; exact h
''')
A("/-! ## the pieces determine the byte -/")
def encexpr(b):
    ps = bytes_[b]
    terms = []
    for p,(n,part) in enumerate(ps):
        x = f"ps.getD {p} 0"
        if part == 's':
            _,m,s = single[n]; terms.append(f"{x} * {1<<s}")
        elif part == 'hi':
            hshl = split[n][1]; terms.append(f"{x} / {1<<hshl}")
        else:
            ls = split[n][3]; terms.append(f"{x} * {1<<ls}")
    return " + ".join(terms)
for b in range(9):
    A(f"def enc{b} (ps : List Nat) : Nat := {encexpr(b)}")
    if b < 8:
        A(f"theorem E{b} : ∀ u, u < 256 → enc{b} (D{b} u) = u := by decide +kernel")
    else:
        A(f"theorem E{b} : ∀ u, u < 256 → enc{b} (D{b} u) + u % 64 = u := by decide +kernel")
A("")
A("/-! ## split fields: both parts can be read back from the code -/")
for k,n in enumerate(spec):
    if n in split:
        b,p = pos[(n,'hi')]; b2,p2 = pos[(n,'lo')]
        hshl = split[n][1]; hv = 1<<hshl; slm = split[n][6]
        A(f"theorem RH{k} : ∀ u, u < 256 → ((D{b} u).getD {p} 0 = 0 ∨ (D{b} u).getD {p} 0 = {hv}) := by decide +kernel")
        A(f"theorem RL{k} : ∀ u, u < 256 → (D{b2} u).getD {p2} 0 < {slm+1} := by decide +kernel")
A("theorem JJ2 : ∀ h, (h = 0 ∨ h = 2) → ∀ l, l < 2 → Nat.land (Nat.lor h l) 2 = h ∧ Nat.land (Nat.lor h l) 1 = l := by\n  intro h hh; rcases hh with rfl | rfl <;> decide")
A("theorem JJ4 : ∀ h, (h = 0 ∨ h = 4) → ∀ l, l < 4 → Nat.land (Nat.lor h l) 4 = h ∧ Nat.land (Nat.lor h l) 3 = l := by\n  intro h hh; rcases hh with rfl | rfl <;> decide")
A("")
A("/-- the pieces of all nine bytes, recomputed from the code vector -/")
rows = []
for b, ps in enumerate(bytes_):
    items = []
    for p,(n,part) in enumerate(ps):
        k = spec.index(n)
        if part == 's': items.append(f"cs.getD {k} 0")
        elif part == 'hi': items.append(f"Nat.land (cs.getD {k} 0) {1<<split[n][1]}")
        else: items.append(f"Nat.land (cs.getD {k} 0) {split[n][6]}")
    rows.append("[" + ", ".join(items) + "]")
A("def piecesOf (cs : List Nat) : List (List Nat) :=\n  [" + ",\n   ".join(rows) + "]")
A("")
A("theorem piecesOf_codes (c : O40) (hc : c.IsBytes) :\n    piecesOf (codes c) = [D0 c.u0, D1 c.u1, D2 c.u2, D3 c.u3, D4 c.u4, D5 c.u5, D6 c.u6, D7 c.u7, D8 c.u8] := by")
A("  obtain ⟨h0, h1, h2, h3, h4, h5, h6, h7, h8⟩ := hc")
rw = []
for k,n in enumerate(spec):
    if n in split:
        b,p = pos[(n,'hi')]; b2,p2 = pos[(n,'lo')]
        jj = "JJ2" if split[n][1] == 1 else "JJ4"
        A(f"  have s{k} := {jj} _ (RH{k} c.u{b} h{b}) _ (RL{k} c.u{b2} h{b2})")
        rw += [f"s{k}.1", f"s{k}.2"]
A("  simp only [piecesOf, codes, List.getD_cons_zero, List.getD_cons_succ, " + ", ".join(rw) + "]")
A("  rfl")
A("")
A('''/-- two byte objects with the same unused bits (low six bits of `u8`) and the same codes are the same object:
    the 32 codes and `u8 % 64` are a complete, non-redundant description of the nine bytes -/
theorem eq_of_codes (c c' : O40) (hc : c.IsBytes) (hc' : c'.IsBytes) (h8 : c.u8 % 64 = c'.u8 % 64)
    (h : codes c = codes c') : c = c' := by
  have e := piecesOf_codes c hc
  rw [h, piecesOf_codes c' hc'] at e
  obtain ⟨a0, a1, a2, a3, a4, a5, a6, a7, a8⟩ := hc
  obtain ⟨b0, b1, b2, b3, b4, b5, b6, b7, b8⟩ := hc'
  simp only [List.cons.injEq, and_true] at e
  obtain ⟨e0, e1, e2, e3, e4, e5, e6, e7, e8⟩ := e
  have f0 := (E0 _ a0).symm.trans ((congrArg enc0 e0.symm).trans (E0 _ b0))
  have f1 := (E1 _ a1).symm.trans ((congrArg enc1 e1.symm).trans (E1 _ b1))
  have f2 := (E2 _ a2).symm.trans ((congrArg enc2 e2.symm).trans (E2 _ b2))
  have f3 := (E3 _ a3).symm.trans ((congrArg enc3 e3.symm).trans (E3 _ b3))
  have f4 := (E4 _ a4).symm.trans ((congrArg enc4 e4.symm).trans (E4 _ b4))
  have f5 := (E5 _ a5).symm.trans ((congrArg enc5 e5.symm).trans (E5 _ b5))
  have f6 := (E6 _ a6).symm.trans ((congrArg enc6 e6.symm).trans (E6 _ b6))
  have f7 := (E7 _ a7).symm.trans ((congrArg enc7 e7.symm).trans (E7 _ b7))
  have f8 : c.u8 = c'.u8 := by
    have x := E8 _ a8
    have y := E8 _ b8
    rw [e8] at y
    omega
  cases c; cases c'
  simp only [O40.mk.injEq]
  exact ⟨f0, f1, f2, f3, f4, f5, f6, f7, f8⟩

end Proofs.B40''')
open(os.path.join(ROOT,"Cvss/Proofs/ByteFacts40.lean"),"w").write("\n".join(L)+"\n")
