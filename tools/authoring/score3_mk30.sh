#!/bin/sh
# Derive the v3.0 C03 proof modules from the v3.1 ones (the generated packages differ only in the changed-scope
# ModifiedImpact formula and in `pow13`/`pow15`). Run from the lake project root after editing a *31* file.
set -e
cd "$(dirname "$0")/.."
for f in M Codes Main T Base Close Env_0 Env_1 Env_2 Env_3; do
  src=Cvss/Proofs/Score3$(echo $f | sed 's/^\([A-Za-z]*\)/\131/')
  case $f in Env_*) src=Cvss/Proofs/Score3Env31_${f#Env_}.lean; dst=Cvss/Proofs/Score3Env30_${f#Env_}.lean;;
             *) src=Cvss/Proofs/Score3${f}31.lean; dst=Cvss/Proofs/Score3${f}30.lean;; esac
  [ -f "$src" ] || continue
  sed -e 's/Score3\([A-Za-z]*\)31/Score3\130/g' -e 's/V31/V30/g' -e 's/GenV31/GenV30/g' -e 's/O31/O30/g' \
      -e 's/v3\.1/v3.0/g' -e 's/abbrev ver : Bool := true/abbrev ver : Bool := false/' \
      -e "s/\`true\` for v3.0/\`false\` for v3.0/" \
      -e 's/(pow13 (F64.sub (F64.mul miss (0x3fef23a29c779a6b : Nat)) (0x3f947ae147ae147b : Nat)))/(pow15 (F64.sub miss (0x3f947ae147ae147b : Nat)))/' \
      -e 's/`pow13`/`pow15`/g' \
      -e 's/(File generated from the v3.0 text for v3.0 by/(GENERATED from the v3.1 file by/' \
      "$src" > "$dst"
done
