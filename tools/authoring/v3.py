base = [("AV",0,5),("AC",0,5),("PR",0,5),("UI",0,5),("S",0,4),("C",None,4),("I",1,4),("A",1,4)]
opt = [ # abv, byte, mask, inc   (None = split)
 ("E",1,7,4),("RL",2,224,5),("RC",2,24,5),("CR",2,6,5),("IR",None,None,5),("AR",3,96,5),
 ("MAV",3,28,6),("MAC",3,3,6),("MPR",4,192,6),("MUI",4,48,6),("MS",4,12,5),("MC",4,3,5),("MI",5,192,5),("MA",5,48,5)]
names = [a for a,_,_ in base] + [a for a,_,_,_ in opt]
optn = [a for a,_,_,_ in opt]
def gen(V):
    out=[]; w=out.append
    w(r'''import Cvss.Proofs.VecCommon
/-!
# v3.@V@: the generated `Vector()` writes the Spec canonical form, and `lenVec()` is its length

* `vector_eq` (A): for **every** object `c` (no well-formedness, not even byte-sized fields needed)
  `c.vector = Spec.V3.canonical header3@V@ (metrics.map fun m => (m.abv, (c.get m.abv).1))`.
  Proof: unfold the generated `Vector_core`, bring the two Go helpers into closed form
  (`mandatory b pre v = b ++ (pre ++ v)`, `notMandatory b pre v = b ++ opt pre v`), and let `simp`
  compare the resulting append chain with the Spec's piece list — emission order, prefixes and header
  all come from the generated text.
* `length_formula` (B, strongest form, every byte state):
  `c.vector.length + #{metrics that do not read as a legal value} = c.lenVec`.
  Per metric one enumeration of ONE byte (or of the two parts of a field split over two bytes) through the
  generated `Get`: "length of the Spec piece + (1 if the value is illegal) = `cond (mask ≠ 0) inc 0`", where
  mask and increment are those of the generated `lenVec_core` (the rewrite only succeeds if they coincide
  syntactically with the generated text).
* consequences: `length_eq` (C17: legal values ⇒ equality), `length_eq_iff` (for byte states equality holds
  **iff** every metric reads as a legal value), `length_le` (the pre-sized buffer is never outgrown, whatever
  the bytes), `length_ne_example`.
-/
namespace Proofs.Vec3@V@
open Spec Proofs.Vec
open Model (O3@V@)

/-! ## (A) shape -/

theorem mand_eq (b pre v : Spec.Bytes) : GenV3@V@.mandatory b pre v = b ++ (pre ++ v) := by
  simp [GenV3@V@.mandatory]

theorem nm_eq (b pre v : Spec.Bytes) : GenV3@V@.notMandatory b pre v = b ++ opt pre v := by
  unfold GenV3@V@.notMandatory opt Go.strEq
  by_cases h : v = [88] <;> simp [h, mand_eq]

set_option maxHeartbeats 1000000 in
theorem core_shape (r0 r1 r2 r3 r4 r5 r6 r7 r8 r9 r10 r11 r12 r13 r14 r15 r16 r17 r18 r19 r20 r21 r22 r23 r24
    r25 r26 r27 r28 r29 r30 r31 r32 r33 : Nat) :
    GenV3@V@.Vector_core r0 r1 r2 r3 r4 r5 r6 r7 r8 r9 r10 r11 r12 r13 r14 r15 r16 r17 r18 r19 r20 r21 r22 r23 r24
      r25 r26 r27 r28 r29 r30 r31 r32 r33
    = V3.header3@V@ ++ emit V3.metrics
        (GenV3@V@.get_core r15 r16 r17 r18 r19 r20 r21 r22 r0 r23 r24 r25 r26 r27 r28 r12 r29 r30 r31 r8 r32 r33) := by
  simp only [GenV3@V@.Vector_core, flet_eq, mand_eq, nm_eq]
  generalize GenV3@V@.get_core r15 r16 r17 r18 r19 r20 r21 r22 r0 r23 r24 r25 r26 r27 r28 r12 r29 r30 r31 r8 r32 r33 = G
  simp [emit, piece, opt, render, V3.metrics, V3.base, V3.temporal, V3.environmental, V3.header3@V@, mand, optX,
    Spec.b, SLASH, COLON]

/-- the private `get` of `Vector()` is the first component of the public `Get` -/
theorem get_fst (c : O3@V@) : (fun a => (c.get a).1) = GenV3@V@.get c.u0 c.u1 c.u2 c.u3 c.u4 c.u5 := rfl

theorem vector_shape (c : O3@V@) : c.vector = V3.header3@V@ ++ emit V3.metrics (fun a => (c.get a).1) := by
  rw [get_fst]
  unfold O3@V@.vector GenV3@V@.Vector GenV3@V@.get
  rw [core_shape]

/-- **(A)** `Vector()` spells the canonical form of the object's own values — for every object. -/
theorem vector_eq (c : O3@V@) :
    c.vector = V3.canonical V3.header3@V@ (V3.metrics.map fun m => (m.abv, (c.get m.abv).1)) := by
  rw [vector_shape]; exact (V3_canonical_eq V3.header3@V@ _).symm

/-! ## (B) length -/

abbrev M (a : String) : Metric := met V3.metrics a

/-- length of the piece the canonical form writes for metric `m` of object `c`, plus 1 if `m` reads as an
    illegal value -/
def plen (c : O3@V@) (m : Metric) : Nat := (piece m (c.get m.abv).1).length + bad m (c.get m.abv).1

/-- the value `Get(a)` returns on the object whose byte `k` is `u` and whose other bytes are zero -/
def byteVal (k u : Nat) (a : Spec.Bytes) : Spec.Bytes :=
  (GenV3@V@.Get (sel 0 k u) (sel 1 k u) (sel 2 k u) (sel 3 k u) (sel 4 k u) (sel 5 k u) a).1

/-- slot statement for a metric stored inside byte `k`: for every value `u` of that byte, the length of the
    piece written for the metric (+1 if the value it reads as is illegal) is `f u` -/
abbrev SlotB (a : String) (k : Nat) (f : Nat → Nat) : Prop :=
  ∀ u, u < 256 → (piece (M a) (byteVal k u (b a))).length + bad (M a) (byteVal k u (b a)) = f u

/-! mandatory metrics: `/abv:` and one letter (`lenVec` accounts for them in its constant) -/''')
    for (a,k,n) in base:
        if k is not None:
            w(f'theorem slot_{a} : SlotB "{a}" {k} (fun _ => {n}) := by decide +kernel')
    w('\n/-! optional metrics: mask test and increment of the generated `lenVec` -/')
    for (a,k,m,inc) in opt:
        if k is not None:
            w(f'theorem slot_{a} : SlotB "{a}" {k} (fun u => cond (!(Nat.beq (Nat.land u {m}) 0)) {inc} 0) := by decide +kernel')
    w(r'''
/-! fields split over two bytes: `p` is bit 0 of the first byte, `q` bit 7 of the next one -/
def valC (p q : Nat) : Spec.Bytes := (GenV3@V@.Get p q 0 0 0 0 (b "C")).1
theorem slot_C : ∀ p, p < 2 → ∀ q ∈ [0, 128],
    (piece (M "C") (valC p q)).length + bad (M "C") (valC p q) = 4 := by decide +kernel
theorem get_C (c : O3@V@) : (c.get (M "C").abv).1 = valC (Nat.land c.u0 1) (Nat.land c.u1 128) := by
  unfold valC O3@V@.get GenV3@V@.Get
  rw [land_idem, land_idem]
  rfl

def valIR (p q : Nat) : Spec.Bytes := (GenV3@V@.Get 0 0 p q 0 0 (b "IR")).1
theorem slot_IR : ∀ p, p < 2 → ∀ q ∈ [0, 128],
    (piece (M "IR") (valIR p q)).length + bad (M "IR") (valIR p q)
      = cond ((!(Nat.beq p 0)) || (!(Nat.beq q 0))) 5 0 := by decide +kernel
theorem get_IR (c : O3@V@) : (c.get (M "IR").abv).1 = valIR (Nat.land c.u2 1) (Nat.land c.u3 128) := by
  unfold valIR O3@V@.get GenV3@V@.Get
  rw [land_idem, land_idem]
  rfl

theorem slot_apply (c : O3@V@) (m : Metric) (n : Nat) (v' : Spec.Bytes)
    (hs : (piece m v').length + bad m v' = n) (hget : (c.get m.abv).1 = v') : plen c m = n := by
  unfold plen; rw [hget]; exact hs

theorem metrics_list : V3.metrics = [''' + ", ".join(f'"{a}"' for a in names) + r'''].map M := by rfl

set_option maxHeartbeats 4000000 in
/-- **(B)** for every byte state: `len(Vector())` + number of metrics reading as an illegal value = `lenVec()` -/
theorem length_formula (c : O3@V@) (hb : c.IsBytes) :
    c.vector.length + (V3.metrics.map fun m => bad m (c.get m.abv).1).sum = c.lenVec := by
  obtain ⟨h0, h1, h2, h3, h4, h5⟩ := hb''')
    for (a,k,n) in base:
        if k is not None:
            w(f'  have h{a} := slot_apply c (M "{a}") _ _ (slot_{a} c.u{k} h{k}) rfl')
        else:
            w(f'  have h{a} := slot_apply c (M "{a}") _ _ (slot_{a} _ (land1_lt c.u0 h0) _ (land128_mem c.u1 h1)) (get_{a} c)')
    for (a,k,m,inc) in opt:
        if k is not None:
            w(f'  have h{a} := slot_apply c (M "{a}") _ _ (slot_{a} c.u{k} h{k}) rfl')
        else:
            w(f'  have h{a} := slot_apply c (M "{a}") _ _ (slot_{a} _ (land1_lt c.u2 h2) _ (land128_mem c.u3 h3)) (get_{a} c)')
    hs = " ".join("h"+a for a in names)
    w(r'''  have hhdr : V3.header3@V@.length = 8 := by decide
  have hlen : c.vector.length + (V3.metrics.map fun m => bad m (c.get m.abv).1).sum
      = V3.header3@V@.length + (V3.metrics.map (plen c)).sum := by
    rw [vector_shape, List.length_append, length_emit]
    unfold plen
    rw [sum_map_add]; omega
  dsimp only at ''' + hs + r'''
  rw [hlen, hhdr, metrics_list]
  simp only [List.map, List.sum_cons, List.sum_nil, ''' + ", ".join("h"+a for a,_,_ in base) + r''']
  unfold O3@V@.lenVec GenV3@V@.lenVec
  simp only [GenV3@V@.lenVec_core, flet_eq, cond_add]
  rw [''' + ", ".join("← h"+a for a in optn) + "]")
    for i,a in enumerate(optn):
        w(f'  generalize plen c (M "{a}") = x{i+1}')
    w(f"  clear {hs} hlen hhdr h0 h1 h2 h3 h4 h5")
    w(r'''  omega

/-- **C17** for every byte state whose metrics all read as legal values (unused bits are irrelevant) -/
theorem length_eq (c : O3@V@) (hb : c.IsBytes) (hv : ∀ m ∈ V3.metrics, (c.get m.abv).1 ∈ m.values) :
    c.vector.length = c.lenVec := by
  have h := length_formula c hb
  rw [(bad_sum_eq_zero_iff V3.metrics fun a => (c.get a).1).mpr hv] at h
  exact h

/-- for byte states, C17 holds **exactly** when every metric reads as a legal value -/
theorem length_eq_iff (c : O3@V@) (hb : c.IsBytes) :
    c.vector.length = c.lenVec ↔ ∀ m ∈ V3.metrics, (c.get m.abv).1 ∈ m.values := by
  have h := length_formula c hb
  rw [← bad_sum_eq_zero_iff V3.metrics fun a => (c.get a).1]
  omega

/-- whatever the bytes, `Vector()` never outgrows the buffer pre-sized with `lenVec()` -/
theorem length_le (c : O3@V@) (hb : c.IsBytes) : c.vector.length ≤ c.lenVec := by
  have h := length_formula c hb
  omega

theorem wf_bytes (c : O3@V@) (h : c.wf = true) : c.IsBytes := by
  simp only [O3@V@.wf, O3@V@.bytes, List.all_cons, List.all_nil, Bool.and_eq_true, Nat.blt_eq] at h
  obtain ⟨⟨⟨h0, h1, h2, h3, h4, h5, _⟩, _⟩, _⟩ := h
  exact ⟨h0, h1, h2, h3, h4, h5⟩

theorem wf_legal (c : O3@V@) (h : c.wf = true) : ∀ m ∈ V3.metrics, (c.get m.abv).1 ∈ m.values := by
  simp only [O3@V@.wf, Bool.and_eq_true] at h
  exact legalGets_mem _ _ h.2

/-- **C17** for well-formed objects -/
theorem length_eq_wf (c : O3@V@) (h : c.wf = true) : c.vector.length = c.lenVec :=
  length_eq c (wf_bytes c h) (wf_legal c h)

/-- the hypotheses are satisfiable by a non-trivial object -/
example : (⟨110, 194, 1, 16, 0, 48⟩ : O3@V@).wf = true := by decide +kernel
example : (⟨110, 194, 1, 16, 0, 48⟩ : O3@V@).vector
    = b "CVSS:3.@V@/AV:A/AC:H/PR:L/UI:R/S:C/C:L/I:N/A:H/E:F/IR:M/MAV:P/MA:N" := by decide +kernel

/-- On non-well-formed byte states the equality fails: code 5 in the `E` field reads as `""`; `lenVec` adds 4 for
    `/E:` + one letter, `Vector` writes only `/E:` (the buffer is over-allocated by one byte, never outgrown). -/
theorem length_ne_example :
    (⟨0, 5, 0, 0, 0, 0⟩ : O3@V@).vector.length = 47 ∧ (⟨0, 5, 0, 0, 0, 0⟩ : O3@V@).lenVec = 48 := by decide +kernel

end Proofs.Vec3@V@''')
    return "\n".join(out).replace("@V@",V)+"\n"
for v in ['0','1']:
    open(f'/root/work/vec/lean/Cvss/Proofs/Vec3{v}.lean','w').write(gen(v))
