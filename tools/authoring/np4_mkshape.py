#!/usr/bin/env python3
# authoring aid: cut the generated text of GenK40.Score_ok_core into the named pieces of NoPanic40Shape.lean
import re
K = open('/root/work/np4/verif/lean/Cvss/Gen/K40.lean').read().split('\n')
def L(a, b, dedent=0, indent=0):
    out = []
    for i in range(a, b + 1):
        s = K[i - 1]
        assert s[:dedent].strip() == '', (i, s)
        out.append(' ' * indent + s[dedent:])
    return '\n'.join(out)

start = next(i for i, s in enumerate(K, 1) if s.startswith('def Score_ok_core'))
assert start == 2629, start
VALS = 'avVal acVal atVal prVal uiVal vcVal viVal vaVal scVal siVal saVal crVal irVal arVal'
EQS = 'eq1 eq2 eq3 eq4 eq5 eq6'
MSD = 'eq1msd eq2msd eq3eq6msd eq4msd eq5msd'
SV = 'eq1svdst eq2svdst eq3eq6svdst eq4svdst eq5svdst'
ST = '(okResult, eq1svdst, eq2svdst, eq3eq6svdst, eq4svdst, eq5svdst)'
R = ' '.join('r%d' % i for i in range(26))

def step(c, g, v, nlm):
    return ('  match stepK (%s) (%s) (%s) okResult %s lower with\n  | (okResult, %s, lower) =>' % (c, g, v, nlm, nlm))

# sanity: the four simple steps have the expected text
def chk(line, text):
    assert K[line - 1].strip() == text, (line, K[line - 1])
chk(2668, 'match (cond (Nat.blt eq1 (2 : Nat))')
chk(2669, '(let okResult := (okResult && (GenK40.lookupMV_ok (Nat.add eq1 (1 : Nat)) eq2 eq3 eq4 eq5 eq6))')
chk(2670, 'F64.flet (GenK40.lookupMV (Nat.add eq1 (1 : Nat)) eq2 eq3 eq4 eq5 eq6) fun eq1nlm =>')
chk(2671, 'F64.flet (Nat.add lower (1 : Nat)) fun lower =>')
chk(2672, '(okResult, eq1nlm, lower))')
chk(2673, '((okResult, eq1nlm, lower))) with')

out = []
out.append('''import Cvss.Gen.K40
import Cvss.Base.F64
/-!
# v4.0 `Score_ok` (the no-panic twin of `Score`): the generated core, re-read in separable form

`ScoreOkH` below is the text of the generated `GenK40.Score_ok_core` cut into named pieces
(`preK`: the `lookupMV_ok` guards and lookups of the MacroVector and of its next-lower MacroVectors, with the
four simple steps written through the combinator `stepK` and the EQ3+EQ6 step as `step36K`; `bodyK`: the body
of the innermost loop with the fourteen `severityDistance_ok` guards; `nestK`: the four nested loops with the
table-index guards and the verdict `okResult` in the loop state; `postK`: the `getDepth_ok` guards). The pieces
are copies of the generated text; `Score_ok_core_eq_ScoreOkH` ties them to the generated definition **by
definitional unfolding** (`rfl`), so any change of the Go source (or of `tools/okgen`) that changes the generated
twin makes that theorem fail unless the pieces are changed in the same way; all tables and all helper twins
(`lookupMV_ok`, `severityDistance_ok`, `index_ok`, `getDepth_ok`, `getDepthEQ3EQ6_ok`, `macroVector_core`, `mod_` …)
are still the generated definitions (referenced by name, not copied).
-/
set_option linter.unusedVariables false
set_option maxRecDepth 100000
namespace Proofs.NoPanic40
open GenK40

/-- state of the loop nest: the verdict and the five severity distances -/
abbrev SK := Bool × Nat × Nat × Nat × Nat × Nat

/-- one "next lower MacroVector" step: if `c`, guard `g` joins the verdict, the looked-up value `v` replaces
    the NaN placeholder and `lower` is incremented -/
def stepK (c g : Bool) (v : Nat) (okResult : Bool) (nlm lower : Nat) : Bool × Nat × Nat :=
  cond c
    (let okResult := (okResult && g)
    F64.flet v fun nlm =>
    F64.flet (Nat.add lower (1 : Nat)) fun lower =>
    (okResult, nlm, lower))
    ((okResult, nlm, lower))
''')

out.append('/-- the EQ3+EQ6 step (four cases; the last one looks up two MacroVectors) -/')
out.append('def step36K (%s : Nat) (okResult : Bool) (eq3eq6nlm lower : Nat) : Bool × Nat × Nat :=' % EQS)
chk(2700, 'match (cond ((Nat.beq eq3 (1 : Nat)) && (Nat.beq eq6 (1 : Nat)))')
chk(2733, '(okResult, eq3eq6nlm, lower))) with')
body36 = L(2700, 2733, 4, 2).split('\n')
body36[0] = body36[0].replace('match (cond', 'cond', 1)
assert body36[-1].endswith('(okResult, eq3eq6nlm, lower))) with')
body36[-1] = body36[-1][:-len(') with')]
out.append('\n'.join(body36))
out.append('')

out.append('/-- lookups: verdict after the `lookupMV_ok` guards, value of the MacroVector, number of existing lower MacroVectors, the five available distances -/')
out.append('def preK (okResult : Bool) (%s : Nat) (k : Bool → Nat → Nat → Nat → Nat → Nat → Nat → Nat → Bool) : Bool :=' % EQS)
out.append(L(2664, 2667, 4, 2))
out.append(step('Nat.blt eq1 (2 : Nat)', 'GenK40.lookupMV_ok (Nat.add eq1 (1 : Nat)) eq2 eq3 eq4 eq5 eq6', 'GenK40.lookupMV (Nat.add eq1 (1 : Nat)) eq2 eq3 eq4 eq5 eq6', 'eq1nlm'))
chk(2675, 'F64.flet F64.NAN fun eq2nlm =>')
out.append(L(2675, 2675, 4, 2))
chk(2676, 'match (cond (Nat.blt eq2 (1 : Nat))')
chk(2677, '(let okResult := (okResult && (GenK40.lookupMV_ok eq1 (Nat.add eq2 (1 : Nat)) eq3 eq4 eq5 eq6))')
chk(2678, 'F64.flet (GenK40.lookupMV eq1 (Nat.add eq2 (1 : Nat)) eq3 eq4 eq5 eq6) fun eq2nlm =>')
out.append(step('Nat.blt eq2 (1 : Nat)', 'GenK40.lookupMV_ok eq1 (Nat.add eq2 (1 : Nat)) eq3 eq4 eq5 eq6', 'GenK40.lookupMV eq1 (Nat.add eq2 (1 : Nat)) eq3 eq4 eq5 eq6', 'eq2nlm'))
out.append(L(2683, 2683, 4, 2))
chk(2684, 'match (cond (Nat.blt eq4 (2 : Nat))')
chk(2685, '(let okResult := (okResult && (GenK40.lookupMV_ok eq1 eq2 eq3 (Nat.add eq4 (1 : Nat)) eq5 eq6))')
chk(2686, 'F64.flet (GenK40.lookupMV eq1 eq2 eq3 (Nat.add eq4 (1 : Nat)) eq5 eq6) fun eq4nlm =>')
out.append(step('Nat.blt eq4 (2 : Nat)', 'GenK40.lookupMV_ok eq1 eq2 eq3 (Nat.add eq4 (1 : Nat)) eq5 eq6', 'GenK40.lookupMV eq1 eq2 eq3 (Nat.add eq4 (1 : Nat)) eq5 eq6', 'eq4nlm'))
out.append(L(2691, 2691, 4, 2))
chk(2692, 'match (cond (Nat.blt eq5 (2 : Nat))')
chk(2693, '(let okResult := (okResult && (GenK40.lookupMV_ok eq1 eq2 eq3 eq4 (Nat.add eq5 (1 : Nat)) eq6))')
chk(2694, 'F64.flet (GenK40.lookupMV eq1 eq2 eq3 eq4 (Nat.add eq5 (1 : Nat)) eq6) fun eq5nlm =>')
out.append(step('Nat.blt eq5 (2 : Nat)', 'GenK40.lookupMV_ok eq1 eq2 eq3 eq4 (Nat.add eq5 (1 : Nat)) eq6', 'GenK40.lookupMV eq1 eq2 eq3 eq4 (Nat.add eq5 (1 : Nat)) eq6', 'eq5nlm'))
out.append(L(2699, 2699, 4, 2))
out.append('  match step36K %s okResult eq3eq6nlm lower with' % EQS)
out.append(L(2734, 2764, 4, 2))
out.append('  k okResult eqsv lower %s' % MSD)
out.append('')

out.append('/-- body of the innermost loop: fourteen `severityDistance_ok` guards, then `continue` or overwrite-and-`break` -/')
out.append('def bodyK (%s : Nat) (eq1mx eq2mx eq3eq6mx eq4mx : Nat) : SK → Go.Ctl SK Bool :=' % VALS)
out.append('  fun %s =>' % ST)
bd = L(2778, 2827, 20, 4)
assert bd.endswith(') with')
bd = bd[:-len(') with')]
out.append(bd)
out.append('')

out.append('''/-- what the generated code does with the result of an inner loop -/
def wrapK : Go.Ctl SK Bool → Go.Ctl SK Bool
  | Go.Ctl.ret r => Go.Ctl.ret r
  | Go.Ctl.brk %s => Go.Ctl.ret false
  | Go.Ctl.next %s =>
    Go.Ctl.next %s
''' % (ST, ST, ST))
for (a, b, c, d) in [(2828, 2829, 2830, 2831), (2832, 2833, 2834, 2835), (2836, 2837, 2838, 2839)]:
    chk(a, '| Go.Ctl.ret r => Go.Ctl.ret r')
    chk(b, '| Go.Ctl.brk %s => Go.Ctl.ret false' % ST)
    chk(c, '| Go.Ctl.next %s =>' % ST)
    assert K[d - 1].strip() == 'Go.Ctl.next %s) with' % ST, K[d - 1]

out.append('/-- the loop nest over the highest severity vectors `L1 … L4` of the four EQ groups; `G2 G3 G4` are the table-index guards of the three inner `range` expressions -/')
out.append('def nestK (f : Nat → Nat → Nat → Nat → SK → Go.Ctl SK Bool) (G2 G3 G4 : Bool) (L1 L2 L3 L4 : List Nat) (st : SK) : Go.Ctl SK Bool :=')
out.append('''  Go.forRange L1 st (fun eq1mx ST =>
    let okResult := (okResult && G2)
    wrapK (Go.forRange L2 ST (fun eq2mx ST =>
      let okResult := (okResult && G3)
      wrapK (Go.forRange L3 ST (fun eq3eq6mx ST =>
        let okResult := (okResult && G4)
        wrapK (Go.forRange L4 ST (fun eq4mx ST =>
          f eq1mx eq2mx eq3eq6mx eq4mx ST)))))))
'''.replace('ST', ST))

out.append('/-- the `getDepth_ok` guards (the float computations beside them do not touch the verdict) -/')
out.append('def postK (okResult : Bool) (%s lower %s : Nat) (%s : Nat) : Bool :=' % (EQS, MSD, SV))
pk = L(2843, 2864, 4, 2)
assert pk.endswith('okResult)')
pk = pk[:-1]
out.append(pk)
out.append('')

chk(2840, '| Go.Ctl.ret r => r')
chk(2841, '| Go.Ctl.brk %s => false' % ST)
chk(2842, '| Go.Ctl.next %s =>' % ST)
out.append('''/-- end of `Score_ok`: the loops never `return`, so the result is `postK` on the final state -/
def finK (%s lower %s : Nat) : Go.Ctl SK Bool → Bool
  | Go.Ctl.ret r => r
  | Go.Ctl.brk %s => false
  | Go.Ctl.next %s =>
    postK okResult %s lower %s %s
''' % (EQS, MSD, ST, ST, EQS, MSD, SV))

def guard(line):
    s = K[line - 1].strip()
    m = re.match(r'^let okResult := \(okResult && (\(.*\))\)$', s)
    assert m, s
    return m.group(1)
def rng(line, var):
    s = K[line - 1].strip()
    m = re.match(r'^match Go\.forRange (\(.*?\)) \(okResult, eq1svdst, eq2svdst, eq3eq6svdst, eq4svdst, eq5svdst\) \(fun %s \(okResult, eq1svdst, eq2svdst, eq3eq6svdst, eq4svdst, eq5svdst\) =>$' % var, s)
    assert m, s
    return m.group(1)
G1, G2, G3, G4 = guard(2770), guard(2772), guard(2774), guard(2776)
L1, L2, L3, L4 = rng(2771, 'eq1mx'), rng(2773, 'eq2mx'), rng(2775, 'eq3eq6mx'), rng(2777, 'eq4mx')
out.append('/-- the loops of `Score_ok` with the first table-index guard, then the end -/')
out.append('def loopsK (okResult : Bool) (%s : Nat) (%s lower %s : Nat) : Bool :=' % (VALS, EQS, MSD))
out.append(L(2765, 2770, 4, 2))
out.append('  finK %s lower %s' % (EQS, MSD))
out.append('    (nestK (bodyK %s)' % VALS)
out.append('      %s' % G2)
out.append('      %s' % G3)
out.append('      %s' % G4)
out.append('      %s' % L1)
out.append('      %s' % L2)
out.append('      %s' % L3)
out.append('      %s' % L4)
out.append('      %s)' % ST)
out.append('')

out.append('/-- everything after the no-impact shortcut and the MacroVector computation -/')
out.append('def tailK (okResult : Bool) (%s : Nat) (%s : Nat) : Bool :=' % (VALS, EQS))
out.append('  preK okResult %s fun okResult eqsv lower %s =>' % (EQS, MSD))
out.append('    loopsK okResult %s %s lower %s' % (VALS, EQS, MSD))
out.append('')

out.append('/-- `Score_ok_core`, re-read: effective codes, no-impact shortcut, requirement defaults, MacroVector, then `tailK` -/')
out.append('def ScoreOkH (%s : Nat) : Bool :=' % R)
chk(2663, '| (eq1, eq2, eq3, eq4, eq5, eq6) =>')
out.append(L(2630, 2663))
out.append('    tailK okResult %s %s)' % (VALS, EQS))
out.append('')
out.append('/-- **Shape lemma**: the generated twin is the separable reading, by definitional unfolding. -/')
out.append('theorem Score_ok_core_eq_ScoreOkH (%s : Nat) :' % R)
out.append('    GenK40.Score_ok_core %s =\n      ScoreOkH %s := by\n  rfl' % (R, R))
out.append('')
out.append('end Proofs.NoPanic40')
open('/root/work/np4/verif/lean/Cvss/Proofs/NoPanic40Shape.lean', 'w').write('\n'.join(out) + '\n')
