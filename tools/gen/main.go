// Prototype translator v2: Go (subset) -> shallow Lean over Nat (uint8/int/float64-bits), Bool, List Nat.
// Handles: consts, package tables, if/else (merge or duplicate), switch, range loops with
// continue/break/return, multi-value returns, receiver-read hoisting.
//
// Two modes:
//
//	gen <dir> <namespace> <import> <roots…>                       table / straight-line functions  -> Gen/V*.lean
//	gen <dir> <namespace> <imp1,imp2> ext:<GenVxx> pfn:<f> … [fuel:N]   the parsers (see "Parser mode" below) -> Gen/P*.lean
package main

import (
	"bytes"
	"crypto/sha256"
	"fmt"
	"go/ast"
	"go/build"
	"go/constant"
	"go/importer"
	"go/parser"
	"go/printer"
	"go/token"
	"go/types"
	"math"
	"os"
	"path/filepath"
	"sort"
	"strings"
)

type gen struct {
	fset      *token.FileSet
	info      *types.Info
	pkg       *types.Package
	funcs     map[string]*ast.FuncDecl
	recv      map[string]string
	reads     map[string][]string
	tables    map[string]*ast.ValueSpec
	done      map[string]bool
	defsOut   []string
	ns        string
	rawRecv   bool
	readExprs map[string]string // read text -> Lean expr over u0..uN
	errVars   map[string]int    // package-level error sentinels -> code
	errTypes  map[string]int    // typed errors -> code
	mutates   map[string]bool   // method assigns receiver fields (state-passing translation)
	ptrParam  map[string]bool   // "receiver" is really a first *CVSSxx parameter
	fields    []string          // object struct field names
	panicVal  string            // current function's panic value
	// ---- parser mode (Gen/P*.lean) ----
	pmode  bool                // translating the parsers: checked indexing, loops with fuel, lifted loop bodies
	ext    string              // namespace holding everything that is not a parser-mode function (GenVxx)
	pfuncs map[string]bool     // functions translated in parser mode
	fuel   string              // fuel for `for { }` loops without a condition
	subst  map[ast.Expr]string // hoisted (checked) subexpressions -> bound name
	cur    *pfn                // parser-mode function being translated
	pinfos map[string]*pfn
}

func (g *gen) src(n ast.Node) string {
	var b bytes.Buffer
	printer.Fprint(&b, g.fset, n)
	return strings.Join(strings.Fields(b.String()), " ")
}

func (g *gen) die(n ast.Node, f string, a ...any) {
	fmt.Fprintf(os.Stderr, "%s: unsupported: %s\n", g.fset.Position(n.Pos()), fmt.Sprintf(f, a...))
	os.Exit(2)
}

func stripParens(e ast.Expr) ast.Expr {
	for {
		p, ok := e.(*ast.ParenExpr)
		if !ok {
			return e
		}
		e = p.X
	}
}

// ---------- receiver-read hoisting ----------

func (g *gen) isRecvPure(e ast.Expr, recv string) (pure bool, hasRead bool) {
	if recv == "" {
		return false, false
	}
	switch x := e.(type) {
	case *ast.ParenExpr:
		return g.isRecvPure(x.X, recv)
	case *ast.BasicLit:
		return true, false
	case *ast.Ident:
		if tv, ok := g.info.Types[x]; ok && tv.Value != nil {
			return true, false
		}
		return false, false
	case *ast.SelectorExpr:
		if id, ok := x.X.(*ast.Ident); ok && id.Name == recv {
			if sel, ok := g.info.Selections[x]; ok && sel.Kind() == types.FieldVal {
				return true, true
			}
		}
		return false, false
	case *ast.BinaryExpr:
		switch x.Op {
		case token.AND, token.OR, token.SHL, token.SHR:
			p1, r1 := g.isRecvPure(x.X, recv)
			p2, r2 := g.isRecvPure(x.Y, recv)
			return p1 && p2, r1 || r2
		}
	}
	return false, false
}

func (g *gen) collectReads(name string) []string {
	if r, ok := g.reads[name]; ok {
		return r
	}
	g.reads[name] = nil
	fd := g.funcs[name]
	recv := g.recv[name]
	var res []string
	seen := map[string]bool{}
	add := func(s string) {
		if !seen[s] {
			seen[s] = true
			res = append(res, s)
		}
	}
	ast.Inspect(fd.Body, func(n ast.Node) bool {
		if e, ok := n.(ast.Expr); ok {
			if pure, has := g.isRecvPure(e, recv); pure && has {
				// a read is identified by its normalised Lean text, not by its Go spelling: `0x07` / `0b111`, `(u>>6)&3` /
				// `(u&0xC0)>>6` and a renamed receiver all denote the same read
				add(g.rawRead(e))
				g.readExprs[g.rawRead(e)] = g.rawRead(e)
				return false
			}
			if call, ok := e.(*ast.CallExpr); ok {
				if sel, ok := call.Fun.(*ast.SelectorExpr); ok {
					if id, ok := sel.X.(*ast.Ident); ok && id.Name == recv && recv != "" {
						for _, r := range g.collectReads(sel.Sel.Name) {
							add(r)
						}
					}
				}
				if id, ok := call.Fun.(*ast.Ident); ok && g.ptrParam[id.Name] {
					if g.recv[id.Name] != recv {
						g.die(call, "callee %s names the object %q, caller %q", id.Name, g.recv[id.Name], recv)
					}
					for _, r := range g.collectReads(id.Name) {
						add(r)
						g.readExprs[r] = g.readExprs[r]
					}
				}
			}
		}
		return true
	})
	g.reads[name] = res
	return res
}

// constInt: the value of a constant non-negative integer expression
func (g *gen) constInt(e ast.Expr) *int64 {
	if tv, ok := g.info.Types[stripParens(e)]; ok && tv.Value != nil && tv.Value.Kind() == constant.Int {
		if n, ok := constant.Int64Val(tv.Value); ok && n >= 0 {
			return &n
		}
	}
	return nil
}

// rawRead renders a receiver-pure expression over the field names themselves.
func (g *gen) rawRead(e ast.Expr) string {
	e = stripParens(e)
	if tv, ok := g.info.Types[e]; ok && tv.Value != nil {
		return "(" + tv.Value.ExactString() + " : Nat)"
	}
	switch x := e.(type) {
	case *ast.SelectorExpr:
		return x.Sel.Name
	case *ast.BinaryExpr:
		if x.Op == token.AND {
			// canonical forms: constant operand second; `(X >> s) & m` is written `(X & (m << s)) >> s` (equal on Nat)
			xe, ye := stripParens(x.X), stripParens(x.Y)
			if g.constInt(xe) != nil && g.constInt(ye) == nil {
				xe, ye = ye, xe
			}
			if m := g.constInt(ye); m != nil {
				if sh, ok := xe.(*ast.BinaryExpr); ok && sh.Op == token.SHR {
					if sc := g.constInt(sh.Y); sc != nil && *sc < 64 {
						return fmt.Sprintf("(Nat.shiftRight (Nat.land %s (%d : Nat)) (%d : Nat))", g.rawRead(sh.X), *m<<uint(*sc), *sc)
					}
				}
				return fmt.Sprintf("(Nat.land %s (%d : Nat))", g.rawRead(xe), *m)
			}
		}
		a, b := g.rawRead(x.X), g.rawRead(x.Y)
		switch x.Op {
		case token.AND:
			return fmt.Sprintf("(Nat.land %s %s)", a, b)
		case token.OR:
			return fmt.Sprintf("(Nat.lor %s %s)", a, b)
		case token.SHL:
			// the width of a shift is that of its (typed) result: uint8 wraps, 64-bit integers are assumed not to overflow
			if bt, ok := g.typeOf(x).Underlying().(*types.Basic); ok {
				if bt.Kind() == types.Uint8 {
					return fmt.Sprintf("(Nat.mod (Nat.shiftLeft %s %s) 256)", a, b)
				}
				if wideInt(bt) {
					return fmt.Sprintf("(Nat.shiftLeft %s %s)", a, b)
				}
			}
			g.die(e, "shift of type %s", g.typeOf(x))
		case token.SHR:
			return fmt.Sprintf("(Nat.shiftRight %s %s)", a, b)
		}
	}
	g.die(e, "read expression %s", g.src(e))
	return ""
}

// ---------- types ----------

func leanType(t types.Type) string {
	if n, ok := t.(*types.Named); ok && n.Obj().Name() == "error" {
		return "Go.Err"
	}
	switch u := t.Underlying().(type) {
	case *types.Basic:
		if u.Info()&types.IsBoolean != 0 {
			return "Bool"
		}
		if u.Info()&types.IsString != 0 {
			return "(List Nat)"
		}
		if u.Info()&(types.IsInteger|types.IsFloat) != 0 {
			return "Nat"
		}
	case *types.Slice:
		return "(List " + leanType(u.Elem()) + ")"
	case *types.Pointer:
		return leanType(u.Elem())
	case *types.Tuple:
		if u.Len() == 0 {
			return "Unit"
		}
		var ps []string
		for i := 0; i < u.Len(); i++ {
			ps = append(ps, leanType(u.At(i).Type()))
		}
		if len(ps) == 1 {
			return ps[0]
		}
		return "(" + strings.Join(ps, " × ") + ")"
	}
	return "?" + t.String()
}

func isNatLike(t types.Type) bool { return leanType(t) == "Nat" }

func (g *gen) typeOf(e ast.Expr) types.Type { return g.info.Types[e].Type }
func (g *gen) isFloat(e ast.Expr) bool {
	b, ok := g.typeOf(e).Underlying().(*types.Basic)
	return ok && (b.Kind() == types.Float64 || b.Kind() == types.UntypedFloat)
}
func (g *gen) isUint8(e ast.Expr) bool {
	b, ok := g.typeOf(e).Underlying().(*types.Basic)
	return ok && b.Kind() == types.Uint8
}

// wideInt: integer types whose arithmetic is modelled on natural numbers without wrap-around
func wideInt(b *types.Basic) bool {
	switch b.Kind() {
	case types.Int, types.Uint, types.Int64, types.Uint64, types.Uintptr, types.UntypedInt:
		return true
	}
	return false
}

func (g *gen) isString(e ast.Expr) bool {
	b, ok := g.typeOf(e).Underlying().(*types.Basic)
	return ok && b.Info()&types.IsString != 0
}
func isErrorType(t types.Type) bool {
	n, ok := t.(*types.Named)
	return ok && n.Obj().Name() == "error"
}
func zeroOf(t types.Type) string {
	switch leanType(t) {
	case "Nat":
		return "(0 : Nat)"
	case "Bool":
		return "false"
	case "Go.Err":
		return "Go.errNil"
	}
	return "[]"
}
func strLit(s string) string {
	var bs []string
	for _, c := range []byte(s) {
		bs = append(bs, fmt.Sprint(c))
	}
	return "([" + strings.Join(bs, ", ") + "] : List Nat)"
}

var reserved = map[string]bool{"end": true, "at": true, "from": true, "to": true, "fun": true, "do": true, "then": true, "else": true, "if": true, "let": true, "in": true, "e": true, "open": true, "show": true, "abs": true, "index": true, "mod": true, "pr": true, "sc": true, "at_": true}

func leanName(s string) string {
	if reserved[s] {
		return s + "_"
	}
	return s
}

func f64lit(v constant.Value) string {
	f, _ := constant.Float64Val(v)
	return fmt.Sprintf("0x%016x", math.Float64bits(f))
}

// ---------- expressions ----------

type env struct {
	name   string
	recv   string
	params map[string]string
}

const poison = "(0x7FF8DEAD00000000 : Nat)"

func (g *gen) expr(e ast.Expr, en *env) string {
	e = stripParens(e)
	if s, ok := g.subst[e]; ok {
		return s
	}
	if g.pmode {
		if s, ok := g.pexprHook(e, en); ok {
			return s
		}
	}
	if tv, ok := g.info.Types[e]; ok && tv.IsNil() {
		return "Go.errNil"
	}
	if tv, ok := g.info.Types[e]; ok && tv.Value != nil {
		if b, ok := tv.Type.Underlying().(*types.Basic); ok {
			switch {
			case b.Info()&types.IsString != 0:
				return strLit(constant.StringVal(tv.Value)) + " /- " + strings.ReplaceAll(constant.StringVal(tv.Value), "-/", "") + " -/"
			case b.Info()&types.IsFloat != 0:
				return fmt.Sprintf("(%s : Nat)", f64lit(tv.Value))
			case b.Info()&types.IsInteger != 0:
				return "(" + tv.Value.ExactString() + " : Nat)"
			case b.Info()&types.IsBoolean != 0:
				return tv.Value.ExactString()
			}
		}
	}
	if pure, has := g.isRecvPure(e, en.recv); pure && has && !g.mutates[en.name] {
		return en.params[g.rawRead(e)]
	}
	switch x := e.(type) {
	case *ast.SelectorExpr:
		if id, ok := x.X.(*ast.Ident); ok && id.Name == en.recv && g.mutates[en.name] {
			return x.Sel.Name
		}
	case *ast.StarExpr:
		// *b (in-out slice)  or  *(*string)(unsafe.Pointer(&b))
		if call, ok := stripParens(x.X).(*ast.CallExpr); ok && len(call.Args) == 1 {
			if inner, ok := stripParens(call.Args[0]).(*ast.CallExpr); ok && len(inner.Args) == 1 {
				if u, ok := stripParens(inner.Args[0]).(*ast.UnaryExpr); ok && u.Op == token.AND {
					return g.expr(u.X, en)
				}
			}
		}
		return g.expr(x.X, en)
	case *ast.CompositeLit:
		var el []string
		for _, v := range x.Elts {
			el = append(el, g.expr(v, en))
		}
		return "[" + strings.Join(el, ", ") + "]"
	case *ast.Ident:
		if c, ok := g.errVars[x.Name]; ok {
			return fmt.Sprintf("(Go.Err.mk %d []) /- %s -/", c, x.Name)
		}
		if _, ok := g.tables[x.Name]; ok {
			if g.pmode {
				return g.ext + ".tbl_" + x.Name
			}
			g.needTable(x.Name)
			return g.ns + ".tbl_" + x.Name
		}
		return leanName(x.Name)
	case *ast.IndexExpr:
		return fmt.Sprintf("(Go.idx %s %s)", g.expr(x.X, en), g.expr(x.Index, en))
	case *ast.UnaryExpr:
		if x.Op == token.AND {
			if cl, ok := x.X.(*ast.CompositeLit); ok {
				if id, ok := cl.Type.(*ast.Ident); ok {
					if c, ok := g.errTypes[id.Name]; ok {
						kv := cl.Elts[0].(*ast.KeyValueExpr)
						return fmt.Sprintf("(Go.Err.mk %d %s) /- %s -/", c, g.expr(kv.Value, en), id.Name)
					}
				}
			}
			return g.expr(x.X, en)
		}
		switch x.Op {
		case token.NOT:
			return "(!" + g.expr(x.X, en) + ")"
		case token.SUB:
			if g.isFloat(x.X) {
				return "(F64.neg " + g.expr(x.X, en) + ")"
			}
		}
	case *ast.BinaryExpr:
		// the one float→integer idiom: `int(f) % c == 0` / `!= 0`, with gc/amd64's out-of-range behaviour (F64.intRemZero)
		if x.Op == token.EQL || x.Op == token.NEQ {
			if z := g.constInt(x.Y); z != nil && *z == 0 {
				if rem, ok := stripParens(x.X).(*ast.BinaryExpr); ok && rem.Op == token.REM {
					if d := g.constInt(rem.Y); d != nil && *d > 0 {
						if conv, ok := stripParens(rem.X).(*ast.CallExpr); ok && len(conv.Args) == 1 {
							if tv, ok := g.info.Types[conv.Fun]; ok && tv.IsType() && g.isFloat(conv.Args[0]) {
								if to, ok := tv.Type.Underlying().(*types.Basic); ok && (to.Kind() == types.Int || to.Kind() == types.Int64) {
									r := fmt.Sprintf("(F64.intRemZero %s (%d : Nat))", g.expr(conv.Args[0], en), *d)
									if x.Op == token.NEQ {
										r = "(!" + r + ")"
									}
									return r
								}
							}
						}
					}
				}
			}
		}
		a, b := g.expr(x.X, en), g.expr(x.Y, en)
		if x.Op == token.LAND {
			return fmt.Sprintf("(%s && %s)", a, b)
		}
		if x.Op == token.LOR {
			return fmt.Sprintf("(%s || %s)", a, b)
		}
		if g.isString(x.X) {
			switch x.Op {
			case token.EQL:
				return fmt.Sprintf("(Go.strEq %s %s)", a, b)
			case token.NEQ:
				return fmt.Sprintf("(!(Go.strEq %s %s))", a, b)
			}
		}
		if isErrorType(g.typeOf(x.X)) {
			switch x.Op {
			case token.EQL:
				return fmt.Sprintf("(Go.Err.beq %s %s)", a, b)
			case token.NEQ:
				return fmt.Sprintf("(!(Go.Err.beq %s %s))", a, b)
			}
		}
		if g.isFloat(x.X) {
			m := map[token.Token]string{token.ADD: "F64.add %s %s", token.SUB: "F64.sub %s %s", token.MUL: "F64.mul %s %s", token.QUO: "F64.div %s %s",
				token.EQL: "F64.eq %s %s", token.NEQ: "!(F64.eq %s %s)", token.LSS: "F64.lt %s %s", token.LEQ: "F64.le %s %s", token.GTR: "F64.lt %[2]s %[1]s", token.GEQ: "F64.le %[2]s %[1]s"}
			if f, ok := m[x.Op]; ok {
				return "(" + fmt.Sprintf(f, a, b) + ")"
			}
		} else {
			u8 := g.isUint8(x)
			switch x.Op {
			case token.SHL, token.ADD, token.SUB, token.MUL, token.QUO, token.REM:
				// integers are natural numbers in the model: uint8 results are wrapped mod 256, 64-bit results are assumed
				// not to overflow; everything else (int8/16/32, uint16/32, signed subtraction, division by a non-constant
				// or non-positive divisor) is refused rather than modelled wrongly
				if bt, ok := g.typeOf(x).Underlying().(*types.Basic); ok && bt.Info()&types.IsInteger != 0 && !u8 && !wideInt(bt) {
					g.die(x, "arithmetic on %s is not modelled", bt.Name())
				}
				if !u8 && (x.Op == token.MUL || x.Op == token.ADD || x.Op == token.SHL) {
					// 64-bit results are assumed not to overflow: only plausible for small operands — a large constant factor,
					// or a product of two run-time values, is refused
					cx, cy := g.constInt(x.X), g.constInt(x.Y)
					if (cx != nil && *cx >= 1<<31) || (cy != nil && *cy >= 1<<31) {
						g.die(x, "64-bit arithmetic with a constant >= 2^31 may overflow: not modelled")
					}
					if x.Op == token.MUL && cx == nil && cy == nil {
						g.die(x, "product of two run-time 64-bit integers may overflow: not modelled")
					}
					if x.Op == token.SHL && (cy == nil || *cy >= 32) {
						g.die(x, "left shift of a 64-bit integer by a run-time or large count may overflow: not modelled")
					}
				}
				if x.Op == token.SUB && !u8 {
					g.die(x, "subtraction on a non-uint8 integer may go negative: not modelled")
				}
				if x.Op == token.QUO || x.Op == token.REM {
					if d := g.constInt(x.Y); d == nil || *d == 0 {
						g.die(x, "division by a non-constant or zero divisor is not modelled")
					}
				}
			}
			wrap := func(s string) string {
				if u8 {
					return "(Nat.mod " + s + " 256)"
				}
				return s
			}
			switch x.Op {
			case token.AND:
				return fmt.Sprintf("(Nat.land %s %s)", a, b)
			case token.OR:
				return fmt.Sprintf("(Nat.lor %s %s)", a, b)
			case token.SHL:
				return wrap(fmt.Sprintf("(Nat.shiftLeft %s %s)", a, b))
			case token.SHR:
				return fmt.Sprintf("(Nat.shiftRight %s %s)", a, b)
			case token.ADD:
				return wrap(fmt.Sprintf("(Nat.add %s %s)", a, b))
			case token.SUB:
				if u8 {
					return fmt.Sprintf("(Nat.mod (Nat.sub (Nat.add %s 256) %s) 256)", a, b)
				}
				return fmt.Sprintf("(Nat.sub %s %s)", a, b) // unreachable (refused above)
			case token.MUL:
				return wrap(fmt.Sprintf("(Nat.mul %s %s)", a, b))
			case token.QUO:
				return fmt.Sprintf("(Nat.div %s %s)", a, b)
			case token.REM:
				return fmt.Sprintf("(Nat.mod %s %s)", a, b)
			case token.EQL:
				return fmt.Sprintf("(Nat.beq %s %s)", a, b)
			case token.NEQ:
				return fmt.Sprintf("(!(Nat.beq %s %s))", a, b)
			case token.LSS:
				return fmt.Sprintf("(Nat.blt %s %s)", a, b)
			case token.LEQ:
				return fmt.Sprintf("(Nat.ble %s %s)", a, b)
			case token.GTR:
				return fmt.Sprintf("(Nat.blt %s %s)", b, a)
			case token.GEQ:
				return fmt.Sprintf("(Nat.ble %s %s)", b, a)
			}
		}
	case *ast.CallExpr:
		// conversions
		if tv, ok := g.info.Types[x.Fun]; ok && tv.IsType() {
			arg := g.expr(x.Args[0], en)
			to := tv.Type.Underlying().(*types.Basic)
			from := g.typeOf(x.Args[0]).Underlying().(*types.Basic)
			switch {
			case to.Info()&types.IsFloat != 0 && from.Info()&types.IsInteger != 0:
				return "(F64.ofNat " + arg + ")"
			case to.Kind() == types.Uint8 && from.Info()&types.IsInteger != 0:
				return "(Nat.mod " + arg + " 256)"
			case wideInt(to) && from.Info()&types.IsInteger != 0:
				// widening (or same-size) conversion of a natural number; values are never negative in translated code
				// because subtraction is only translated for uint8 (wrapped)
				return arg
			case wideInt(to) && from.Info()&types.IsFloat != 0:
				// modelled for non-negative in-range values (|x| truncated): recorded in the trusted base; the float
				// stream and the score streams compare the real conversion
				return "(F64.truncAbs " + arg + ")"
			}
			g.die(x, "conversion %s", g.src(x))
		}
		if id, ok := x.Fun.(*ast.Ident); ok && id.Name == "make" {
			return "([] : List Nat)"
		}
		var args []string
		for _, a := range x.Args {
			args = append(args, g.expr(a, en))
		}
		switch f := x.Fun.(type) {
		case *ast.Ident:
			switch f.Name {
			case "len":
				return "(List.length " + args[0] + ")"
			case "append":
				return "(" + args[0] + " ++ " + args[1] + ")"
			case "make":
				return "([] : List Nat)"
			}
			if g.pmode {
				return "(" + g.fnRef(f.Name) + " " + strings.Join(args, " ") + ")"
			}
			g.need(f.Name)
			if g.ptrParam[f.Name] {
				// first argument is &obj: pass the callee's reads instead
				var ps []string
				for _, r := range g.collectReads(f.Name) {
					ps = append(ps, en.params[r])
				}
				return "(" + g.ns + "." + leanName(f.Name) + "_core " + strings.Join(append(ps, args[1:]...), " ") + ")"
			}
			return "(" + g.ns + "." + leanName(f.Name) + " " + strings.Join(args, " ") + ")"
		case *ast.SelectorExpr:
			if id, ok := f.X.(*ast.Ident); ok {
				if pn, ok := g.info.Uses[id].(*types.PkgName); ok && pn.Imported().Path() == "strings" {
					switch f.Sel.Name {
					case "HasPrefix":
						return "(Go.hasPrefix " + args[0] + " " + args[1] + ")"
					case "Cut":
						return "(Go.cut " + args[0] + " " + args[1] + ")"
					}
				}
				if pn, ok := g.info.Uses[id].(*types.PkgName); ok && pn.Imported().Path() == "math" {
					switch f.Sel.Name {
					case "Round":
						return "(F64.round " + args[0] + ")"
					case "RoundToEven":
						return "(F64.roundToEven " + args[0] + ")"
					case "Floor":
						return "(F64.floor " + args[0] + ")"
					case "Ceil":
						return "(F64.ceil " + args[0] + ")"
					case "Trunc":
						return "(F64.trunc " + args[0] + ")"
					case "Abs":
						return "(F64.abs " + args[0] + ")"
					case "Max":
						return "(F64.max " + args[0] + " " + args[1] + ")"
					case "Min":
						return "(F64.min " + args[0] + " " + args[1] + ")"
					case "NaN":
						return "F64.NAN"
					case "IsNaN":
						return "(F64.isNaN " + args[0] + ")"
					}
				}
				if id.Name == en.recv && en.recv != "" {
					g.need(f.Sel.Name)
					var ps []string
					for _, r := range g.collectReads(f.Sel.Name) {
						ps = append(ps, en.params[r])
					}
					return "(" + g.ns + "." + leanName(f.Sel.Name) + "_core " + strings.Join(append(ps, args...), " ") + ")"
				}
			}
		}
	}
	g.die(e, "expression %s (%T)", g.src(e), e)
	return ""
}

// ---------- statements ----------

// ctx says how control leaves the current statement list.
type ctx struct {
	fall string              // Lean expr when falling off the end (uses current bindings via shadowing)
	bare string              // value of a bare `return` (named results / in-out params)
	wrap func(string) string // decorate an explicit return value (mutators append the fields)
	ret  func(string) string
	cont string // "" if not in loop
	brk  string
	pan  string // parser mode: the panic outcome at this level
}

func hasControl(ss []ast.Stmt) bool {
	found := false
	for _, s := range ss {
		ast.Inspect(s, func(n ast.Node) bool {
			switch x := n.(type) {
			case *ast.ReturnStmt, *ast.BranchStmt:
				found = true
			case *ast.RangeStmt, *ast.ForStmt:
				// break/continue inside a nested loop are that loop's own; a `return` (or panic) inside it still leaves the
				// enclosing statement, so the enclosing `if` must be translated in duplication mode
				ast.Inspect(x, func(m ast.Node) bool {
					switch y := m.(type) {
					case *ast.FuncLit:
						return false
					case *ast.ReturnStmt:
						found = true
					case *ast.CallExpr:
						if id, ok := y.Fun.(*ast.Ident); ok && id.Name == "panic" {
							found = true
						}
					}
					return true
				})
				return false
			case *ast.CallExpr:
				if id, ok := x.Fun.(*ast.Ident); ok && id.Name == "panic" {
					found = true
				}
			}
			return true
		})
	}
	return found
}

func terminates(ss []ast.Stmt) bool {
	if len(ss) == 0 {
		return false
	}
	switch x := ss[len(ss)-1].(type) {
	case *ast.ReturnStmt, *ast.BranchStmt:
		return true
	case *ast.ExprStmt:
		if call, ok := x.X.(*ast.CallExpr); ok {
			if id, ok := call.Fun.(*ast.Ident); ok && id.Name == "panic" {
				return true
			}
		}
	}
	return false
}

// assignedOuter lists variables assigned (not declared) in ss, in first-assignment order.
func (g *gen) assignedOuter(ss []ast.Stmt) []string {
	declared := map[string]bool{}
	var res []string
	seen := map[string]bool{}
	add := func(e ast.Expr) {
		if st, ok := e.(*ast.StarExpr); ok {
			e = st.X
		}
		if sel, ok := e.(*ast.SelectorExpr); ok {
			e = sel.Sel
		}
		if id, ok := e.(*ast.Ident); ok && !declared[id.Name] && !seen[id.Name] && id.Name != "_" {
			seen[id.Name] = true
			res = append(res, id.Name)
		}
	}
	for _, s := range ss {
		ast.Inspect(s, func(n ast.Node) bool {
			switch x := n.(type) {
			case *ast.AssignStmt:
				if x.Tok == token.DEFINE {
					for _, l := range x.Lhs {
						if id, ok := l.(*ast.Ident); ok {
							declared[id.Name] = true
						}
					}
				} else {
					for _, l := range x.Lhs {
						add(l)
					}
				}
			case *ast.IncDecStmt:
				add(x.X)
			case *ast.ExprStmt:
				if call, ok := x.X.(*ast.CallExpr); ok && len(call.Args) > 0 {
					if u, ok := stripParens(call.Args[0]).(*ast.UnaryExpr); ok && u.Op == token.AND {
						add(u.X)
					} else if a0, ok := stripParens(call.Args[0]).(*ast.Ident); ok {
						if _, isPtr := g.typeOf(a0).(*types.Pointer); isPtr {
							add(a0)
						}
					}
				}
			case *ast.DeclStmt:
				for _, sp := range x.Decl.(*ast.GenDecl).Specs {
					for _, n := range sp.(*ast.ValueSpec).Names {
						declared[n.Name] = true
					}
				}
			case *ast.RangeStmt:
				if id, ok := x.Value.(*ast.Ident); ok {
					declared[id.Name] = true
				}
			}
			return true
		})
	}
	return res
}

func tuple(vs []string) string {
	if len(vs) == 0 {
		return "()"
	}
	var ns []string
	for _, v := range vs {
		ns = append(ns, leanName(v))
	}
	if len(ns) == 1 {
		return ns[0]
	}
	return "(" + strings.Join(ns, ", ") + ")"
}

func (g *gen) bind(name string, t types.Type, val, rest, ind string) string {
	if isNatLike(t) {
		return fmt.Sprintf("F64.flet %s fun %s =>\n%s%s", val, leanName(name), ind, rest)
	}
	return fmt.Sprintf("let %s := %s\n%s%s", leanName(name), val, ind, rest)
}

func (g *gen) stmts(ss []ast.Stmt, en *env, c ctx, ind string) string {
	if len(ss) == 0 {
		return c.fall
	}
	s, rest := ss[0], ss[1:]
	next := func() string { return g.stmts(rest, en, c, ind) }
	switch x := s.(type) {
	case *ast.ReturnStmt:
		if len(x.Results) == 0 {
			return c.ret(c.bare)
		}
		var rs []string
		for _, r := range x.Results {
			rs = append(rs, g.expr(r, en))
		}
		v := rs[0]
		if len(rs) > 1 {
			v = "(" + strings.Join(rs, ", ") + ")"
		}
		if c.wrap != nil {
			v = c.wrap(v)
		}
		return c.ret(v)
	case *ast.BranchStmt:
		if x.Tok == token.CONTINUE && c.cont != "" {
			return c.cont
		}
		if x.Tok == token.BREAK && c.brk != "" {
			return c.brk
		}
	case *ast.ExprStmt:
		if call, ok := x.X.(*ast.CallExpr); ok {
			if id, ok := call.Fun.(*ast.Ident); ok && id.Name == "panic" {
				return c.ret(g.panicVal)
			}
			if id, ok := call.Fun.(*ast.Ident); ok && len(call.Args) > 0 {
				// in-out call: f(&b, ...) or f(b, ...) where the callee's first param is *[]byte
				if u, ok := stripParens(call.Args[0]).(*ast.UnaryExpr); ok && u.Op == token.AND {
					target := u.X.(*ast.Ident).Name
					return fmt.Sprintf("let %s := %s\n%s%s", leanName(target), g.expr(call, en), ind, next())
				}
				if a0, ok := stripParens(call.Args[0]).(*ast.Ident); ok {
					if _, isPtr := g.typeOf(a0).(*types.Pointer); isPtr {
						return fmt.Sprintf("let %s := %s\n%s%s", leanName(a0.Name), g.expr(call, en), ind, next())
					}
				}
				_ = id
			}
		}
	case *ast.DeclStmt:
		gd := x.Decl.(*ast.GenDecl)
		out := ""
		closeN := 0
		for _, sp := range gd.Specs {
			vs := sp.(*ast.ValueSpec)
			for i, n := range vs.Names {
				val := zeroOf(g.info.Defs[n].Type())
				if len(vs.Values) > i {
					val = g.expr(vs.Values[i], en)
				}
				if isNatLike(g.info.Defs[n].Type()) {
					out += fmt.Sprintf("F64.flet %s fun %s =>\n%s", val, leanName(n.Name), ind)
				} else {
					out += fmt.Sprintf("let %s := %s\n%s", leanName(n.Name), val, ind)
				}
				closeN++
			}
		}
		return out + next()
	case *ast.IncDecStmt:
		id := x.X.(*ast.Ident)
		one := "(1 : Nat)"
		op := "Nat.add"
		if g.isFloat(x.X) {
			one, op = "(0x3ff0000000000000 : Nat)", "F64.add"
		}
		if x.Tok == token.DEC {
			g.die(s, "decrement")
		}
		val := fmt.Sprintf("(%s %s %s)", op, leanName(id.Name), one)
		if g.isUint8(x.X) {
			val = "(Nat.mod " + val + " 256)"
		} else if bt, ok := g.typeOf(x.X).Underlying().(*types.Basic); ok && bt.Info()&types.IsInteger != 0 && !wideInt(bt) {
			g.die(s, "++ on %s is not modelled", bt.Name())
		}
		return fmt.Sprintf("F64.flet %s fun %s =>\n%s%s", val, leanName(id.Name), ind, next())
	case *ast.AssignStmt:
		if len(x.Lhs) == len(x.Rhs) {
			// evaluate all RHS first (Go semantics), then bind
			if len(x.Lhs) == 1 {
				name := ""
				switch l := x.Lhs[0].(type) {
				case *ast.Ident:
					name = l.Name
				case *ast.StarExpr: // *b = ...
					name = l.X.(*ast.Ident).Name
				case *ast.SelectorExpr: // recv.uK = ...  (mutator)
					if id, ok := l.X.(*ast.Ident); ok && id.Name == en.recv && g.mutates[en.name] {
						name = l.Sel.Name
					}
				}
				if name == "" {
					g.die(s, "assignment target %s", g.src(x.Lhs[0]))
				}
				rhs := g.expr(x.Rhs[0], en)
				switch x.Tok {
				case token.DEFINE, token.ASSIGN:
				case token.MUL_ASSIGN:
					if !g.isFloat(x.Lhs[0]) {
						g.die(s, "int *=")
					}
					rhs = fmt.Sprintf("(F64.mul %s %s)", leanName(name), rhs)
				case token.ADD_ASSIGN:
					if g.isFloat(x.Lhs[0]) {
						rhs = fmt.Sprintf("(F64.add %s %s)", leanName(name), rhs)
					} else {
						rhs = fmt.Sprintf("(Nat.add %s %s)", leanName(name), rhs)
						bt, _ := g.typeOf(x.Lhs[0]).Underlying().(*types.Basic)
						switch {
						case bt != nil && bt.Kind() == types.Uint8:
							rhs = "(Nat.mod " + rhs + " 256)"
						case bt == nil || !wideInt(bt):
							g.die(s, "+= on %s is not modelled", g.typeOf(x.Lhs[0]))
						}
					}
				default:
					g.die(s, "assignment operator %s", x.Tok)
				}
				return g.bind(name, g.typeOf(x.Rhs[0]), rhs, next(), ind)
			}
			if x.Tok == token.DEFINE {
				// a, b, c := e1, e2, e3 with fresh names: sequential binding is equivalent — provided every name is NEW here
				// (a partial redeclaration assigns to the existing variable) and no right-hand side mentions one of them
				lhsNames := map[string]bool{}
				for _, l := range x.Lhs {
					id, ok := l.(*ast.Ident)
					if !ok || (id.Name != "_" && g.info.Defs[id] == nil) {
						g.die(s, "multiple := that re-uses an existing variable")
					}
					lhsNames[id.Name] = true
				}
				for _, r := range x.Rhs {
					ast.Inspect(r, func(n ast.Node) bool {
						if id, ok := n.(*ast.Ident); ok && lhsNames[id.Name] {
							g.die(s, "multiple := whose right-hand side mentions a variable it declares")
						}
						return true
					})
				}
				out := next()
				for i := len(x.Lhs) - 1; i >= 0; i-- {
					out = g.bind(x.Lhs[i].(*ast.Ident).Name, g.typeOf(x.Rhs[i]), g.expr(x.Rhs[i], en), out, ind)
				}
				return out
			}
			g.die(s, "parallel assignment")
		}
		if len(x.Rhs) == 1 { // tuple destructuring from a call
			var ns []string
			for _, l := range x.Lhs {
				n := l.(*ast.Ident).Name
				if n != "_" {
					n = leanName(n)
				}
				ns = append(ns, n)
			}
			return fmt.Sprintf("match %s with\n%s| (%s) =>\n%s%s", g.expr(x.Rhs[0], en), ind, strings.Join(ns, ", "), ind, next())
		}
	case *ast.IfStmt:
		if x.Init != nil {
			g.die(s, "if with init")
		}
		thenS := x.Body.List
		var elseS []ast.Stmt
		if x.Else != nil {
			if b, ok := x.Else.(*ast.BlockStmt); ok {
				elseS = b.List
			} else {
				elseS = []ast.Stmt{x.Else}
			}
		}
		cnd := g.expr(x.Cond, en)
		if hasControl(thenS) || hasControl(elseS) {
			// duplication mode: the rest is appended to every branch that can fall through
			t := g.stmts(append(append([]ast.Stmt{}, thenS...), rest...), en, c, ind+"  ")
			if terminates(thenS) {
				t = g.stmts(thenS, en, c, ind+"  ")
			}
			e := g.stmts(append(append([]ast.Stmt{}, elseS...), rest...), en, c, ind+"  ")
			return fmt.Sprintf("cond %s\n%s  (%s)\n%s  (%s)", cnd, ind, t, ind, e)
		}
		// merge mode
		vars := g.assignedOuter(append(append([]ast.Stmt{}, thenS...), elseS...))
		bc := ctx{fall: tuple(vars), ret: c.ret, cont: c.cont, brk: c.brk}
		t := g.stmts(thenS, en, bc, ind+"  ")
		e := g.stmts(elseS, en, bc, ind+"  ")
		if len(vars) == 1 {
			return fmt.Sprintf("match (cond %s\n%s  (%s)\n%s  (%s)) with\n%s| %s =>\n%s%s", cnd, ind, t, ind, e, ind, leanName(vars[0]), ind, next())
		}
		return fmt.Sprintf("match (cond %s\n%s  (%s)\n%s  (%s)) with\n%s| %s =>\n%s%s", cnd, ind, t, ind, e, ind, tuple(vars), ind, next())
	case *ast.SwitchStmt:
		if x.Init != nil {
			g.die(s, "switch form")
		}
		if x.Tag == nil {
			return g.stmts(append([]ast.Stmt{g.taglessAsIf(x)}, rest...), en, c, ind)
		}
		tag := g.expr(x.Tag, en)
		var def []ast.Stmt
		out, closeP := "", ""
		for _, cl := range x.Body.List {
			cc := cl.(*ast.CaseClause)
			if cc.List == nil {
				def = cc.Body
				continue
			}
			var cs []string
			for _, e := range cc.List {
				if g.isFloat(x.Tag) {
					g.die(s, "switch on float")
				}
				if g.isString(x.Tag) {
					cs = append(cs, fmt.Sprintf("(Go.strEq %s %s)", tag, g.expr(e, en)))
				} else {
					cs = append(cs, fmt.Sprintf("(Nat.beq %s %s)", tag, g.expr(e, en)))
				}
			}
			body := cc.Body
			var b string
			if terminates(body) {
				b = g.stmts(body, en, c, ind+"  ")
			} else {
				b = g.stmts(append(append([]ast.Stmt{}, body...), rest...), en, c, ind+"  ")
			}
			out += fmt.Sprintf("cond (%s)\n%s  (%s)\n%s (", strings.Join(cs, " || "), ind, b, ind)
			closeP += ")"
		}
		tail := append(append([]ast.Stmt{}, def...), rest...)
		return out + g.stmts(tail, en, c, ind+"  ") + closeP
	case *ast.RangeStmt:
		if x.Key != nil {
			if id, ok := x.Key.(*ast.Ident); !ok || id.Name != "_" {
				g.die(s, "range with key")
			}
		}
		if _, isSlice := g.typeOf(x.X).Underlying().(*types.Slice); !isSlice {
			// a string ranges over runes (UTF-8 decoding), a map in random order, an array by copy, a channel/func/int …
			g.die(s, "range over %s is not modelled (slices only)", g.typeOf(x.X))
		}
		v := "_"
		if id, ok := x.Value.(*ast.Ident); ok {
			v = leanName(id.Name)
		}
		vars := g.assignedOuter(x.Body.List)
		st := tuple(vars)
		bc := ctx{fall: "Go.Ctl.next " + st, ret: func(r string) string { return "Go.Ctl.ret " + r }, cont: "Go.Ctl.next " + st, brk: "Go.Ctl.brk " + st}
		body := g.stmts(x.Body.List, en, bc, ind+"    ")
		after := next()
		return fmt.Sprintf("match Go.forRange %s %s (fun %s %s =>\n%s    %s) with\n%s| Go.Ctl.ret r => %s\n%s| Go.Ctl.brk %s => %s\n%s| Go.Ctl.next %s =>\n%s%s",
			g.expr(x.X, en), st, v, st, ind, body, ind, c.ret("r"), ind, st, c.ret(g.panicVal), ind, st, ind, after)
	}
	g.die(s, "statement %s", g.src(s))
	return ""
}

// taglessAsIf rewrites `switch { case a, b: A; case c: C; default: D }` as `if a || b { A } else if c { C } else { D }`
// (no break/fallthrough inside), so that the two spellings of a decision chain translate to the same text
func (g *gen) taglessAsIf(x *ast.SwitchStmt) ast.Stmt {
	var def []ast.Stmt
	hasDef := false
	var clauses []*ast.CaseClause
	for _, cl := range x.Body.List {
		cc := cl.(*ast.CaseClause)
		for _, st := range cc.Body {
			ast.Inspect(st, func(n ast.Node) bool {
				switch b := n.(type) {
				case *ast.ForStmt, *ast.RangeStmt, *ast.SwitchStmt, *ast.FuncLit:
					return false
				case *ast.BranchStmt:
					if b.Tok == token.BREAK || b.Tok == token.FALLTHROUGH {
						g.die(b, "break/fallthrough inside a tagless switch")
					}
				}
				return true
			})
		}
		if cc.List == nil {
			def, hasDef = cc.Body, true
			continue
		}
		clauses = append(clauses, cc)
	}
	var tail ast.Stmt
	if hasDef {
		tail = &ast.BlockStmt{List: def}
	}
	for i := len(clauses) - 1; i >= 0; i-- {
		cc := clauses[i]
		cond := cc.List[0]
		for _, e := range cc.List[1:] {
			cond = &ast.BinaryExpr{X: cond, Op: token.LOR, Y: e}
		}
		tail = &ast.IfStmt{Cond: cond, Body: &ast.BlockStmt{List: cc.Body}, Else: tail}
	}
	if tail == nil {
		return &ast.EmptyStmt{}
	}
	return tail
}

// ---------- tables ----------

func (g *gen) litValue(e ast.Expr) string {
	if cl, ok := e.(*ast.CompositeLit); ok {
		// keyed or positional
		type kv struct {
			k int64
			v string
		}
		var items []kv
		next := int64(0)
		for _, el := range cl.Elts {
			val := el
			if k, ok := el.(*ast.KeyValueExpr); ok {
				kvv := g.info.Types[k.Key].Value
				n, _ := constant.Int64Val(kvv)
				next = n
				val = k.Value
			}
			items = append(items, kv{next, g.litValue(val)})
			next++
		}
		sort.Slice(items, func(i, j int) bool { return items[i].k < items[j].k })
		var out []string
		pos := int64(0)
		for _, it := range items {
			for pos < it.k {
				out = append(out, "[]")
				pos++
			}
			out = append(out, it.v)
			pos++
		}
		return "[" + strings.Join(out, ", ") + "]"
	}
	tv := g.info.Types[e]
	if tv.Value != nil {
		if tv.Value.Kind() == constant.String {
			return strLit(constant.StringVal(tv.Value))
		}
		if n := g.constInt(e); n != nil {
			return tv.Value.ExactString()
		}
		g.die(e, "table element %s: only strings and non-negative integers are modelled", g.src(e))
	}
	g.die(e, "table element %s", g.src(e))
	return ""
}

func (g *gen) needTable(name string) {
	if g.done["tbl_"+name] {
		return
	}
	g.done["tbl_"+name] = true
	vs := g.tables[name]
	for i, n := range vs.Names {
		if n.Name == name {
			t := g.info.Defs[n].Type()
			g.defsOut = append(g.defsOut, fmt.Sprintf("/-- table %s (%s) -/\ndef tbl_%s : %s :=\n  %s\n", name, posOf(g.fset, n.Pos()), name, leanType(t), g.litValue(vs.Values[i])))
		}
	}
}

// ---------- functions ----------

func (g *gen) need(name string) {
	if !g.done[name] {
		g.done[name] = true
		if g.pmode {
			g.emitP(name)
			return
		}
		saved := g.panicVal
		d := g.emit(name)
		g.panicVal = saved
		g.defsOut = append(g.defsOut, d)
	}
}

func panicOf(t types.Type) string {
	switch u := t.(type) {
	case *types.Tuple:
		if u.Len() == 0 {
			return "()"
		}
		var ps []string
		for i := 0; i < u.Len(); i++ {
			ps = append(ps, panicOf(u.At(i).Type()))
		}
		if len(ps) == 1 {
			return ps[0]
		}
		return "(" + strings.Join(ps, ", ") + ")"
	}
	switch leanType(t) {
	case "Nat":
		return poison
	case "Bool":
		return "false"
	case "Go.Err":
		return "Go.errPanic"
	}
	return "Go.panicStr"
}

// precheck: constructs whose Go meaning the syntax-directed translation below would get wrong are refused up front
// (found by the machinery audit of round 4): a name declared twice in nested scopes (the translation has one flat name
// space per function), pointers other than the in-out parameter idiom, `break` that would leave a switch, `make` with a
// non-zero length or more than one pre-sized buffer, float32/complex arithmetic.
func (g *gen) precheck(name string, fd *ast.FuncDecl, tableMode bool) {
	// (a) shadowing
	byName := map[string][]types.Object{}
	ast.Inspect(fd, func(n ast.Node) bool {
		if id, ok := n.(*ast.Ident); ok && id.Name != "_" {
			if o := g.info.Defs[id]; o != nil {
				if _, isVar := o.(*types.Var); isVar {
					byName[id.Name] = append(byName[id.Name], o)
				}
			}
		}
		return true
	})
	encloses := func(a, b *types.Scope) bool {
		for s := b; s != nil; s = s.Parent() {
			if s == a {
				return true
			}
		}
		return false
	}
	for nm, objs := range byName {
		for i := range objs {
			for j := range objs {
				if i != j && objs[i].Parent() != nil && objs[j].Parent() != nil && objs[i].Parent() != objs[j].Parent() && encloses(objs[i].Parent(), objs[j].Parent()) {
					g.die(fd, "%s: the name %q is declared again in a nested scope (shadowing) — not modelled", name, nm)
				}
			}
		}
	}
	// (a0) identifiers of tables, error sentinels and helper functions are resolved by NAME below: a local that re-uses a
	// package-level name would be read as the package object
	for nm := range byName {
		// (constants are resolved by object through their value; tables and error sentinels are looked up by name)
		if _, isVar := g.pkg.Scope().Lookup(nm).(*types.Var); isVar {
			g.die(fd, "%s: the local name %q is also a package-level variable (a table or an error sentinel is looked up by name) — not modelled", name, nm)
		}
	}
	// (a') two Go names that become ONE Lean name: reserved words are renamed (`e` -> `e_`), struct fields are bare names
	// (`u0` …) in mutators — a local called `e_` or `u8` would silently merge with them
	leanSeen := map[string]types.Object{}
	for _, f := range g.fields {
		leanSeen[f] = nil
	}
	for nm, objs := range byName {
		ln := leanName(nm)
		if prev, ok := leanSeen[ln]; ok && (prev == nil || prev.Name() != nm) {
			g.die(fd, "%s: the name %q collides with %q in the generated text", name, nm, ln)
		}
		leanSeen[ln] = objs[0]
		if ln != nm {
			// the renamed form must not be a declared name either
			if _, clash := byName[ln]; clash {
				g.die(fd, "%s: the names %q and %q collide in the generated text", name, nm, ln)
			}
		}
	}
	params := map[types.Object]bool{}
	if fd.Type.Params != nil {
		for _, f := range fd.Type.Params.List {
			for _, n := range f.Names {
				params[g.info.Defs[n]] = true
			}
		}
	}
	if fd.Recv != nil {
		for _, n := range fd.Recv.List[0].Names {
			params[g.info.Defs[n]] = true
		}
	}
	// parents, for "is a direct call argument"
	parent := map[ast.Node]ast.Node{}
	var stack []ast.Node
	ast.Inspect(fd, func(n ast.Node) bool {
		if n == nil {
			stack = stack[:len(stack)-1]
			return true
		}
		if len(stack) > 0 {
			parent[n] = stack[len(stack)-1]
		}
		stack = append(stack, n)
		return true
	})
	// (b) integers. Wide (64-bit) integers are natural numbers without wrap-around in the model; that is only sound while their
	// values stay small. They can only come from constants, `len`, loop counters and converted uint8 fields (a float is converted
	// to an integer only in the idiom `int(f) % c == 0`, which is sign-symmetric), so: no wide `<<`; `*` only by a constant < 256,
	// at most twice per function and never in a loop; at most 16 additions of two run-time operands per function, none of them
	// `x + x`, and inside loops only `x + constant`, `x++`, `x += len(…)`.
	nWideMul, nWideAdd := 0, 0
	inLoop := func(n ast.Node) bool {
		for p := parent[n]; p != nil; p = parent[p] {
			switch p.(type) {
			case *ast.ForStmt, *ast.RangeStmt:
				return true
			}
		}
		return false
	}
	isWideExpr := func(e ast.Expr) bool {
		t := g.info.TypeOf(e)
		if t == nil {
			return false
		}
		bt, ok := t.Underlying().(*types.Basic)
		return ok && bt.Info()&types.IsInteger != 0 && bt.Kind() != types.Uint8 && wideInt(bt)
	}
	sameVar := func(a, b ast.Expr) bool {
		ia, ok1 := stripParens(a).(*ast.Ident)
		ib, ok2 := stripParens(b).(*ast.Ident)
		return ok1 && ok2 && ia.Name == ib.Name
	}
	isLenCall := func(e ast.Expr) bool {
		c, ok := stripParens(e).(*ast.CallExpr)
		if !ok {
			return false
		}
		id, ok := c.Fun.(*ast.Ident)
		return ok && id.Name == "len"
	}
	checkWide := func(n ast.Node, op token.Token, xe, ye ast.Expr) {
		cx, cy := g.constInt(xe), g.constInt(ye)
		if cx != nil && cy != nil {
			return
		}
		for _, e := range []ast.Expr{xe, ye} {
			// a constant that does not fit a small non-negative int64 (e.g. 1<<64 - 1): certainly overflow-prone
			if tv, ok := g.info.Types[stripParens(e)]; ok && tv.Value != nil {
				if c := g.constInt(e); c == nil || *c >= 1<<31 {
					g.die(n, "64-bit arithmetic with a constant >= 2^31 is not modelled (no wrap-around in the model)")
				}
			}
		}
		// a "length sum": constants (< 2^16) and len(…) calls joined by +
		var lenSum func(e ast.Expr) bool
		lenSum = func(e ast.Expr) bool {
			e = stripParens(e)
			if c := g.constInt(e); c != nil {
				return *c < 1<<16
			}
			if isLenCall(e) {
				return true
			}
			if b, ok := e.(*ast.BinaryExpr); ok && b.Op == token.ADD {
				return lenSum(b.X) && lenSum(b.Y)
			}
			return false
		}
		switch op {
		case token.SHL:
			g.die(n, "left shift of a 64-bit integer is not modelled (no wrap-around in the model)")
		case token.MUL:
			g.die(n, "64-bit multiplication of run-time values is not modelled (no wrap-around in the model)")
		case token.ADD:
			// allowed: x + (constant < 2^16), and x + (a sum of constants and len(…) calls) — the counters and lengths of this
			// code; the separate budgets of an earlier version composed to an overflow (audit round 9)
			if (cx != nil && *cx < 1<<16) || (cy != nil && *cy < 1<<16) {
				return
			}
			if lenSum(xe) || lenSum(ye) {
				return
			}
			g.die(n, "64-bit addition of two run-time values (neither a constant < 2^16 nor a sum of lengths) is not modelled")
		}
		switch op {
		case token.MUL:
			small := (cx != nil && *cx < 256) || (cy != nil && *cy < 256)
			nWideMul++
			if !small || nWideMul > 2 || inLoop(n) {
				g.die(n, "64-bit multiplication other than by a constant < 256 (at most twice, outside loops) is not modelled")
			}
		case token.ADD:
			if cx != nil || cy != nil {
				if (cx != nil && *cx >= 1<<31) || (cy != nil && *cy >= 1<<31) {
					g.die(n, "64-bit addition of a constant >= 2^31 is not modelled")
				}
				return
			}
			nWideAdd++
			if sameVar(xe, ye) || nWideAdd > 16 {
				g.die(n, "64-bit doubling / too many 64-bit additions in one function: not modelled (no wrap-around in the model)")
			}
			if inLoop(n) && !isLenCall(xe) && !isLenCall(ye) {
				g.die(n, "64-bit addition of two run-time values inside a loop is not modelled")
			}
		}
	}
	// (c) local aliases of package-level tables: writing through them would write the table
	tainted := map[types.Object]bool{}
	mentionsPkgTable := func(e ast.Expr) bool {
		found := false
		ast.Inspect(e, func(m ast.Node) bool {
			if id, ok := m.(*ast.Ident); ok {
				if v, ok := g.info.Uses[id].(*types.Var); ok && !v.IsField() && v.Parent() == g.pkg.Scope() {
					switch v.Type().Underlying().(type) {
					case *types.Slice, *types.Map, *types.Pointer, *types.Array:
						found = true
					}
				}
			}
			return true
		})
		return found
	}
	ast.Inspect(fd.Body, func(n ast.Node) bool {
		if a, ok := n.(*ast.AssignStmt); ok && len(a.Lhs) == len(a.Rhs) {
			for i, l := range a.Lhs {
				id, ok := l.(*ast.Ident)
				if !ok {
					continue
				}
				o := g.info.Defs[id]
				if o == nil {
					o = g.info.Uses[id]
				}
				if o == nil {
					continue
				}
				switch o.Type().Underlying().(type) {
				case *types.Slice, *types.Map, *types.Pointer:
					if mentionsPkgTable(a.Rhs[i]) {
						tainted[o] = true
					}
				}
			}
		}
		return true
	})
	isTainted := func(e ast.Expr) bool {
		for {
			switch x := stripParens(e).(type) {
			case *ast.IndexExpr:
				e = x.X
				continue
			case *ast.SliceExpr:
				e = x.X
				continue
			case *ast.Ident:
				return tainted[g.info.Uses[x]]
			}
			return false
		}
	}
	nMake3, nMake3Top := 0, 0
	for _, st := range fd.Body.List {
		if as, ok := st.(*ast.AssignStmt); ok && len(as.Rhs) == 1 {
			if c, ok := as.Rhs[0].(*ast.CallExpr); ok && len(c.Args) == 3 {
				if id, ok := c.Fun.(*ast.Ident); ok && id.Name == "make" {
					nMake3Top++
				}
			}
		}
	}
	ast.Inspect(fd.Body, func(n ast.Node) bool {
		switch x := n.(type) {
		case ast.Expr:
			if tv, ok := g.info.Types[x]; ok && tv.Type != nil {
				if bt, ok := tv.Type.Underlying().(*types.Basic); ok {
					switch bt.Kind() {
					case types.Float32, types.Complex64, types.Complex128, types.UntypedComplex:
						g.die(x, "%s arithmetic is not modelled", bt.Name())
					}
					// an integer constant >= 2^31 (or negative) as a VALUE anywhere: 64-bit integers must stay small
					if tv.Value != nil && tv.Value.Kind() == constant.Int && bt.Info()&types.IsInteger != 0 {
						if c := g.constInt(x); c == nil || *c >= 1<<31 {
							g.die(x, "integer constant %s is negative or >= 2^31: not modelled (no wrap-around in the model)", tv.Value.ExactString())
						}
					}
				}
			}
		}
		switch x := n.(type) {
		case *ast.UnaryExpr:
			if x.Op == token.AND {
				_, isLit := stripParens(x.X).(*ast.CompositeLit)
				if _, isSel := stripParens(x.X).(*ast.SelectorExpr); isSel && !tableMode {
					isLit = true // parser mode models `&kvm.field` (a field index); a pointer to a whole local is refused below
				}
				if !isLit {
					p := parent[x]
					for {
						if pe, ok := p.(*ast.ParenExpr); ok {
							p = parent[pe]
							continue
						}
						break
					}
					call, isCall := p.(*ast.CallExpr)
					isArg := false
					if isCall {
						for _, a := range call.Args {
							if stripParens(a) == ast.Expr(x) {
								isArg = true
							}
						}
					}
					if !isArg {
						g.die(x, "address-of outside a call argument (a local pointer alias) is not modelled")
					}
					// the callee may write through the pointer: that is only carried back for a call that is a statement of its
					// own (`f(&b, …)`), or harmless when the callee takes the object itself read-only (`lenVec(&cvss20)`: a callee
					// that assigns through it is refused when it is translated)
					_, stmtLevel := parent[call].(*ast.ExprStmt)
					objCallee := false
					if id, ok := call.Fun.(*ast.Ident); ok && g.ptrParam[id.Name] && call.Args[0] == ast.Expr(x) {
						objCallee = true
					}
					if c2, ok := call.Fun.(*ast.Ident); ok && c2.Name == "Pointer" {
						objCallee = true
					}
					if sel, ok := call.Fun.(*ast.SelectorExpr); ok && sel.Sel.Name == "Pointer" {
						objCallee = true // unsafe.Pointer(&b) inside the one string idiom (checked at the dereference)
					}
					if !stmtLevel && !objCallee {
						g.die(x, "a pointer is passed to a call whose result is used: writes through it would be lost — not modelled")
					}
				}
			}
		case *ast.StarExpr:
			if tableMode {
				if tv, ok := g.info.Types[x]; ok && tv.IsType() {
					return true // a pointer type, not a dereference
				}
				// the one unsafe idiom of Vector(): *(*string)(unsafe.Pointer(&b)) — the bytes of b as a string
				if c, ok := stripParens(x.X).(*ast.CallExpr); ok && len(c.Args) == 1 {
					if tv, ok := g.info.Types[c.Fun]; ok && tv.IsType() && tv.Type.String() == "*string" {
						if c2, ok := stripParens(c.Args[0]).(*ast.CallExpr); ok && len(c2.Args) == 1 {
							if tv2, ok := g.info.Types[c2.Fun]; ok && tv2.IsType() && tv2.Type.String() == "unsafe.Pointer" {
								if u, ok := stripParens(c2.Args[0]).(*ast.UnaryExpr); ok && u.Op == token.AND {
									if _, ok := stripParens(u.X).(*ast.Ident); ok {
										return true
									}
								}
							}
						}
					}
				}
				id, ok := stripParens(x.X).(*ast.Ident)
				if !ok || !params[g.info.Uses[id]] {
					g.die(x, "dereference of anything but a pointer parameter is not modelled")
				}
			}
		case *ast.DeclStmt, *ast.AssignStmt:
			if a, ok := x.(*ast.AssignStmt); ok {
				for _, l := range a.Lhs {
					if st, isStar := stripParens(l).(*ast.StarExpr); isStar && tableMode {
						if id, ok := stripParens(st.X).(*ast.Ident); ok && fd.Recv != nil && len(fd.Recv.List[0].Names) > 0 && id.Name == fd.Recv.List[0].Names[0].Name {
							g.die(a, "assignment to the whole object through the receiver (`*recv = …`) is not modelled")
						}
					}
					if _, isIdx := stripParens(l).(*ast.IndexExpr); isIdx && isTainted(l) {
						g.die(a, "write through a local alias of a package-level table")
					}
				}
				if len(a.Lhs) == 1 && len(a.Rhs) == 1 && isWideExpr(a.Lhs[0]) {
					switch a.Tok {
					case token.ADD_ASSIGN:
						checkWide(a, token.ADD, a.Lhs[0], a.Rhs[0])
					case token.MUL_ASSIGN:
						checkWide(a, token.MUL, a.Lhs[0], a.Rhs[0])
					case token.SHL_ASSIGN:
						checkWide(a, token.SHL, a.Lhs[0], a.Rhs[0])
					}
				}
			}
			if a, ok := x.(*ast.AssignStmt); ok && tableMode && len(a.Lhs) == 1 && len(a.Rhs) == 1 {
				if id, ok := a.Lhs[0].(*ast.Ident); ok && id.Name == "_" {
					hasCall := false
					ast.Inspect(a.Rhs[0], func(m ast.Node) bool {
						if c, ok := m.(*ast.CallExpr); ok {
							if tv, ok := g.info.Types[c.Fun]; !ok || !tv.IsType() {
								hasCall = true
							}
						}
						return true
					})
					if hasCall {
						g.die(a, "a call whose result is discarded (`_ = f(…)`): either dead code or a hidden effect — not modelled")
					}
				}
			}
			if tableMode {
				var ids []*ast.Ident
				if d, ok := x.(*ast.DeclStmt); ok {
					if gd, ok := d.Decl.(*ast.GenDecl); ok {
						for _, sp := range gd.Specs {
							if vs, ok := sp.(*ast.ValueSpec); ok {
								ids = append(ids, vs.Names...)
							}
						}
					}
				} else if a := x.(*ast.AssignStmt); a.Tok == token.DEFINE {
					for _, l := range a.Lhs {
						if id, ok := l.(*ast.Ident); ok {
							ids = append(ids, id)
						}
					}
				}
				for _, id := range ids {
					if o := g.info.Defs[id]; o != nil {
						if _, isPtr := o.Type().Underlying().(*types.Pointer); isPtr {
							g.die(id, "local variable %s of pointer type is not modelled", id.Name)
						}
					}
				}
			}
		case *ast.RangeStmt:
			// `for _, v = range xs` ASSIGNS an existing variable (or a field!) on every iteration: only `:=` with plain
			// identifiers is modelled
			if x.Tok != token.DEFINE && (x.Key != nil || x.Value != nil) {
				g.die(x, "range that assigns to existing variables (`=` instead of `:=`) is not modelled")
			}
			for _, kv := range []ast.Expr{x.Key, x.Value} {
				if kv != nil {
					if _, ok := kv.(*ast.Ident); !ok {
						g.die(x, "range key/value that is not a plain identifier is not modelled")
					}
				}
			}
		case *ast.IncDecStmt:
			if isTainted(x.X) {
				g.die(x, "write through a local alias of a package-level table")
			}
		case *ast.BinaryExpr:
			if g.constInt(x) == nil && isWideExpr(x) && (x.Op == token.SHL || x.Op == token.MUL || x.Op == token.ADD) {
				checkWide(x, x.Op, x.X, x.Y)
			}
			if (x.Op == token.SHL || x.Op == token.SHR) && g.constInt(x.Y) == nil {
				// a negative shift count panics at run time
				if bt, ok := g.typeOf(x.Y).Underlying().(*types.Basic); !ok || bt.Info()&types.IsUnsigned == 0 {
					g.die(x, "shift by a signed non-constant count is not modelled")
				}
			}
		case *ast.CallExpr:
			if tv, ok := g.info.Types[x.Fun]; ok && tv.IsType() && len(x.Args) == 1 {
				to, ok1 := tv.Type.Underlying().(*types.Basic)
				from, ok2 := g.typeOf(x.Args[0]).Underlying().(*types.Basic)
				if ok1 && ok2 && to.Info()&types.IsInteger != 0 && from.Info()&types.IsFloat != 0 && g.constInt(x) == nil {
					// float -> integer: only the idiom `int(f) % c == 0` (or != 0) with a SIGNED 64-bit target, which is modelled
					// exactly (sign-symmetric; out of range = -2^63 on amd64: F64.intRemZero)
					okIdiom := false
					if to.Kind() != types.Int && to.Kind() != types.Int64 {
						g.die(x, "float-to-integer conversion to %s is not modelled", to.Name())
					}
					p1 := parent[x]
					for {
						if pe, ok := p1.(*ast.ParenExpr); ok {
							p1 = parent[pe]
							continue
						}
						break
					}
					if rem, ok := p1.(*ast.BinaryExpr); ok && rem.Op == token.REM && stripParens(rem.X) == ast.Expr(x) {
						if d := g.constInt(rem.Y); d != nil && *d > 0 {
							p2 := parent[rem]
							for {
								if pe, ok := p2.(*ast.ParenExpr); ok {
									p2 = parent[pe]
									continue
								}
								break
							}
							if cmp, ok := p2.(*ast.BinaryExpr); ok && (cmp.Op == token.EQL || cmp.Op == token.NEQ) {
								if z := g.constInt(cmp.Y); z != nil && *z == 0 {
									okIdiom = true
								}
							}
						}
					}
					if !okIdiom {
						g.die(x, "float-to-integer conversion outside the idiom `int(f) %% c == 0` is not modelled (sign and range)")
					}
				}
			}
			if id, ok := x.Fun.(*ast.Ident); ok && (id.Name == "append" || id.Name == "copy") && len(x.Args) > 0 && isTainted(x.Args[0]) {
				g.die(x, "%s on a local alias of a package-level table", id.Name)
			}
			if tableMode {
				// a pointer-typed variable handed on (the in-out idiom) only in a call that is a statement of its own
				if _, stmtLevel := parent[x].(*ast.ExprStmt); !stmtLevel {
					for _, a := range x.Args {
						if id, ok := stripParens(a).(*ast.Ident); ok {
							if o, ok := g.info.Uses[id].(*types.Var); ok && params[o] {
								if _, isPtr := o.Type().Underlying().(*types.Pointer); isPtr {
									g.die(x, "a pointer parameter is passed to a call whose result is used — not modelled")
								}
							}
						}
					}
				}
			}
			if id, ok := x.Fun.(*ast.Ident); ok && id.Name == "make" {
				if len(x.Args) >= 2 {
					if n := g.constInt(x.Args[1]); n == nil || *n != 0 {
						g.die(x, "make with a non-zero or non-constant length is not modelled")
					}
				}
				if len(x.Args) == 3 {
					nMake3++
				}
			}
		case *ast.SwitchStmt:
			// an unlabelled break directly inside a case body leaves the switch, not the enclosing loop
			for _, cl := range x.Body.List {
				for _, st := range cl.(*ast.CaseClause).Body {
					ast.Inspect(st, func(m ast.Node) bool {
						switch b := m.(type) {
						case *ast.ForStmt, *ast.RangeStmt, *ast.SwitchStmt, *ast.SelectStmt, *ast.FuncLit:
							return false
						case *ast.BranchStmt:
							if b.Tok == token.BREAK {
								g.die(b, "break inside a switch is not modelled")
							}
						}
						return true
					})
				}
			}
		}
		return true
	})
	if nMake3 > 1 || nMake3 != nMake3Top {
		g.die(fd, "%s: more than one pre-sized buffer, or one that is not a top-level statement", name)
	}
}

func (g *gen) emit(name string) string {
	fd := g.funcs[name]
	if fd == nil {
		fmt.Fprintf(os.Stderr, "unknown function %s\n", name)
		os.Exit(2)
	}
	g.precheck(name, fd, true)
	en := &env{name: name, recv: g.recv[name], params: map[string]string{}}
	sig := g.info.Defs[fd.Name].Type().(*types.Signature)
	if sig.TypeParams().Len() > 0 || sig.RecvTypeParams().Len() > 0 {
		g.die(fd, "generic function %s", name)
	}
	isMut := g.mutates[name]
	var ps, doc []string
	if isMut {
		for _, f := range g.fields {
			ps = append(ps, "("+f+" : Nat)")
		}
	} else {
		for i, r := range g.collectReads(name) {
			p := fmt.Sprintf("r%d", i)
			en.params[r] = p
			ps = append(ps, "("+p+" : Nat)")
			doc = append(doc, fmt.Sprintf("--   %s := %s", p, r))
		}
	}
	var inOut []string
	var inOutT []string
	for i, f := range fd.Type.Params.List {
		for _, n := range f.Names {
			if i == 0 && g.ptrParam[name] {
				continue
			}
			t := g.info.Defs[n].Type()
			ps = append(ps, fmt.Sprintf("(%s : %s)", leanName(n.Name), leanType(t)))
			if p, ok := t.(*types.Pointer); ok {
				if _, ok := p.Elem().Underlying().(*types.Slice); ok {
					inOut = append(inOut, n.Name)
					inOutT = append(inOutT, leanType(t))
				}
			}
		}
	}
	// result components: fields (mutator) ++ in-out ++ declared results
	var comps, compT []string
	if isMut {
		for _, f := range g.fields {
			comps = append(comps, f)
			compT = append(compT, "Nat")
		}
	}
	comps = append(comps, inOut...)
	compT = append(compT, inOutT...)
	var named []string
	res := sig.Results()
	for i := 0; i < res.Len(); i++ {
		compT = append(compT, leanType(res.At(i).Type()))
		if res.At(i).Name() != "" {
			named = append(named, res.At(i).Name())
		}
	}
	mk := func(parts []string) string {
		if len(parts) == 0 {
			return "()"
		}
		if len(parts) == 1 {
			return parts[0]
		}
		return "(" + strings.Join(parts, ", ") + ")"
	}
	lean := func(ns []string) []string {
		var r []string
		for _, n := range ns {
			r = append(r, leanName(n))
		}
		return r
	}
	retT := "Unit"
	if len(compT) == 1 {
		retT = compT[0]
	} else if len(compT) > 1 {
		retT = "(" + strings.Join(compT, " × ") + ")"
	}
	pv := panicOf(res)
	if len(comps) > 0 {
		var pp []string
		for range comps {
			pp = append(pp, "default")
		}
		if res.Len() > 0 {
			pp = append(pp, pv)
		}
		pv = mk(pp)
	}
	savedPanic := g.panicVal
	g.panicVal = pv
	defer func() { g.panicVal = savedPanic }()
	c := ctx{ret: func(r string) string { return r }}
	c.bare = mk(append(lean(comps), lean(named)...))
	if len(comps) > 0 {
		c.wrap = func(v string) string { return mk(append(lean(comps), v)) }
	}
	if res.Len() == 0 || len(named) == res.Len() && res.Len() > 0 {
		c.fall = c.bare
	} else {
		c.fall = pv
	}
	pre := ""
	for i := 0; i < res.Len(); i++ {
		if n := res.At(i).Name(); n != "" {
			if isNatLike(res.At(i).Type()) {
				pre += fmt.Sprintf("F64.flet %s fun %s =>\n  ", zeroOf(res.At(i).Type()), leanName(n))
			} else {
				pre += fmt.Sprintf("let %s := %s\n  ", leanName(n), zeroOf(res.At(i).Type()))
			}
		}
	}
	suffix := ""
	if en.recv != "" && !isMut {
		suffix = "_core"
	}
	body := g.stmts(fd.Body.List, en, c, "  ")
	hdr := fmt.Sprintf("/-- %s  (%s) -/\n", name, posOf(g.fset, fd.Pos()))
	if len(doc) > 0 {
		hdr += strings.Join(doc, "\n") + "\n"
	}
	out := hdr + "def " + leanName(name) + suffix + " " + strings.Join(ps, " ") + " : " + retT + " :=\n  " + pre + body + "\n"
	// capacity of a pre-sized buffer: for a top-level `b := make([]T, 0, X)` emit the twin `<name>_cap` = the statements
	// before it followed by X, so that "the buffer never regrows" (C17) is a statement about the code's own capacity
	capBody := ""
	for i, s := range fd.Body.List {
		if strings.HasSuffix(name, "_ok") {
			break // a no-panic twin (tools/okgen): its capacity is that of the function it shadows
		}
		as, ok := s.(*ast.AssignStmt)
		if !ok || len(as.Rhs) != 1 {
			continue
		}
		call, ok := as.Rhs[0].(*ast.CallExpr)
		if !ok || len(call.Args) != 3 {
			continue
		}
		if id, ok := call.Fun.(*ast.Ident); !ok || id.Name != "make" {
			continue
		}
		if capBody != "" {
			g.die(call, "two pre-sized buffers in %s", name)
		}
		c2 := ctx{ret: func(r string) string { return r }}
		c2.fall = g.expr(call.Args[2], en)
		c2.bare = c2.fall
		capBody = g.stmts(fd.Body.List[:i], en, c2, "  ")
	}
	if capBody != "" {
		out += fmt.Sprintf("\n/-- capacity argument of the `make` in %s -/\ndef %s_cap%s %s : Nat :=\n  %s\n", name, leanName(name), suffix, strings.Join(ps, " "), capBody)
	}
	if en.recv != "" && !isMut {
		var fs, as []string
		for _, f := range g.fields {
			fs = append(fs, "("+f+" : Nat)")
		}
		for _, r := range g.collectReads(name) {
			as = append(as, g.readExprs[r])
		}
		var extra, extraArgs []string
		for i, f := range fd.Type.Params.List {
			for _, n := range f.Names {
				if i == 0 && g.ptrParam[name] {
					continue
				}
				extra = append(extra, fmt.Sprintf("(%s : %s)", leanName(n.Name), leanType(g.info.Defs[n].Type())))
				extraArgs = append(extraArgs, leanName(n.Name))
			}
		}
		out += "\ndef " + leanName(name) + " " + strings.Join(append(fs, extra...), " ") + " : " + retT + " :=\n  " + leanName(name) + "_core " + strings.Join(append(as, extraArgs...), " ") + "\n"
		if capBody != "" {
			out += "\ndef " + leanName(name) + "_cap " + strings.Join(append(fs, extra...), " ") + " : Nat :=\n  " + leanName(name) + "_cap_core " + strings.Join(append(as, extraArgs...), " ") + "\n"
		}
	}
	return out
}

// posOf names the source file only: line numbers and absolute paths would make every generated file change (and every
// proof rebuild) when a comment is added above a function or the repository is checked out elsewhere
func posOf(fset *token.FileSet, p token.Pos) string {
	return filepath.Base(fset.Position(p).Filename)
}

// File classification uses the go tool's own rules (go/build.Context.MatchFile: //go:build lines in the position Go accepts
// them, and implicit constraints in file names such as _linux.go): a file belongs to the ORDINARY build (no tags; translated
// and inspected), to the VERIF build only (the hooks: excluded, but listed in the fact `hook_decls`), or to neither
// (listed in `pkg_build_tags` — it would join the package on another platform or with another tag).
func matchFile(dir, name string, tags []string) bool {
	ctx := build.Default
	ctx.BuildTags = tags
	ctx.CgoEnabled = true
	ok, err := ctx.MatchFile(dir, name)
	return err == nil && ok
}

// onlyUnderVerifTag: in the build with -tags verif but not in the ordinary build
func onlyUnderVerifTag(path string) bool {
	dir, name := filepath.Dir(path), filepath.Base(path)
	return !matchFile(dir, name, nil) && matchFile(dir, name, []string{"verif"})
}

func main() {
	dir, ns, imp := os.Args[1], os.Args[2], os.Args[3]
	roots := os.Args[4:]
	fset := token.NewFileSet()
	pkgs, err := parser.ParseDir(fset, dir, func(fi os.FileInfo) bool {
		// every non-test file of the package is translated / inspected, except the verification hooks — recognised by their
		// build constraint (`//go:build verif`: not part of an ordinary build), never by their name
		return !strings.HasSuffix(fi.Name(), "_test.go") && matchFile(dir, fi.Name(), nil)
	}, 0)
	// what is NOT translated: the hooks (verif build only) and files of neither build — recorded as facts
	if ents, err := os.ReadDir(dir); err == nil {
		for _, e := range ents {
			n := e.Name()
			if e.IsDir() || !strings.HasSuffix(n, ".go") || strings.HasSuffix(n, "_test.go") || matchFile(dir, n, nil) {
				if !e.IsDir() && !strings.HasSuffix(n, ".go") && (strings.HasSuffix(n, ".s") || strings.HasSuffix(n, ".c") || strings.HasSuffix(n, ".h") || strings.HasSuffix(n, ".syso")) {
					otherFiles = append(otherFiles, n+":non-Go source")
				}
				continue
			}
			if !onlyUnderVerifTag(filepath.Join(dir, n)) {
				otherFiles = append(otherFiles, n+":in neither the ordinary nor the verif build")
				continue
			}
			if data, err := os.ReadFile(filepath.Join(dir, n)); err == nil {
				sum := sha256.Sum256(data)
				hookSha = append(hookSha, fmt.Sprintf("%s:%x", n, sum[:8]))
			}
			// a hooks file: its declarations (it may only ADD exported accessors named Verif…)
			hf, err := parser.ParseFile(token.NewFileSet(), filepath.Join(dir, n), nil, 0)
			if err != nil {
				hookDecls = append(hookDecls, n+":unparsable")
				continue
			}
			for _, d := range hf.Decls {
				switch x := d.(type) {
				case *ast.FuncDecl:
					kind := "func"
					if x.Recv != nil {
						kind = "method"
					}
					hookDecls = append(hookDecls, n+":"+kind+" "+x.Name.Name)
				case *ast.GenDecl:
					for _, sp := range x.Specs {
						switch y := sp.(type) {
						case *ast.ValueSpec:
							for _, nm := range y.Names {
								hookDecls = append(hookDecls, n+":"+x.Tok.String()+" "+nm.Name)
							}
						case *ast.TypeSpec:
							hookDecls = append(hookDecls, n+":type "+y.Name.Name)
						case *ast.ImportSpec:
							hookDecls = append(hookDecls, n+":import "+y.Path.Value)
						}
					}
				}
			}
		}
	}
	if err != nil {
		panic(err)
	}
	for _, p := range pkgs {
		var files []*ast.File
		var names []string
		for n := range p.Files {
			names = append(names, n)
		}
		sort.Strings(names)
		for _, n := range names {
			files = append(files, p.Files[n])
		}
		// "soft" type errors (an unused variable or import) do not change what the code means: the generated no-panic twins
		// (tools/okgen) have such leftovers. Every other type error is fatal.
		var hard []error
		conf := types.Config{Importer: importer.ForCompiler(fset, "source", nil), Error: func(err error) {
			if te, ok := err.(types.Error); !ok || !te.Soft {
				hard = append(hard, err)
			}
		}}
		info := &types.Info{Types: map[ast.Expr]types.TypeAndValue{}, Defs: map[*ast.Ident]types.Object{}, Uses: map[*ast.Ident]types.Object{}, Selections: map[*ast.SelectorExpr]*types.Selection{}}
		pkg, _ := conf.Check(p.Name, fset, files, info)
		if len(hard) > 0 || pkg == nil {
			panic(fmt.Sprint("type errors: ", hard))
		}
		// builtins and predeclared names are recognised by name below: nothing in the package may redefine one
		for id, obj := range info.Defs {
			if obj == nil {
				continue
			}
			if types.Universe.Lookup(id.Name) != nil {
				fmt.Fprintf(os.Stderr, "%s: unsupported: the package redefines the predeclared identifier %q\n", fset.Position(id.Pos()), id.Name)
				os.Exit(1)
			}
		}
		g := &gen{fset: fset, info: info, pkg: pkg, funcs: map[string]*ast.FuncDecl{}, recv: map[string]string{}, reads: map[string][]string{}, tables: map[string]*ast.ValueSpec{}, done: map[string]bool{}, ns: ns, readExprs: map[string]string{},
			errVars: map[string]int{}, errTypes: map[string]int{}, mutates: map[string]bool{}, ptrParam: map[string]bool{},
			pfuncs: map[string]bool{}, subst: map[ast.Expr]string{}, pinfos: map[string]*pfn{}}
		// error sentinels, typed errors, object fields (deterministic numbering by sorted name)
		var evs, ets []string
		scope := pkg.Scope()
		for _, n := range scope.Names() {
			switch o := scope.Lookup(n).(type) {
			case *types.Var:
				if isErrorType(o.Type()) && n != "_" {
					evs = append(evs, n)
				}
			case *types.TypeName:
				if st, ok := o.Type().Underlying().(*types.Struct); ok {
					if strings.HasPrefix(n, "Err") {
						ets = append(ets, n)
					} else if strings.HasPrefix(n, "CVSS") {
						for i := 0; i < st.NumFields(); i++ {
							g.fields = append(g.fields, st.Field(i).Name())
						}
					}
				}
			}
		}
		// stable error codes, shared with the hand-written models, the driver and the harness
		fixedVars := map[string]int{"ErrInvalidCVSSHeader": 1, "ErrTooShortVector": 2, "ErrInvalidMetricOrder": 3, "ErrInvalidMetricValue": 4, "ErrOutOfBoundsScore": 5}
		fixedTypes := map[string]int{"ErrInvalidMetric": 101, "ErrDefinedN": 102, "ErrMissing": 103}
		for i, n := range evs {
			if c, ok := fixedVars[n]; ok {
				g.errVars[n] = c
			} else {
				g.errVars[n] = 50 + i
			}
		}
		for i, n := range ets {
			if c, ok := fixedTypes[n]; ok {
				g.errTypes[n] = c
			} else {
				g.errTypes[n] = 150 + i
			}
		}
		fmt.Fprintf(os.Stderr, "error codes: %v %v fields %v\n", g.errVars, g.errTypes, g.fields)
		for _, f := range files {
			for _, d := range f.Decls {
				switch x := d.(type) {
				case *ast.FuncDecl:
					if x.Body != nil {
						prev := g.funcs[x.Name.Name]
						g.funcs[x.Name.Name] = x
						if x.Recv != nil {
							rt := x.Recv.List[0].Type
							if st, ok := rt.(*ast.StarExpr); ok {
								rt = st.X
							}
							if id, ok := rt.(*ast.Ident); ok && !strings.HasPrefix(id.Name, "CVSS") {
								delete(g.funcs, x.Name.Name)
								if prev != nil {
									g.funcs[x.Name.Name] = prev
								}
								// methods of other types are only reachable in parser mode, as "Type.Method"
								g.funcs[id.Name+"."+x.Name.Name] = x
								continue
							}
						}
						if prev != nil && x.Name.Name != "init" && x.Name.Name != "_" {
							// functions and methods of the object type share one name space in the model
							fmt.Fprintf(os.Stderr, "%s: unsupported: two declarations named %q (a function and a method, or methods of two object types)\n", fset.Position(x.Pos()), x.Name.Name)
							os.Exit(1)
						}
						if x.Recv != nil && len(x.Recv.List[0].Names) > 0 {
							rn := x.Recv.List[0].Names[0].Name
							g.recv[x.Name.Name] = rn
							ast.Inspect(x.Body, func(n ast.Node) bool {
								if as, ok := n.(*ast.AssignStmt); ok {
									for _, l := range as.Lhs {
										if sel, ok := l.(*ast.SelectorExpr); ok {
											if id, ok := sel.X.(*ast.Ident); ok && id.Name == rn {
												g.mutates[x.Name.Name] = true
											}
										}
									}
								}
								return true
							})
						} else if x.Recv == nil && len(x.Type.Params.List) > 0 {
							p := x.Type.Params.List[0]
							if st, ok := p.Type.(*ast.StarExpr); ok {
								if id, ok := st.X.(*ast.Ident); ok && strings.HasPrefix(id.Name, "CVSS") && len(p.Names) == 1 {
									g.recv[x.Name.Name] = p.Names[0].Name
									g.ptrParam[x.Name.Name] = true
								}
							}
						}
					}
				case *ast.GenDecl:
					if x.Tok == token.VAR {
						for _, sp := range x.Specs {
							vs := sp.(*ast.ValueSpec)
							for i, n := range vs.Names {
								if len(vs.Values) > i {
									if _, ok := vs.Values[i].(*ast.CompositeLit); ok {
										g.tables[n.Name] = vs
									}
								}
							}
						}
					}
				}
			}
		}
		var facts []string
		for _, r := range roots {
			switch {
			case strings.HasPrefix(r, "ext:"):
				g.pmode, g.ext = true, r[4:]
			case strings.HasPrefix(r, "fuel:"):
				g.fuel = r[5:]
			case strings.HasPrefix(r, "pfn:"):
				g.pmode = true
				g.pfuncs[r[4:]] = true
			}
		}
		for _, r := range roots {
			switch {
			case strings.HasPrefix(r, "ext:"), strings.HasPrefix(r, "fuel:"):
			case strings.HasPrefix(r, "pfn:"):
				g.need(r[4:])
			case strings.HasPrefix(r, "tbl:"):
				g.needTable(r[4:])
			case strings.HasPrefix(r, "const:"):
				n := r[6:]
				o := scope.Lookup(n)
				c, ok := o.(*types.Const)
				if !ok {
					fmt.Fprintf(os.Stderr, "unknown constant %s\n", n)
					os.Exit(2)
				}
				if c.Val().Kind() == constant.String {
					facts = append(facts, fmt.Sprintf("/-- constant %s (%s) -/\ndef const_%s : List Nat :=\n  %s\n", n, posOf(fset, c.Pos()), n, strLit(constant.StringVal(c.Val()))))
				} else {
					facts = append(facts, fmt.Sprintf("/-- constant %s (%s) -/\ndef const_%s : Nat := %s\n", n, posOf(fset, c.Pos()), n, c.Val().ExactString()))
				}
			case strings.HasPrefix(r, "hash:"):
				// normalised source text (go/printer, comments dropped) of a function the hand-written model follows
				want := r[5:]
				found := false
				for _, f := range files {
					for _, d := range f.Decls {
						fd, ok := d.(*ast.FuncDecl)
						if !ok || fd.Body == nil {
							continue
						}
						nm := fd.Name.Name
						if fd.Recv != nil {
							rt := fd.Recv.List[0].Type
							if st, ok := rt.(*ast.StarExpr); ok {
								rt = st.X
							}
							if id, ok := rt.(*ast.Ident); ok {
								nm = id.Name + "." + nm
							}
						}
						if nm != want {
							continue
						}
						found = true
						var b bytes.Buffer
						cp := *fd
						cp.Doc = nil
						printer.Fprint(&b, fset, &cp)
						sum := sha256.Sum256(b.Bytes())
						facts = append(facts, fmt.Sprintf("/-- sha256 of the printed source of %s (%s) -/\ndef srchash_%s : String := \"%x\"\n", want, posOf(fset, fd.Pos()), strings.ReplaceAll(want, ".", "_"), sum[:8]))
					}
				}
				if !found {
					facts = append(facts, fmt.Sprintf("def srchash_%s : String := \"missing\"\n", strings.ReplaceAll(want, ".", "_")))
				}
			default:
				g.need(r)
			}
		}
		g.defsOut = append(g.defsOut, facts...)
		if g.pmode {
			for _, i := range strings.Split(imp, ",") {
				fmt.Printf("import %s\n", i)
			}
			fmt.Printf("set_option linter.unusedVariables false\n/-! GENERATED from package %s (parser mode) — do not edit -/\nnamespace %s\n\n", filepath.Base(dir), ns)
			for _, d := range g.defsOut {
				fmt.Println(d)
			}
			fmt.Printf("end %s\n", ns)
			continue
		}
		g.defsOut = append(g.defsOut, stateFacts(fset, files, info, pkg)...)
		fmt.Printf("import %s\nset_option linter.unusedVariables false\nset_option maxRecDepth 100000\n/-! GENERATED from package %s — do not edit -/\nnamespace %s\n\n", imp, filepath.Base(dir), ns)
		for _, d := range g.defsOut {
			fmt.Println(d)
		}
		fmt.Printf("end %s\n", ns)
	}
}

// stateFacts lists, for the whole package (every function, translated or not), each place where shared
// (package-level) state is written, has its address taken, or has a method called on it, and each use of
// package unsafe. Property C14 (results depend on arguments only) rests on these lists being what the
// Lean side expects.
var otherFiles, hookDecls, hookSha []string // filled in main: files outside the ordinary build

func stateFacts(fset *token.FileSet, files []*ast.File, info *types.Info, pkg *types.Package) []string {
	var writes, calls, unsafes, vars []string
	isPkgVar := func(e ast.Expr) (string, bool) {
		for {
			switch x := e.(type) {
			case *ast.ParenExpr:
				e = x.X
				continue
			case *ast.IndexExpr:
				e = x.X
				continue
			case *ast.SelectorExpr:
				e = x.X
				continue
			case *ast.StarExpr:
				e = x.X
				continue
			case *ast.Ident:
				if o, ok := info.Uses[x].(*types.Var); ok && o.Parent() == pkg.Scope() {
					return x.Name, true
				}
				return "", false
			}
			return "", false
		}
	}
	for _, n := range pkg.Scope().Names() {
		if v, ok := pkg.Scope().Lookup(n).(*types.Var); ok {
			vars = append(vars, n+":"+v.Type().String())
		}
	}
	// package-level initialisers that run code (a call or a function literal), blank identifiers included; and which function
	// mentions which package-level variable — a table that gains a new reader or writer anywhere in the package (an `Error()`
	// method, an initialiser closure, a helper the translator never visits) shows up here whatever aliasing it goes through
	var varInits, varUses []string
	isPkgVarObj := func(o types.Object) bool {
		v, ok := o.(*types.Var)
		return ok && !v.IsField() && v.Parent() == pkg.Scope()
	}
	usesIn := func(who string, n ast.Node) {
		seen := map[string]bool{}
		ast.Inspect(n, func(m ast.Node) bool {
			if id, ok := m.(*ast.Ident); ok {
				if o := info.Uses[id]; o != nil && isPkgVarObj(o) && !isErrorType(o.Type()) && !seen[id.Name] {
					seen[id.Name] = true
					varUses = append(varUses, who+":"+id.Name)
				}
			}
			return true
		})
	}
	for _, f := range files {
		for _, d := range f.Decls {
			switch x := d.(type) {
			case *ast.GenDecl:
				if x.Tok != token.VAR {
					continue
				}
				for _, sp := range x.Specs {
					vs := sp.(*ast.ValueSpec)
					for i, n := range vs.Names {
						var val ast.Expr
						if i < len(vs.Values) {
							val = vs.Values[i]
						} else if len(vs.Values) == 1 {
							val = vs.Values[0]
						}
						if val == nil {
							continue
						}
						kinds := map[string]bool{}
						ast.Inspect(val, func(m ast.Node) bool {
							switch y := m.(type) {
							case *ast.FuncLit:
								kinds["funclit"] = true
							case *ast.CallExpr:
								if tv, ok := info.Types[y.Fun]; ok && tv.IsType() {
									return true // conversion
								}
								kinds["call "+types.ExprString(y.Fun)] = true
							}
							return true
						})
						if len(kinds) > 0 {
							var ks []string
							for k := range kinds {
								ks = append(ks, k)
							}
							sort.Strings(ks)
							varInits = append(varInits, n.Name+":"+strings.Join(ks, ","))
						}
						usesIn("var "+n.Name, val)
					}
				}
			case *ast.FuncDecl:
				if x.Body == nil {
					continue
				}
				who := x.Name.Name
				if x.Recv != nil {
					rt := x.Recv.List[0].Type
					if st, ok := rt.(*ast.StarExpr); ok {
						rt = st.X
					}
					if id, ok := rt.(*ast.Ident); ok {
						who = id.Name + "." + who
					}
				}
				usesIn(who, x.Body)
			}
		}
	}
	// sync.Pool variables: what `New` makes (the parser model takes "any buffer of that many slots" as the result of Get)
	var poolNew, poolUses []string
	isPool := func(name string) bool {
		v, ok := pkg.Scope().Lookup(name).(*types.Var)
		return ok && v.Type().String() == "sync.Pool"
	}
	for _, f := range files {
		for _, d := range f.Decls {
			gd, ok := d.(*ast.GenDecl)
			if !ok || gd.Tok != token.VAR {
				continue
			}
			for _, sp := range gd.Specs {
				vs := sp.(*ast.ValueSpec)
				for i, n := range vs.Names {
					if !isPool(n.Name) {
						continue
					}
					desc := n.Name + ":New=?"
					if i < len(vs.Values) {
						if cl, ok := vs.Values[i].(*ast.CompositeLit); ok {
							for _, el := range cl.Elts {
								kv, ok := el.(*ast.KeyValueExpr)
								if !ok {
									continue
								}
								if k, ok := kv.Key.(*ast.Ident); !ok || k.Name != "New" {
									continue
								}
								if fl, ok := kv.Value.(*ast.FuncLit); ok && len(fl.Body.List) == 1 {
									if rs, ok := fl.Body.List[0].(*ast.ReturnStmt); ok && len(rs.Results) == 1 {
										if call, ok := rs.Results[0].(*ast.CallExpr); ok && len(call.Args) == 2 {
											if id, ok := call.Fun.(*ast.Ident); ok && id.Name == "make" {
												if tv, ok := info.Types[call.Args[1]]; ok && tv.Value != nil {
													desc = fmt.Sprintf("%s:New=make(%s, %s)", n.Name, info.Types[call.Args[0]].Type.String(), tv.Value.ExactString())
												}
											}
										}
									}
								}
							}
						}
					}
					poolNew = append(poolNew, desc)
				}
			}
		}
	}
	for _, f := range files {
		for _, d := range f.Decls {
			fd, ok := d.(*ast.FuncDecl)
			if !ok || fd.Body == nil {
				continue
			}
			fn := fd.Name.Name
			if fd.Recv != nil {
				rt := fd.Recv.List[0].Type
				if st, ok := rt.(*ast.StarExpr); ok {
					rt = st.X
				}
				if id, ok := rt.(*ast.Ident); ok {
					fn = id.Name + "." + fn
				}
			}
			// pool dataflow: which variable receives Get's result and what is handed to Put (variables named canonically)
			gotVars := map[types.Object]string{}
			poolCall := func(e ast.Expr) (pool, method string, call *ast.CallExpr) {
				c, ok := e.(*ast.CallExpr)
				if !ok {
					return "", "", nil
				}
				sel, ok := c.Fun.(*ast.SelectorExpr)
				if !ok {
					return "", "", nil
				}
				id, ok := sel.X.(*ast.Ident)
				if !ok || !isPool(id.Name) {
					return "", "", nil
				}
				if o, ok := info.Uses[id].(*types.Var); !ok || o.Parent() != pkg.Scope() {
					return "", "", nil
				}
				return id.Name, sel.Sel.Name, c
			}
			putArg := func(c *ast.CallExpr) string {
				if len(c.Args) == 1 {
					if id, ok := c.Args[0].(*ast.Ident); ok {
						if nm, ok := gotVars[info.Uses[id]]; ok {
							return nm
						}
					}
					return "expr " + types.ExprString(c.Args[0])
				}
				return "?"
			}
			ast.Inspect(fd.Body, func(n ast.Node) bool {
				switch x := n.(type) {
				case *ast.AssignStmt:
					if len(x.Lhs) == 1 && len(x.Rhs) == 1 {
						if pl, m, _ := poolCall(x.Rhs[0]); m == "Get" {
							nm := fmt.Sprintf("v%d", len(gotVars))
							if id, ok := x.Lhs[0].(*ast.Ident); ok {
								if o := info.Defs[id]; o != nil {
									gotVars[o] = nm
								} else if o := info.Uses[id]; o != nil {
									gotVars[o] = nm
								}
							}
							poolUses = append(poolUses, fmt.Sprintf("%s:%s := %s.Get()", fn, nm, pl))
						}
					}
				case *ast.DeferStmt:
					if pl, m, c := poolCall(x.Call); m == "Put" {
						poolUses = append(poolUses, fmt.Sprintf("%s:defer %s.Put(%s)", fn, pl, putArg(c)))
					}
				case *ast.ExprStmt:
					if pl, m, c := poolCall(x.X); m == "Put" {
						poolUses = append(poolUses, fmt.Sprintf("%s:%s.Put(%s)", fn, pl, putArg(c)))
					}
				}
				return true
			})
			ast.Inspect(fd.Body, func(n ast.Node) bool {
				switch x := n.(type) {
				case *ast.AssignStmt:
					for _, l := range x.Lhs {
						if v, ok := isPkgVar(l); ok {
							writes = append(writes, fn+":"+v)
						}
					}
				case *ast.IncDecStmt:
					if v, ok := isPkgVar(x.X); ok {
						writes = append(writes, fn+":"+v)
					}
				case *ast.RangeStmt:
					if x.Tok == token.ASSIGN {
						for _, kv := range []ast.Expr{x.Key, x.Value} {
							if kv != nil {
								if v, ok := isPkgVar(kv); ok {
									writes = append(writes, fn+":"+v)
								}
							}
						}
					}
				case *ast.UnaryExpr:
					if x.Op == token.AND {
						if v, ok := isPkgVar(x.X); ok {
							writes = append(writes, fn+":&"+v)
						}
					}
				case *ast.CallExpr:
					if sel, ok := x.Fun.(*ast.SelectorExpr); ok {
						if id, ok := sel.X.(*ast.Ident); ok {
							if o, ok := info.Uses[id].(*types.Var); ok && o.Parent() == pkg.Scope() {
								calls = append(calls, fn+":"+id.Name+"."+sel.Sel.Name)
							}
							if pn, ok := info.Uses[id].(*types.PkgName); ok && pn.Imported().Path() == "unsafe" {
								unsafes = append(unsafes, fn+":unsafe."+sel.Sel.Name)
							}
						}
					}
				case *ast.GoStmt:
					calls = append(calls, fn+":go")
				}
				return true
			})
		}
	}
	lst := func(xs []string) string {
		sort.Strings(xs)
		var q []string
		for _, x := range xs {
			q = append(q, fmt.Sprintf("%q", x))
		}
		return "[" + strings.Join(q, ", ") + "]"
	}
	lstRaw := func(xs []string) string {
		var q []string
		for _, x := range xs {
			q = append(q, fmt.Sprintf("%q", x))
		}
		return "[" + strings.Join(q, ", ") + "]"
	}
	// init functions and build constraints: code that runs or exists outside what the translated functions show
	var inits, tags []string
	for _, f := range files {
		fname := fset.Position(f.Pos()).Filename
		base := fname[strings.LastIndex(fname, "/")+1:]
		for _, d := range f.Decls {
			if fd, ok := d.(*ast.FuncDecl); ok && fd.Recv == nil && fd.Name.Name == "init" {
				inits = append(inits, base+":init")
			}
		}
		if data, err := os.ReadFile(fname); err == nil {
			for _, line := range strings.Split(string(data), "\n") {
				t := strings.TrimSpace(line)
				if strings.HasPrefix(t, "package ") {
					break
				}
				if strings.HasPrefix(t, "//go:build") || strings.HasPrefix(t, "// +build") {
					tags = append(tags, base+":"+t)
				}
			}
		}
	}
	// the object type: its fields (hidden state would take part in ==) and the methods that can write through the receiver
	var ofields, ptrm []string
	for _, n := range pkg.Scope().Names() {
		tn, ok := pkg.Scope().Lookup(n).(*types.TypeName)
		if !ok || !strings.HasPrefix(n, "CVSS") {
			continue
		}
		if st, ok := tn.Type().Underlying().(*types.Struct); ok {
			for i := 0; i < st.NumFields(); i++ {
				ofields = append(ofields, st.Field(i).Name()+":"+st.Field(i).Type().String())
			}
		}
		if named, ok := tn.Type().(*types.Named); ok {
			for i := 0; i < named.NumMethods(); i++ {
				m := named.Method(i)
				if _, isPtr := m.Type().(*types.Signature).Recv().Type().(*types.Pointer); isPtr {
					ptrm = append(ptrm, m.Name())
				}
			}
		}
	}
	// what each pointer-receiver method can do to its receiver (syntactic): assign through it, take an address inside it,
	// hand the pointer to someone else, call another pointer-receiver method on it
	var ptrEffects []string
	isPtrMethod := func(name string) bool {
		for _, m := range ptrm {
			if m == name {
				return true
			}
		}
		return false
	}
	for _, f := range files {
		for _, d := range f.Decls {
			fd, ok := d.(*ast.FuncDecl)
			if !ok || fd.Body == nil || fd.Recv == nil || len(fd.Recv.List[0].Names) == 0 {
				continue
			}
			st, isPtr := fd.Recv.List[0].Type.(*ast.StarExpr)
			if !isPtr {
				continue
			}
			if id, ok := st.X.(*ast.Ident); !ok || !strings.HasPrefix(id.Name, "CVSS") {
				continue
			}
			robj := info.Defs[fd.Recv.List[0].Names[0]]
			var rooted func(e ast.Expr) bool
			rooted = func(e ast.Expr) bool {
				switch x := e.(type) {
				case *ast.Ident:
					return info.Uses[x] == robj && robj != nil
				case *ast.ParenExpr:
					return rooted(x.X)
				case *ast.SelectorExpr:
					return rooted(x.X)
				case *ast.StarExpr:
					return rooted(x.X)
				case *ast.IndexExpr:
					return rooted(x.X)
				}
				return false
			}
			eff := map[string]bool{}
			ast.Inspect(fd.Body, func(n ast.Node) bool {
				switch x := n.(type) {
				case *ast.AssignStmt:
					for _, l := range x.Lhs {
						if rooted(l) {
							eff["writes"] = true
						}
					}
					for _, r := range x.Rhs {
						if id, ok := stripParens(r).(*ast.Ident); ok && rooted(id) {
							eff["aliases"] = true
						}
					}
				case *ast.IncDecStmt:
					if rooted(x.X) {
						eff["writes"] = true
					}
				case *ast.RangeStmt:
					if x.Tok == token.ASSIGN {
						for _, kv := range []ast.Expr{x.Key, x.Value} {
							if kv != nil && rooted(kv) {
								eff["writes"] = true
							}
						}
					}
				case *ast.UnaryExpr:
					if x.Op == token.AND && rooted(x.X) {
						eff["takes-address"] = true
					}
				case *ast.CallExpr:
					for _, a := range x.Args {
						if id, ok := stripParens(a).(*ast.Ident); ok && rooted(id) {
							eff["passes-pointer"] = true
						}
					}
					if sel, ok := x.Fun.(*ast.SelectorExpr); ok {
						if id, ok := stripParens(sel.X).(*ast.Ident); ok && rooted(id) && isPtrMethod(sel.Sel.Name) {
							eff["calls:"+sel.Sel.Name] = true
						}
					}
				case *ast.ReturnStmt:
					for _, r := range x.Results {
						if id, ok := stripParens(r).(*ast.Ident); ok && rooted(id) {
							eff["returns-pointer"] = true
						}
					}
				}
				return true
			})
			var es []string
			for e := range eff {
				es = append(es, e)
			}
			sort.Strings(es)
			if len(es) == 0 {
				es = []string{"reads-only"}
			}
			ptrEffects = append(ptrEffects, fd.Name.Name+":"+strings.Join(es, ","))
		}
	}
	// functions that pre-size a buffer (`make([]T, 0, cap)`): a run-time capacity is a panic source (cap out of range) and the
	// translation drops it — allowed only where a theorem pins the capacity (`Vector`: Props/C17b `cap_eq_lenVecNN`)
	var presized []string
	// every mention of package unsafe, whatever its syntactic position (call, parenthesised conversion, type alias, field type)
	var unsafeAll []string
	for _, f := range files {
		for _, d := range f.Decls {
			who := "decl"
			if fd, ok := d.(*ast.FuncDecl); ok {
				who = fd.Name.Name
				if fd.Recv != nil {
					rt := fd.Recv.List[0].Type
					if st, ok := rt.(*ast.StarExpr); ok {
						rt = st.X
					}
					if id, ok := rt.(*ast.Ident); ok {
						who = id.Name + "." + who
					}
				}
			}
			ast.Inspect(d, func(n ast.Node) bool {
				switch x := n.(type) {
				case *ast.CallExpr:
					if id, ok := x.Fun.(*ast.Ident); ok && id.Name == "make" && len(x.Args) == 3 {
						presized = append(presized, who)
					}
				case *ast.SelectorExpr:
					if id, ok := x.X.(*ast.Ident); ok {
						if pn, ok := info.Uses[id].(*types.PkgName); ok && pn.Imported().Path() == "unsafe" {
							unsafeAll = append(unsafeAll, who+":unsafe."+x.Sel.Name)
						}
					}
				}
				return true
			})
		}
	}
	// imports of the non-test, non-hook files (a new import is how environment, time, reflection, cgo … would come in)
	impSet := map[string]bool{}
	for _, f := range files {
		for _, im := range f.Imports {
			path := strings.Trim(im.Path.Value, "\"")
			if im.Name != nil {
				path = im.Name.Name + "=" + path
			}
			impSet[path] = true
		}
	}
	var imps []string
	for k := range impSet {
		imps = append(imps, k)
	}
	return []string{
		"/-- functions containing a pre-sized buffer `make([]T, 0, cap)` (one entry per occurrence) -/\ndef pkg_presized : List String :=\n  " + lst(presized) + "\n",
		"/-- every mention of package unsafe (function or `decl`:unsafe.X, one entry per occurrence) -/\ndef pkg_unsafe_all : List String :=\n  " + lst(unsafeAll) + "\n",
		"/-- sha256 (first 16 hex digits) of each verification hooks file -/\ndef hook_sha : List String :=\n  " + lst(hookSha) + "\n",
		"/-- import paths of the package's source files (alias=path when renamed) -/\ndef pkg_imports : List String :=\n  " + lst(imps) + "\n",
		"/-- fields of the object type (name:type), in declaration order -/\ndef obj_fields : List String :=\n  " + lstRaw(ofields) + "\n",
		"/-- methods of the object type with a pointer receiver (the only ones that can change the object) -/\ndef obj_ptr_methods : List String :=\n  " + lst(ptrm) + "\n",
		"/-- what each pointer-receiver method does with its receiver: writes / takes-address / passes-pointer / aliases / returns-pointer / calls:M, or reads-only -/\ndef obj_ptr_effects : List String :=\n  " + lst(ptrEffects) + "\n",
		"/-- declarations of the verification hooks files (verif build only; not translated): they may only add accessors -/\ndef hook_decls : List String :=\n  " + lst(hookDecls) + "\n",
		"/-- files of the package directory that belong to neither the ordinary nor the verif build, and non-Go sources -/\ndef pkg_other_files : List String :=\n  " + lst(otherFiles) + "\n",
		"/-- `init` functions of the package (file:init) -/\ndef pkg_inits : List String :=\n  " + lst(inits) + "\n",
		"/-- build constraints on non-test source files other than the verification hooks (file:constraint) -/\ndef pkg_build_tags : List String :=\n  " + lst(tags) + "\n",
		"/-- package-level variables (name:type) -/\ndef pkg_vars : List String :=\n  " + lst(vars) + "\n",
		"/-- function:variable for every assignment to (or address-of) a package-level variable inside a function body -/\ndef pkg_writes : List String :=\n  " + lst(writes) + "\n",
		"/-- function:variable.method for every method call on a package-level variable; function:go for goroutine starts -/\ndef pkg_calls : List String :=\n  " + lst(calls) + "\n",
		"/-- package-level variables (blank ones included) whose initialiser runs code: name:calls and function literals in it -/\ndef pkg_var_inits : List String :=\n  " + lst(varInits) + "\n",
		"/-- function:variable for every mention of a package-level variable (other than the `error` sentinels) in a function body or initialiser -/\ndef pkg_var_uses : List String :=\n  " + lst(varUses) + "\n",
		"/-- sync.Pool variables and what their `New` makes -/\ndef pool_new : List String :=\n  " + lst(poolNew) + "\n",
		"/-- every Get (with the canonical name of the variable that receives it) and Put (with what is handed back), in source order -/\ndef pool_uses : List String :=\n  " + lstRaw(poolUses) + "\n",
		"/-- function:unsafe.X for every use of package unsafe -/\ndef pkg_unsafe : List String :=\n  " + lst(unsafes) + "\n",
	}
}

// =====================================================================================================
// Parser mode (Gen/P*.lean): ParseVector, split, splitCouple, kvm.Set.
//
// Differences from the table/straight-line mode above:
//   * every partial operation (s[i], s[a:b], table[i], *p, stores) is CHECKED: it is hoisted in front of
//     the statement that evaluates it, as `Go.index s i PANIC fun t => …` (continuation style), so an
//     out-of-range access yields the function's panic outcome; short-circuit operators whose right operand
//     is partial become an `Option Bool` computation so that the right operand is only evaluated when Go does;
//   * functions return `Go.Res fields` ((*CVSSxx, error): ok / err / panic) or `Option results` (none = panic);
//     a pointer receiver / slice parameter that is written through is passed in and returned (state passing);
//   * `for init; cond; post` loops run on `Go.forN` with fuel derived from the loop bound, `for { }` on the
//     fuel given by the `fuel:` option; running out of fuel is the panic outcome;
//   * loop bodies are lifted to named definitions `<fn>_for<k>` / `<fn>_range<k>` whose parameters are the
//     variables the body reads, so that proofs can state lemmas about one iteration;
//   * a struct of bools is the `List Bool` of its fields, a `*bool` into it is `Option Nat` (field index);
//   * `x := <sync.Pool>.Get()` binds the extra first parameter `buf`, `defer <pool>.Put(x)` is dropped.
// Anything else aborts with file:line.
// =====================================================================================================

type pfn struct {
	name    string
	lname   string
	fd      *ast.FuncDecl
	kind    string // "res" or "opt"
	resT    string
	pan     string
	recvVar string
	mutated []string // receiver / slice parameters returned in front of the results
	mutIdx  []int    // parameter index of each (-1: receiver)
	objVar  string
	poolVar string
	poolT   string
	ptrBase map[string]string
	varT    map[string]string
	declPos map[string]token.Pos
	tmpN    int
	loopN   int
	lifted  []string
	loops   map[ast.Node]string
}

func (g *gen) boolStruct(t types.Type) (*types.Struct, bool) {
	if p, ok := t.(*types.Pointer); ok {
		t = p.Elem()
	}
	n, ok := t.(*types.Named)
	if !ok {
		return nil, false
	}
	st, ok := n.Underlying().(*types.Struct)
	if !ok || st.NumFields() == 0 {
		return nil, false
	}
	for i := 0; i < st.NumFields(); i++ {
		b, ok := st.Field(i).Type().Underlying().(*types.Basic)
		if !ok || b.Info()&types.IsBoolean == 0 {
			return nil, false
		}
	}
	return st, true
}

func isObjPtr(t types.Type) bool {
	p, ok := t.(*types.Pointer)
	if !ok {
		return false
	}
	n, ok := p.Elem().(*types.Named)
	if !ok || !strings.HasPrefix(n.Obj().Name(), "CVSS") {
		return false
	}
	_, ok = n.Underlying().(*types.Struct)
	return ok
}

func isBoolPtr(t types.Type) bool {
	p, ok := t.(*types.Pointer)
	if !ok {
		return false
	}
	b, ok := p.Elem().Underlying().(*types.Basic)
	return ok && b.Info()&types.IsBoolean != 0
}

func (g *gen) pLeanType(t types.Type) string {
	if _, ok := g.boolStruct(t); ok {
		return "(List Bool)"
	}
	if isBoolPtr(t) {
		return "(Option Nat)"
	}
	return leanType(t)
}

func (g *gen) isPool(e ast.Expr) bool {
	id, ok := e.(*ast.Ident)
	if !ok {
		return false
	}
	v, ok := g.info.Uses[id].(*types.Var)
	if !ok || v.Parent() != g.pkg.Scope() {
		return false
	}
	n, ok := v.Type().(*types.Named)
	return ok && n.Obj().Pkg() != nil && n.Obj().Pkg().Path() == "sync" && n.Obj().Name() == "Pool"
}

// poolCall recognises <pool>.Get() / <pool>.Put(x)
func (g *gen) poolCall(e ast.Expr) string {
	call, ok := stripParens(e).(*ast.CallExpr)
	if !ok {
		return ""
	}
	sel, ok := call.Fun.(*ast.SelectorExpr)
	if !ok || !g.isPool(sel.X) {
		return ""
	}
	return sel.Sel.Name
}

func tupleT(ts []string) string {
	switch len(ts) {
	case 0:
		return "Unit"
	case 1:
		return ts[0]
	}
	return "(" + strings.Join(ts, " × ") + ")"
}

func mkTuple(vs []string) string {
	switch len(vs) {
	case 0:
		return "()"
	case 1:
		return vs[0]
	}
	return "(" + strings.Join(vs, ", ") + ")"
}

func pLeanFn(name string) string { return leanName(strings.ReplaceAll(name, ".", "_")) }

// pinfo analyses a parser-mode function once.
func (g *gen) pinfo(name string) *pfn {
	if f, ok := g.pinfos[name]; ok {
		return f
	}
	fd := g.funcs[name]
	if fd == nil {
		fmt.Fprintf(os.Stderr, "unknown function %s\n", name)
		os.Exit(2)
	}
	f := &pfn{name: name, lname: pLeanFn(name), fd: fd, ptrBase: map[string]string{}, varT: map[string]string{}, declPos: map[string]token.Pos{}, loops: map[ast.Node]string{}}
	g.pinfos[name] = f
	sig := g.info.Defs[fd.Name].Type().(*types.Signature)
	res := sig.Results()
	// locals
	anyVars := map[string]bool{}
	ast.Inspect(fd, func(n ast.Node) bool {
		id, ok := n.(*ast.Ident)
		if !ok {
			return true
		}
		v, ok := g.info.Defs[id].(*types.Var)
		if !ok || v.IsField() || id.Name == "_" {
			return true
		}
		if isObjPtr(v.Type()) {
			if f.objVar != "" {
				g.die(id, "second object variable %s", id.Name)
			}
			f.objVar = id.Name
			f.declPos[id.Name] = id.Pos()
			return true
		}
		t := g.pLeanType(v.Type())
		if _, isIface := v.Type().Underlying().(*types.Interface); isIface && !isErrorType(v.Type()) {
			anyVars[id.Name] = true
			t = ""
		}
		if old, ok := f.varT[id.Name]; ok && old != t {
			g.die(id, "variable %s declared twice with different types", id.Name)
		}
		if _, ok := g.boolStruct(v.Type()); ok {
			if _, dup := f.declPos[id.Name]; dup {
				g.die(id, "struct variable %s declared twice", id.Name)
			}
		}
		f.varT[id.Name] = t
		if _, ok := f.declPos[id.Name]; !ok {
			f.declPos[id.Name] = id.Pos()
		}
		return true
	})
	ast.Inspect(fd.Body, func(n ast.Node) bool {
		switch x := n.(type) {
		case *ast.TypeAssertExpr:
			if id, ok := x.X.(*ast.Ident); ok && anyVars[id.Name] && x.Type != nil {
				f.varT[id.Name] = g.pLeanType(g.info.Types[x.Type].Type)
			}
		case *ast.AssignStmt:
			if len(x.Lhs) == 1 && len(x.Rhs) == 1 {
				if id, ok := x.Lhs[0].(*ast.Ident); ok {
					if u, ok := stripParens(x.Rhs[0]).(*ast.UnaryExpr); ok && u.Op == token.AND {
						if sel, ok := u.X.(*ast.SelectorExpr); ok {
							if b, ok := sel.X.(*ast.Ident); ok {
								if old, ok := f.ptrBase[id.Name]; ok && old != b.Name {
									g.die(x, "pointer %s into two structs", id.Name)
								}
								f.ptrBase[id.Name] = b.Name
							}
						}
					}
					if g.poolCall(x.Rhs[0]) == "Get" {
						f.poolVar = id.Name
					}
				}
			}
		}
		return true
	})
	for n := range anyVars {
		if f.varT[n] == "" {
			g.die(fd, "no type assertion found for interface variable %s", n)
		}
	}
	if f.poolVar != "" {
		f.poolT = f.varT[f.poolVar]
		if _, clash := f.varT["buf"]; clash {
			g.die(fd, "local named buf clashes with the pool parameter")
		}
	}
	for n := range f.varT {
		if len(n) > 1 && (n[0] == 't' || n[0] == 'c') && strings.Trim(n[1:], "0123456789") == "" {
			g.die(fd, "local %s clashes with generated temporaries", n)
		}
	}
	// receiver
	var mutT []string
	if fd.Recv != nil {
		rv := fd.Recv.List[0]
		rt := g.info.Types[rv.Type].Type
		if _, ok := g.boolStruct(rt); !ok || len(rv.Names) != 1 {
			g.die(fd, "receiver of %s", name)
		}
		if _, isPtr := rt.(*types.Pointer); isPtr {
			f.recvVar = rv.Names[0].Name
			f.mutated = append(f.mutated, f.recvVar)
			f.mutIdx = append(f.mutIdx, -1)
			mutT = append(mutT, "(List Bool)")
		} else {
			g.die(fd, "value receiver of %s", name)
		}
	}
	// slice parameters written through
	written := map[string]bool{}
	ast.Inspect(fd.Body, func(n ast.Node) bool {
		if as, ok := n.(*ast.AssignStmt); ok {
			for _, l := range as.Lhs {
				if ix, ok := l.(*ast.IndexExpr); ok {
					if id, ok := ix.X.(*ast.Ident); ok {
						written[id.Name] = true
					}
				}
			}
		}
		return true
	})
	pi := 0
	for _, fl := range fd.Type.Params.List {
		for _, n := range fl.Names {
			if _, isSlice := g.info.Defs[n].Type().Underlying().(*types.Slice); isSlice && written[n.Name] {
				f.mutated = append(f.mutated, n.Name)
				f.mutIdx = append(f.mutIdx, pi)
				mutT = append(mutT, f.varT[n.Name])
			}
			pi++
		}
	}
	// result type
	if res.Len() == 2 && isObjPtr(res.At(0).Type()) && isErrorType(res.At(1).Type()) {
		if len(f.mutated) > 0 {
			g.die(fd, "constructor with in-out parameters")
		}
		f.kind = "res"
		var ts []string
		for range g.fields {
			ts = append(ts, "Nat")
		}
		f.resT = "(Go.Res " + tupleT(ts) + ")"
		f.pan = "Go.Res.panic"
	} else {
		f.kind = "opt"
		ts := append([]string{}, mutT...)
		for i := 0; i < res.Len(); i++ {
			if res.At(i).Name() != "" {
				g.die(fd, "named results")
			}
			ts = append(ts, g.pLeanType(res.At(i).Type()))
		}
		f.resT = "(Option " + tupleT(ts) + ")"
		f.pan = "none"
	}
	return f
}

func (g *gen) fnRef(name string) string {
	if g.pfuncs[name] {
		g.need(name)
		return g.ns + "." + pLeanFn(name)
	}
	if g.funcs[name] == nil || g.ptrParam[name] || g.recv[name] != "" {
		fmt.Fprintf(os.Stderr, "parser mode: cannot reference function %s\n", name)
		os.Exit(2)
	}
	return g.ext + "." + leanName(name)
}

func (g *gen) tmp(pfx string) string {
	n := fmt.Sprintf("%s%d", pfx, g.cur.tmpN)
	g.cur.tmpN++
	return n
}

// structVar: identifier denoting a local struct-of-bools (value or pointer receiver)
func (g *gen) structVar(e ast.Expr) (string, *types.Struct, bool) {
	id, ok := stripParens(e).(*ast.Ident)
	if !ok {
		return "", nil, false
	}
	v, ok := g.info.Uses[id].(*types.Var)
	if !ok || v.Parent() == g.pkg.Scope() {
		return "", nil, false
	}
	st, ok := g.boolStruct(v.Type())
	return id.Name, st, ok
}

func fieldIdx(st *types.Struct, name string) int {
	for i := 0; i < st.NumFields(); i++ {
		if st.Field(i).Name() == name {
			return i
		}
	}
	return -1
}

// methodKey: "Type.Method" for a method call on a local struct-of-bools variable
func (g *gen) structMethod(call *ast.CallExpr) (recv string, key string, ok bool) {
	sel, isSel := call.Fun.(*ast.SelectorExpr)
	if !isSel {
		return "", "", false
	}
	name, _, isSt := g.structVar(sel.X)
	if !isSt {
		return "", "", false
	}
	t := g.typeOf(sel.X)
	if p, isP := t.(*types.Pointer); isP {
		t = p.Elem()
	}
	return name, t.(*types.Named).Obj().Name() + "." + sel.Sel.Name, true
}

func (g *gen) objMethod(call *ast.CallExpr) (string, bool) {
	sel, ok := call.Fun.(*ast.SelectorExpr)
	if !ok {
		return "", false
	}
	id, ok := sel.X.(*ast.Ident)
	if !ok || g.cur == nil || g.cur.objVar == "" || id.Name != g.cur.objVar {
		return "", false
	}
	return sel.Sel.Name, true
}

// pexprHook: parser-mode expression forms (pure ones; partial ones are hoisted before `expr` sees them)
func (g *gen) pexprHook(e ast.Expr, en *env) (string, bool) {
	switch x := e.(type) {
	case *ast.SelectorExpr:
		if name, st, ok := g.structVar(x.X); ok {
			k := fieldIdx(st, x.Sel.Name)
			if k < 0 {
				g.die(e, "field %s", x.Sel.Name)
			}
			return fmt.Sprintf("(Go.idx %s (%d : Nat)) /- %s.%s -/", leanName(name), k, name, x.Sel.Name), true
		}
	case *ast.UnaryExpr:
		if x.Op == token.AND {
			if sel, ok := x.X.(*ast.SelectorExpr); ok {
				if name, st, ok := g.structVar(sel.X); ok {
					k := fieldIdx(st, sel.Sel.Name)
					return fmt.Sprintf("(some (%d : Nat)) /- &%s.%s -/", k, name, sel.Sel.Name), true
				}
			}
		}
	case *ast.TypeAssertExpr:
		return g.expr(x.X, en), true
	case *ast.IndexExpr, *ast.SliceExpr, *ast.StarExpr:
		g.die(e, "internal: partial expression %s was not hoisted", g.src(e))
	case *ast.Ident:
		if g.cur != nil && x.Name == g.cur.objVar {
			g.die(e, "object pointer %s used as a value", x.Name)
		}
	case *ast.CallExpr:
		if id, ok := x.Fun.(*ast.Ident); ok && g.pfuncs[id.Name] {
			g.die(e, "call of %s inside an expression", id.Name)
		}
		if _, ok := g.objMethod(x); ok {
			g.die(e, "object method call inside an expression")
		}
		if _, _, ok := g.structMethod(x); ok {
			g.die(e, "struct method call inside an expression")
		}
	}
	return "", false
}

func (g *gen) isPartial(e ast.Expr) bool {
	found := false
	ast.Inspect(e, func(n ast.Node) bool {
		switch x := n.(type) {
		case *ast.IndexExpr, *ast.SliceExpr:
			found = true
		case *ast.StarExpr:
			if tv, ok := g.info.Types[x.X]; ok && isBoolPtr(tv.Type) {
				found = true
			}
		case *ast.FuncLit:
			return false
		}
		return !found
	})
	return found
}

// effectCall: a call that must be translated as a statement (rebinds variables or may panic)
func (g *gen) effectCall(e ast.Expr) (*ast.CallExpr, bool) {
	call, ok := stripParens(e).(*ast.CallExpr)
	if !ok {
		return nil, false
	}
	if id, ok := call.Fun.(*ast.Ident); ok && g.pfuncs[id.Name] {
		return call, true
	}
	if _, ok := g.objMethod(call); ok {
		return call, true
	}
	if _, _, ok := g.structMethod(call); ok {
		return call, true
	}
	if g.poolCall(call) != "" {
		return call, true
	}
	return call, false
}

// stmtsEffect: the statements contain something merge-mode `if` cannot carry (checked operation, effect call, loop)
func (g *gen) stmtsEffect(ss []ast.Stmt) bool {
	found := false
	for _, s := range ss {
		ast.Inspect(s, func(n ast.Node) bool {
			switch x := n.(type) {
			case *ast.RangeStmt, *ast.ForStmt:
				found = true
			case ast.Expr:
				if _, ok := g.effectCall(x); ok || g.isPartial(x) {
					found = true
				}
			case *ast.AssignStmt:
				for _, l := range x.Lhs {
					switch l.(type) {
					case *ast.IndexExpr, *ast.StarExpr:
						found = true
					}
				}
			}
			return !found
		})
	}
	return found
}

// hoist emits the checked operations of e (in evaluation order) as a prefix and records the bound names.
func (g *gen) hoist(e ast.Expr, en *env, pan, ind string) string {
	if e == nil {
		return ""
	}
	e = stripParens(e)
	if !g.isPartial(e) {
		return ""
	}
	switch x := e.(type) {
	case *ast.IndexExpr:
		p := g.hoist(x.X, en, pan, ind) + g.hoist(x.Index, en, pan, ind)
		a, i := g.expr(x.X, en), g.expr(x.Index, en)
		t := g.tmp("t")
		g.subst[e] = t
		return p + fmt.Sprintf("Go.index %s %s (%s) fun %s =>\n%s", a, i, pan, t, ind)
	case *ast.SliceExpr:
		if x.Slice3 {
			g.die(e, "3-index slice")
		}
		p := g.hoist(x.X, en, pan, ind) + g.hoist(x.Low, en, pan, ind) + g.hoist(x.High, en, pan, ind)
		a := g.expr(x.X, en)
		t := g.tmp("t")
		var out string
		switch {
		case x.Low != nil && x.High != nil:
			out = fmt.Sprintf("Go.slice %s %s %s (%s) fun %s =>\n%s", a, g.expr(x.Low, en), g.expr(x.High, en), pan, t, ind)
		case x.Low != nil:
			out = fmt.Sprintf("Go.sliceFrom %s %s (%s) fun %s =>\n%s", a, g.expr(x.Low, en), pan, t, ind)
		case x.High != nil:
			out = fmt.Sprintf("Go.sliceTo %s %s (%s) fun %s =>\n%s", a, g.expr(x.High, en), pan, t, ind)
		default:
			g.die(e, "s[:]")
		}
		g.subst[e] = t
		return p + out
	case *ast.StarExpr:
		id, ok := x.X.(*ast.Ident)
		if !ok || g.cur.ptrBase[id.Name] == "" {
			g.die(e, "dereference %s", g.src(e))
		}
		t := g.tmp("t")
		g.subst[e] = t
		return fmt.Sprintf("Go.load %s %s (%s) fun %s =>\n%s", leanName(g.cur.ptrBase[id.Name]), leanName(id.Name), pan, t, ind)
	case *ast.BinaryExpr:
		if (x.Op == token.LAND || x.Op == token.LOR) && g.isPartial(x.Y) {
			p := g.hoist(x.X, en, pan, ind)
			a := g.expr(x.X, en)
			inner := g.hoist(x.Y, en, "none", ind+"    ") + "some " + g.expr(x.Y, en)
			c := g.tmp("c")
			g.subst[e] = c
			if x.Op == token.LOR {
				return p + fmt.Sprintf("match (cond %s (some true)\n%s    (%s) : Option Bool) with\n%s| none => %s\n%s| some %s =>\n%s", a, ind, inner, ind, pan, ind, c, ind)
			}
			return p + fmt.Sprintf("match (cond %s\n%s    (%s)\n%s    (some false) : Option Bool) with\n%s| none => %s\n%s| some %s =>\n%s", a, ind, inner, ind, ind, pan, ind, c, ind)
		}
		return g.hoist(x.X, en, pan, ind) + g.hoist(x.Y, en, pan, ind)
	case *ast.UnaryExpr:
		return g.hoist(x.X, en, pan, ind)
	case *ast.CallExpr:
		p := ""
		for _, a := range x.Args {
			p += g.hoist(a, en, pan, ind)
		}
		return p
	case *ast.CompositeLit:
		p := ""
		for _, el := range x.Elts {
			if kv, ok := el.(*ast.KeyValueExpr); ok {
				p += g.hoist(kv.Value, en, pan, ind)
			} else {
				p += g.hoist(el, en, pan, ind)
			}
		}
		return p
	case *ast.TypeAssertExpr:
		return g.hoist(x.X, en, pan, ind)
	}
	g.die(e, "checked operation inside %s (%T)", g.src(e), e)
	return ""
}

func (g *gen) fieldNames() []string { return append([]string{}, g.fields...) }

// pCall translates a statement-level call and binds `lhs` (the Go left-hand side names) plus whatever the
// callee writes through (object fields, receiver struct, in-out slice).
func (g *gen) pCall(call *ast.CallExpr, lhs []string, en *env, c ctx, ind string) string {
	pre := ""
	for _, a := range call.Args {
		pre += g.hoist(a, en, c.pan, ind)
	}
	var args []string
	for _, a := range call.Args {
		args = append(args, g.expr(a, en))
	}
	for i, l := range lhs {
		if l != "_" {
			lhs[i] = leanName(l)
		}
	}
	if g.poolCall(call) == "Get" {
		if len(lhs) != 1 {
			g.die(call, "pool Get")
		}
		return pre + fmt.Sprintf("let %s := buf /- %s: the pooled buffer is the extra parameter -/\n%s", lhs[0], g.src(call), ind)
	}
	if id, ok := call.Fun.(*ast.Ident); ok && g.pfuncs[id.Name] {
		pi := g.pinfo(id.Name)
		var pat []string
		for _, k := range pi.mutIdx {
			a, ok := stripParens(call.Args[k]).(*ast.Ident)
			if !ok {
				g.die(call, "in-out argument must be a variable")
			}
			pat = append(pat, leanName(a.Name))
		}
		pat = append(pat, lhs...)
		return pre + fmt.Sprintf("match (%s %s) with\n%s| none => %s\n%s| some %s =>\n%s", g.fnRef(id.Name), strings.Join(args, " "), ind, c.pan, ind, mkTuple(pat), ind)
	}
	if m, ok := g.objMethod(call); ok {
		if !g.mutates[m] {
			g.die(call, "object method %s", m)
		}
		fs := g.fieldNames()
		return pre + fmt.Sprintf("match (%s.%s %s) with\n%s| %s =>\n%s", g.ext, leanName(m), strings.Join(append(fs, args...), " "), ind, mkTuple(append(fs, lhs...)), ind)
	}
	if rv, key, ok := g.structMethod(call); ok {
		if !g.pfuncs[key] {
			g.die(call, "method %s is not translated", key)
		}
		pi := g.pinfo(key)
		if pi.recvVar == "" {
			g.die(call, "method %s", key)
		}
		pat := append([]string{leanName(rv)}, lhs...)
		return pre + fmt.Sprintf("match (%s %s) with\n%s| none => %s\n%s| some %s =>\n%s", g.fnRef(key), strings.Join(append([]string{leanName(rv)}, args...), " "), ind, c.pan, ind, mkTuple(pat), ind)
	}
	// pure multi-value call (strings.Cut, external functions)
	if len(lhs) == 0 {
		g.die(call, "call statement %s", g.src(call))
	}
	return pre + fmt.Sprintf("match %s with\n%s| %s =>\n%s", g.expr(call, en), ind, mkTuple(lhs), ind)
}

// pAssigned: variables declared outside `scope` that the nodes assign (fields of the object included),
// in first-assignment order.
func (g *gen) pAssigned(nodes []ast.Node, scope ast.Node) []string {
	f := g.cur
	var res []string
	seen := map[string]bool{}
	outside := func(p token.Pos) bool { return p < scope.Pos() || p >= scope.End() }
	add := func(n string) {
		if !seen[n] {
			seen[n] = true
			res = append(res, n)
		}
	}
	addIdent := func(e ast.Expr) {
		id, ok := stripParens(e).(*ast.Ident)
		if !ok || id.Name == "_" {
			return
		}
		if id.Name == f.objVar {
			if outside(f.declPos[f.objVar]) {
				for _, fl := range g.fields {
					add(fl)
				}
			}
			return
		}
		if v, ok := g.info.Uses[id].(*types.Var); ok && outside(v.Pos()) {
			add(id.Name)
		}
	}
	for _, nd := range nodes {
		if nd == nil {
			continue
		}
		ast.Inspect(nd, func(n ast.Node) bool {
			switch x := n.(type) {
			case *ast.AssignStmt:
				for _, l := range x.Lhs {
					switch lv := l.(type) {
					case *ast.Ident:
						addIdent(lv)
					case *ast.IndexExpr:
						addIdent(lv.X)
					case *ast.StarExpr:
						if id, ok := lv.X.(*ast.Ident); ok {
							if b := f.ptrBase[id.Name]; b != "" && outside(f.declPos[b]) {
								add(b)
							}
						}
					default:
						g.die(l, "assignment target %s", g.src(l))
					}
				}
			case *ast.IncDecStmt:
				addIdent(x.X)
			case *ast.CallExpr:
				if id, ok := x.Fun.(*ast.Ident); ok && g.pfuncs[id.Name] {
					for _, k := range g.pinfo(id.Name).mutIdx {
						addIdent(x.Args[k])
					}
				}
				if m, ok := g.objMethod(x); ok && g.mutates[m] {
					addIdent(x.Fun.(*ast.SelectorExpr).X)
				}
				if _, key, ok := g.structMethod(x); ok && g.pfuncs[key] {
					addIdent(x.Fun.(*ast.SelectorExpr).X)
				}
			}
			return true
		})
	}
	return res
}

func (g *gen) varType(n string) string {
	for _, fl := range g.fields {
		if fl == n {
			return "Nat"
		}
	}
	t, ok := g.cur.varT[n]
	if !ok || t == "" {
		fmt.Fprintf(os.Stderr, "parser mode: no type for variable %s in %s\n", n, g.cur.name)
		os.Exit(2)
	}
	return t
}

// freeVars: local variables (declared outside `scope`) that `scope` mentions, by declaration position,
// without those in `except`.
func (g *gen) freeVars(body ast.Node, scope ast.Node, except []string) []string {
	f := g.cur
	ex := map[string]bool{}
	for _, e := range except {
		ex[e] = true
	}
	type fv struct {
		n string
		p token.Pos
	}
	var vs []fv
	seen := map[string]bool{}
	outside := func(p token.Pos) bool { return p < scope.Pos() || p >= scope.End() }
	ast.Inspect(body, func(n ast.Node) bool {
		id, ok := n.(*ast.Ident)
		if !ok {
			return true
		}
		v, ok := g.info.Uses[id].(*types.Var)
		if !ok || v.IsField() || v.Parent() == g.pkg.Scope() || v.Parent() == types.Universe || !outside(v.Pos()) {
			return true
		}
		if id.Name == f.objVar {
			for i, fl := range g.fields {
				if !seen[fl] && !ex[fl] {
					seen[fl] = true
					vs = append(vs, fv{fl, v.Pos() + token.Pos(0)})
					_ = i
				}
			}
			return true
		}
		if !seen[id.Name] && !ex[id.Name] {
			seen[id.Name] = true
			vs = append(vs, fv{id.Name, v.Pos()})
		}
		return true
	})
	sort.SliceStable(vs, func(i, j int) bool { return vs[i].p < vs[j].p })
	var out []string
	for _, v := range vs {
		out = append(out, v.n)
	}
	return out
}

// loopName numbers the loops of a function in source order
func (g *gen) loopName(kind string, node ast.Node) string {
	f := g.cur
	f.loopN++
	name := fmt.Sprintf("%s_%s%d", f.lname, kind, f.loopN)
	f.loops[node] = name
	return name
}

func (g *gen) lift(name string, node ast.Node, free []string, extra string, vars []string, body string) {
	f := g.cur
	var ps, ts []string
	for _, v := range free {
		ps = append(ps, fmt.Sprintf("(%s : %s)", leanName(v), g.varType(v)))
	}
	if extra != "" {
		ps = append(ps, extra)
	}
	for _, v := range vars {
		ts = append(ts, g.varType(v))
	}
	stT := tupleT(ts)
	d := fmt.Sprintf("/-- %s: body of the loop at %s -/\ndef %s %s : %s → Go.Ctl %s %s\n  | %s =>\n    %s\n",
		f.name, posOf(g.fset, node.Pos()), name, strings.Join(ps, " "), stT, stT, f.resT, tuple(vars), body)
	f.lifted = append(f.lifted, d)
}

func leanNames(vs []string) []string {
	var r []string
	for _, v := range vs {
		r = append(r, leanName(v))
	}
	return r
}

func (g *gen) pstmts(ss []ast.Stmt, en *env, c ctx, ind string) string {
	if len(ss) == 0 {
		return c.fall
	}
	f := g.cur
	s, rest := ss[0], ss[1:]
	next := func() string { return g.pstmts(rest, en, c, ind) }
	switch x := s.(type) {
	case *ast.ReturnStmt:
		if f.kind == "res" {
			if len(x.Results) != 2 {
				g.die(s, "return")
			}
			r0, r1 := stripParens(x.Results[0]), stripParens(x.Results[1])
			if g.info.Types[r0].IsNil() {
				pre := g.hoist(r1, en, c.pan, ind)
				return pre + c.ret("Go.Res.err "+g.expr(r1, en))
			}
			if id, ok := r0.(*ast.Ident); ok && id.Name == f.objVar && g.info.Types[r1].IsNil() {
				return c.ret("Go.Res.ok " + mkTuple(g.fieldNames()))
			}
			g.die(s, "return %s", g.src(s))
		}
		pre := ""
		vals := leanNames(f.mutated)
		for _, r := range x.Results {
			pre += g.hoist(r, en, c.pan, ind)
		}
		for _, r := range x.Results {
			vals = append(vals, g.expr(r, en))
		}
		return pre + c.ret("some "+mkTuple(vals))
	case *ast.BranchStmt:
		if x.Label == nil && x.Tok == token.CONTINUE && c.cont != "" {
			return c.cont
		}
		if x.Label == nil && x.Tok == token.BREAK && c.brk != "" {
			return c.brk
		}
	case *ast.DeferStmt:
		if g.poolCall(x.Call) == "Put" {
			return fmt.Sprintf("/- %s: dropped (the buffer goes back to the pool) -/\n%s%s", g.src(s), ind, next())
		}
	case *ast.ExprStmt:
		if call, ok := g.effectCall(x.X); ok {
			return g.pCall(call, nil, en, c, ind) + next()
		}
	case *ast.DeclStmt:
		gd := x.Decl.(*ast.GenDecl)
		out := ""
		for _, sp := range gd.Specs {
			vs, ok := sp.(*ast.ValueSpec)
			if !ok {
				g.die(s, "declaration")
			}
			for i, n := range vs.Names {
				t := g.info.Defs[n].Type()
				val := zeroOf(t)
				if isBoolPtr(t) {
					val = "none /- nil -/"
				}
				if len(vs.Values) > i {
					out += g.hoist(vs.Values[i], en, c.pan, ind)
					val = g.expr(vs.Values[i], en)
				}
				out += fmt.Sprintf("let %s : %s := %s\n%s", leanName(n.Name), g.pLeanType(t), val, ind)
			}
		}
		return out + next()
	case *ast.IncDecStmt:
		id, ok := x.X.(*ast.Ident)
		if !ok || x.Tok != token.INC || !isNatLike(g.typeOf(x.X)) || g.isFloat(x.X) || g.isUint8(x.X) {
			g.die(s, "statement %s", g.src(s))
		}
		return fmt.Sprintf("let %s := (Nat.add %s (1 : Nat))\n%s%s", leanName(id.Name), leanName(id.Name), ind, next())
	case *ast.AssignStmt:
		if len(x.Rhs) == 1 {
			if call, ok := g.effectCall(x.Rhs[0]); ok || (call != nil && len(x.Lhs) > 1) {
				var lhs []string
				for _, l := range x.Lhs {
					id, ok := l.(*ast.Ident)
					if !ok {
						g.die(s, "assignment target %s", g.src(l))
					}
					lhs = append(lhs, id.Name)
				}
				return g.pCall(call, lhs, en, c, ind) + next()
			}
		}
		if len(x.Lhs) == 1 && len(x.Rhs) == 1 {
			rhsE := stripParens(x.Rhs[0])
			switch l := x.Lhs[0].(type) {
			case *ast.Ident:
				// &CVSSxx{...}: the object is its fields
				if u, ok := rhsE.(*ast.UnaryExpr); ok && u.Op == token.AND && l.Name == f.objVar {
					cl, ok := u.X.(*ast.CompositeLit)
					if !ok || x.Tok != token.DEFINE {
						g.die(s, "object allocation %s", g.src(s))
					}
					vals := map[string]string{}
					pre := ""
					for _, el := range cl.Elts {
						kv, ok := el.(*ast.KeyValueExpr)
						if !ok {
							g.die(s, "positional object literal")
						}
						pre += g.hoist(kv.Value, en, c.pan, ind)
						vals[kv.Key.(*ast.Ident).Name] = g.expr(kv.Value, en)
					}
					out := pre
					for _, fl := range g.fields {
						v, ok := vals[fl]
						if !ok {
							v = "(0 : Nat)"
						}
						out += fmt.Sprintf("let %s := %s\n%s", fl, v, ind)
					}
					return out + next()
				}
				if cl, ok := rhsE.(*ast.CompositeLit); ok {
					if st, ok := g.boolStruct(g.typeOf(cl)); ok {
						if len(cl.Elts) != 0 {
							g.die(s, "struct literal with fields")
						}
						var fs []string
						for i := 0; i < st.NumFields(); i++ {
							fs = append(fs, "false")
						}
						return fmt.Sprintf("let %s : List Bool := [%s]\n%s%s", leanName(l.Name), strings.Join(fs, ", "), ind, next())
					}
				}
				pre := g.hoist(rhsE, en, c.pan, ind)
				rhs := g.expr(rhsE, en)
				switch x.Tok {
				case token.DEFINE, token.ASSIGN:
				case token.ADD_ASSIGN:
					if !isNatLike(g.typeOf(l)) || g.isFloat(l) || g.isUint8(l) {
						g.die(s, "+= on %s", g.src(l))
					}
					rhs = fmt.Sprintf("(Nat.add %s %s)", leanName(l.Name), rhs)
				default:
					g.die(s, "assignment operator %s", x.Tok)
				}
				return pre + fmt.Sprintf("let %s := %s\n%s%s", leanName(l.Name), rhs, ind, next())
			case *ast.IndexExpr:
				id, ok := l.X.(*ast.Ident)
				if !ok || x.Tok != token.ASSIGN {
					g.die(s, "assignment target %s", g.src(l))
				}
				pre := g.hoist(l.Index, en, c.pan, ind) + g.hoist(rhsE, en, c.pan, ind)
				return pre + fmt.Sprintf("Go.setIndex %s %s %s (%s) fun %s =>\n%s%s", leanName(id.Name), g.expr(l.Index, en), g.expr(rhsE, en), c.pan, leanName(id.Name), ind, next())
			case *ast.StarExpr:
				id, ok := l.X.(*ast.Ident)
				if !ok || x.Tok != token.ASSIGN || f.ptrBase[id.Name] == "" {
					g.die(s, "assignment target %s", g.src(l))
				}
				b := leanName(f.ptrBase[id.Name])
				pre := g.hoist(rhsE, en, c.pan, ind)
				return pre + fmt.Sprintf("Go.store %s %s %s (%s) fun %s =>\n%s%s", b, leanName(id.Name), g.expr(rhsE, en), c.pan, b, ind, next())
			}
			g.die(s, "assignment target %s", g.src(x.Lhs[0]))
		}
		if len(x.Lhs) == len(x.Rhs) && x.Tok == token.DEFINE {
			out := ""
			for i := range x.Lhs {
				id, ok := x.Lhs[i].(*ast.Ident)
				if !ok {
					g.die(s, "assignment target")
				}
				out += g.hoist(x.Rhs[i], en, c.pan, ind)
				out += fmt.Sprintf("let %s := %s\n%s", leanName(id.Name), g.expr(x.Rhs[i], en), ind)
			}
			// fresh names: sequential binding is equivalent as long as no right side mentions an earlier left side
			for i := range x.Lhs {
				for j := i + 1; j < len(x.Rhs); j++ {
					nm := x.Lhs[i].(*ast.Ident).Name
					ast.Inspect(x.Rhs[j], func(n ast.Node) bool {
						if id, ok := n.(*ast.Ident); ok && id.Name == nm {
							g.die(s, "parallel assignment")
						}
						return true
					})
				}
			}
			return out + next()
		}
	case *ast.IfStmt:
		if x.Init != nil {
			cp := *x
			cp.Init = nil
			return g.pstmts(append([]ast.Stmt{x.Init, &cp}, rest...), en, c, ind)
		}
		thenS := x.Body.List
		var elseS []ast.Stmt
		if x.Else != nil {
			if b, ok := x.Else.(*ast.BlockStmt); ok {
				elseS = b.List
			} else {
				elseS = []ast.Stmt{x.Else}
			}
		}
		pre := g.hoist(x.Cond, en, c.pan, ind)
		cnd := g.expr(x.Cond, en)
		if hasControl(thenS) || hasControl(elseS) || g.stmtsEffect(thenS) || g.stmtsEffect(elseS) {
			var t string
			if terminates(thenS) {
				t = g.pstmts(thenS, en, c, ind+"  ")
			} else {
				t = g.pstmts(append(append([]ast.Stmt{}, thenS...), rest...), en, c, ind+"  ")
			}
			var e string
			if terminates(elseS) {
				e = g.pstmts(elseS, en, c, ind+"  ")
			} else {
				e = g.pstmts(append(append([]ast.Stmt{}, elseS...), rest...), en, c, ind+"  ")
			}
			return pre + fmt.Sprintf("cond %s\n%s  (%s)\n%s  (%s)", cnd, ind, t, ind, e)
		}
		var nodes []ast.Node
		for _, st := range thenS {
			nodes = append(nodes, st)
		}
		for _, st := range elseS {
			nodes = append(nodes, st)
		}
		vars := g.pAssigned(nodes, x)
		bc := ctx{fall: tuple(vars), ret: c.ret, cont: c.cont, brk: c.brk, pan: c.pan}
		t := g.pstmts(thenS, en, bc, ind+"  ")
		e := g.pstmts(elseS, en, bc, ind+"  ")
		return pre + fmt.Sprintf("match (cond %s\n%s  (%s)\n%s  (%s)) with\n%s| %s =>\n%s%s", cnd, ind, t, ind, e, ind, tuple(vars), ind, next())
	case *ast.SwitchStmt:
		if x.Init != nil {
			g.die(s, "switch form")
		}
		if x.Tag == nil {
			return g.pstmts(append([]ast.Stmt{g.taglessAsIf(x)}, rest...), en, c, ind)
		}
		pre := g.hoist(x.Tag, en, c.pan, ind)
		tag := g.expr(x.Tag, en)
		var def []ast.Stmt
		out, closeP := "", ""
		for _, cl := range x.Body.List {
			cc := cl.(*ast.CaseClause)
			if cc.List == nil {
				def = cc.Body
				continue
			}
			var cs []string
			for _, e := range cc.List {
				if g.isPartial(e) || g.isFloat(x.Tag) {
					g.die(s, "switch case %s", g.src(e))
				}
				if g.isString(x.Tag) {
					cs = append(cs, fmt.Sprintf("(Go.strEq %s %s)", tag, g.expr(e, en)))
				} else {
					cs = append(cs, fmt.Sprintf("(Nat.beq %s %s)", tag, g.expr(e, en)))
				}
			}
			for _, st := range cc.Body {
				if b, ok := st.(*ast.BranchStmt); ok && (b.Tok == token.BREAK || b.Tok == token.FALLTHROUGH) {
					g.die(st, "break/fallthrough inside switch")
				}
			}
			var b string
			if terminates(cc.Body) {
				b = g.pstmts(cc.Body, en, c, ind+"  ")
			} else {
				b = g.pstmts(append(append([]ast.Stmt{}, cc.Body...), rest...), en, c, ind+"  ")
			}
			out += fmt.Sprintf("cond (%s)\n%s  (%s)\n%s (", strings.Join(cs, " || "), ind, b, ind)
			closeP += ")"
		}
		var tail []ast.Stmt
		if terminates(def) {
			tail = def
		} else {
			tail = append(append([]ast.Stmt{}, def...), rest...)
		}
		return pre + out + g.pstmts(tail, en, c, ind+"  ") + closeP
	case *ast.RangeStmt:
		if x.Key != nil {
			if id, ok := x.Key.(*ast.Ident); !ok || id.Name != "_" {
				g.die(s, "range with key")
			}
		}
		vid, ok := x.Value.(*ast.Ident)
		if !ok || x.Tok != token.DEFINE {
			g.die(s, "range value")
		}
		if _, isSlice := g.typeOf(x.X).Underlying().(*types.Slice); !isSlice {
			g.die(s, "range over %s is not modelled (slices only: a string ranges over runes)", g.typeOf(x.X))
		}
		pre := g.hoist(x.X, en, c.pan, ind)
		xs := g.expr(x.X, en)
		vars := g.pAssigned([]ast.Node{x.Body}, x)
		st := tuple(vars)
		free := g.freeVars(x.Body, x, vars)
		name, done := f.loops[x]
		if !done {
			name = g.loopName("range", x)
			bc := ctx{fall: "Go.Ctl.next " + st, ret: func(r string) string { return "Go.Ctl.ret (" + r + ")" }, cont: "Go.Ctl.next " + st, brk: "Go.Ctl.brk " + st, pan: "Go.Ctl.ret " + f.pan}
			body := g.pstmts(x.Body.List, en, bc, "    ")
			g.lift(name, x, free, fmt.Sprintf("(%s : %s)", leanName(vid.Name), g.varType(vid.Name)), vars, body)
		}
		after := next()
		return pre + fmt.Sprintf("match Go.forRange %s %s (%s.%s %s) with\n%s| Go.Ctl.ret r => %s\n%s| Go.Ctl.brk %s => %s\n%s| Go.Ctl.next %s =>\n%s%s",
			xs, st, g.ns, name, strings.Join(leanNames(free), " "), ind, c.ret("r"), ind, st, c.pan, ind, st, ind, after)
	case *ast.ForStmt:
		pre := ""
		initVar := ""
		if x.Init != nil {
			as, ok := x.Init.(*ast.AssignStmt)
			if !ok || as.Tok != token.DEFINE || len(as.Lhs) != 1 || len(as.Rhs) != 1 || g.isPartial(as.Rhs[0]) {
				g.die(s, "for init %s", g.src(x.Init))
			}
			initVar = as.Lhs[0].(*ast.Ident).Name
			pre += fmt.Sprintf("let %s := %s\n%s", leanName(initVar), g.expr(as.Rhs[0], en), ind)
		}
		var vars []string
		if initVar != "" {
			vars = append(vars, initVar)
		}
		bodyVars := g.pAssigned([]ast.Node{x.Body}, x)
		for _, v := range g.pAssigned([]ast.Node{x.Body, x.Post}, x) {
			if v != initVar {
				vars = append(vars, v)
			}
		}
		st := tuple(vars)
		inVars := func(n string) bool {
			for _, v := range vars {
				if v == n {
					return true
				}
			}
			return false
		}
		cndF, fuel := "fun _ => true", ""
		if x.Cond == nil {
			if g.fuel == "" {
				g.die(s, "`for` without condition needs the fuel: option")
			}
			fuel = fmt.Sprintf("(%s : Nat) /- fuel of an unconditional for: translator option -/", g.fuel)
		} else {
			if g.isPartial(x.Cond) {
				g.die(s, "checked operation in loop condition")
			}
			be, ok := stripParens(x.Cond).(*ast.BinaryExpr)
			if !ok || (be.Op != token.LSS && be.Op != token.LEQ) {
				g.die(s, "loop condition %s (want v < bound or v <= bound)", g.src(x.Cond))
			}
			v, ok := stripParens(be.X).(*ast.Ident)
			inc, ok2 := x.Post.(*ast.IncDecStmt)
			if !ok || !ok2 || inc.Tok != token.INC || g.src(inc.X) != v.Name || !inVars(v.Name) {
				g.die(s, "loop must count %s up by one", g.src(be.X))
			}
			for _, bv := range bodyVars {
				if bv == v.Name {
					g.die(s, "loop variable %s assigned in the body", v.Name)
				}
			}
			ast.Inspect(be.Y, func(n ast.Node) bool {
				if id, ok := n.(*ast.Ident); ok && inVars(id.Name) {
					g.die(s, "loop bound %s changes in the loop", g.src(be.Y))
				}
				return true
			})
			// at most bound+1 iterations and one failing test
			fuel = fmt.Sprintf("(Nat.add %s (2 : Nat))", g.expr(be.Y, en))
			cndF = fmt.Sprintf("fun %s => %s", st, g.expr(x.Cond, en))
		}
		postF := "fun st => st"
		if x.Post != nil {
			pc := ctx{fall: st, ret: c.ret, pan: c.pan}
			postF = fmt.Sprintf("fun %s => %s", st, strings.ReplaceAll(g.pstmts([]ast.Stmt{x.Post}, en, pc, " "), "\n", ";"))
		}
		except := append([]string{}, vars...)
		free := g.freeVars(x.Body, x, except)
		name, done := f.loops[x]
		if !done {
			name = g.loopName("for", x)
			bc := ctx{fall: "Go.Ctl.next " + st, ret: func(r string) string { return "Go.Ctl.ret (" + r + ")" }, cont: "Go.Ctl.next " + st, brk: "Go.Ctl.brk " + st, pan: "Go.Ctl.ret " + f.pan}
			body := g.pstmts(x.Body.List, en, bc, "    ")
			g.lift(name, x, free, "", vars, body)
		}
		after := next()
		return pre + fmt.Sprintf("match Go.forN %s %s\n%s    (%s)\n%s    (%s)\n%s    (%s.%s %s) with\n%s| Go.Loop.ret r => %s\n%s| Go.Loop.fuel => %s\n%s| Go.Loop.done %s =>\n%s%s",
			fuel, st, ind, cndF, ind, postF, ind, g.ns, name, strings.Join(leanNames(free), " "), ind, c.ret("r"), ind, c.pan, ind, st, ind, after)
	}
	g.die(s, "statement %s", g.src(s))
	return ""
}

func (g *gen) emitP(name string) {
	f := g.pinfo(name)
	saved := g.cur
	g.cur = f
	defer func() { g.cur = saved }()
	fd := f.fd
	g.precheck(name, fd, false)
	en := &env{name: name, recv: "", params: map[string]string{}}
	var ps []string
	if f.poolVar != "" {
		ps = append(ps, fmt.Sprintf("(buf : %s)", f.poolT))
	}
	if f.recvVar != "" {
		ps = append(ps, fmt.Sprintf("(%s : (List Bool))", leanName(f.recvVar)))
	}
	for _, fl := range fd.Type.Params.List {
		for _, n := range fl.Names {
			ps = append(ps, fmt.Sprintf("(%s : %s)", leanName(n.Name), g.varType(n.Name)))
		}
	}
	c := ctx{ret: func(r string) string { return r }, fall: f.pan, pan: f.pan}
	body := g.pstmts(fd.Body.List, en, c, "  ")
	doc := fmt.Sprintf("/-- %s  (%s)", name, posOf(g.fset, fd.Pos()))
	if f.kind == "res" {
		doc += "\n    result: `Go.Res.ok fields` = `return obj, nil`; `Go.Res.err e` = `return nil, e`; `Go.Res.panic`"
	} else {
		var parts []string
		parts = append(parts, f.mutated...)
		doc += "\n    result: `none` = panic; `some (" + strings.Join(append(parts, "results…"), ", ") + ")`"
	}
	if f.poolVar != "" {
		doc += "\n    `buf` is what the sync.Pool hands out (stale content of earlier calls)"
	}
	doc += " -/\n"
	g.defsOut = append(g.defsOut, f.lifted...)
	g.defsOut = append(g.defsOut, doc+"def "+f.lname+" "+strings.Join(ps, " ")+" : "+f.resT+" :=\n  "+body+"\n")
}
