module gen
go 1.22.0
