#!/usr/bin/env python3
# translator self-test (`tools/gen/selftest/run.py`, run by bin/setup): each case patches a scratch copy of package 20 with a
# construct outside the translator's soundness envelope and expects a REFUSAL (exit != 0) — or, for the `translate` cases, a
# faithful translation. Scratch copies live under $TMPDIR and are removed.
import os, shutil, subprocess, sys, re, tempfile
SCRATCH = tempfile.mkdtemp(prefix='gentest')
V=os.path.dirname(os.path.dirname(os.path.dirname(os.path.dirname(os.path.abspath(__file__))))); REPO=os.environ.get('VERIF_REPO','/repo')
exe=os.path.join(V,'tools/gen/gen')
ENV=dict(os.environ, GOPROXY="off", GOSUMDB="off", GOTOOLCHAIN="local", GOWORK="off", GOFLAGS="-mod=mod")
ROOTS=["GenV20","Cvss.Base.Go","Get","Set","Vector","lenVec","BaseScore","TemporalScore","EnvironmentalScore","Impact","Exploitability","tbl:order"]
PROOTS=["GenP20","Cvss.Base.Go,Cvss.Gen.V20","ext:GenV20","pfn:ParseVector","pfn:split"]
def case(name, edit, mode='V', extra_files=None, expect='refuse', must=None):
    d=SCRATCH + '/s/20'
    shutil.rmtree(SCRATCH + '/s', ignore_errors=True)
    shutil.copytree(os.path.join(REPO,'20'), d)
    shutil.copy(os.path.join(REPO,'go.mod'), SCRATCH + '/s/go.mod')
    src=open(d+'/cvss20.go').read()
    new=edit(src)
    assert new!=src or extra_files, name+': edit did not apply'
    open(d+'/cvss20.go','w').write(new)
    for fn,txt in (extra_files or {}).items(): open(d+'/'+fn,'w').write(txt)
    b=subprocess.run(['go','build','./...'],cwd=d,env=ENV,capture_output=True,text=True)
    if b.returncode!=0:
        print(f'{name}: SKIP (does not compile): {b.stderr[:200]}'); return
    p=subprocess.run([exe,d]+(ROOTS if mode=='V' else PROOTS),capture_output=True,text=True,env=ENV)
    refused=p.returncode!=0
    msg=[l for l in p.stderr.split('\n') if 'unsupported' in l or 'panic' in l or 'unknown' in l][:1]
    ok = refused if expect=='refuse' else not refused
    if ok and must and must not in p.stdout:
        ok = False; msg = ['generated text lacks ' + must]
    print(f"{name}: {'ok' if ok else 'FAIL'} ({'refused' if refused else 'translated'}) {msg[0][:160] if msg else ''}")
    return ok
def sub(a,b,count=1):
    return lambda s: s.replace(a,b,count)
res=[]
# BaseScore body:
base_ret='return roundTo1Decimal(((0.6 * impact) + (0.4 * exploitability) - 1.5) * fimpact)'
res.append(case('closure', sub(base_ret,'f := func() float64 { return impact }\n\t'+base_ret.replace('0.6 * impact','0.6 * f()'))))
res.append(case('defer', sub(base_ret,'defer func() {}()\n\t'+base_ret)))
res.append(case('goroutine', sub(base_ret,'go func() {}()\n\t'+base_ret)))
res.append(case('label+goto', sub(base_ret,'goto L\nL:\n\t'+base_ret)))
res.append(case('int-sub', sub(base_ret,'n := len("abc") - int(cvss20.u0)\n\t_ = n\n\t'+base_ret)))
res.append(case('int16-arith', sub(base_ret,'n := int16(cvss20.u0) * 300\n\t_ = n\n\t'+base_ret)))
res.append(case('div-nonconst', sub(base_ret,'n := 7 / int(cvss20.u0)\n\t_ = n\n\t'+base_ret)))
res.append(case('xor', sub(base_ret,'n := cvss20.u0 ^ 3\n\t_ = n\n\t'+base_ret)))
res.append(case('andnot', sub(base_ret,'n := cvss20.u0 &^ 3\n\t_ = n\n\t'+base_ret)))
res.append(case('range-string', sub(base_ret,'for _, r := range "ab" {\n\t\t_ = r\n\t}\n\t'+base_ret)))
res.append(case('range-array', sub(base_ret,'for _, r := range [2]uint8{1, 2} {\n\t\t_ = r\n\t}\n\t'+base_ret)))
res.append(case('shadow-cap', lambda s: s+'\nfunc cap(s string) int { return 0 }\n'))
res.append(case('shadow-true', lambda s: s+'\nconst true = false\n'))
res.append(case('dup-name', lambda s: s+'\nfunc (cvss20 CVSS20) roundTo1Decimal() float64 { return 0 }\n'))
res.append(case('math-alias', lambda s: s.replace('\t"math"\n','\tm2 "math"\n').replace('math.','m2.') , expect='translate'))
res.append(case('math-shadowed-by-var', lambda s: s.replace('\t"math"\n','\tm2 "math"\n').replace('math.','m2.').replace('func roundTo1Decimal(x float64) float64 {','type fakeMath struct{}\n\nfunc (fakeMath) Round(x float64) float64 { return m2.Round(x) + 1 }\n\nvar math fakeMath\n\nfunc roundTo1Decimal(x float64) float64 {').replace('m2.Round(x*10)','math.Round(x*10)')))
res.append(case('untagged-zz_verif-file', lambda s: s, extra_files={'zz_verif_extra.go':'package gocvss20\n\nfunc init() { order[0] = []string{"XX"} }\n'}, expect='translate', must='zz_verif_extra.go:init'))
res.append(case('fallthrough', sub(base_ret,'switch cvss20.u0 {\n\tcase 1:\n\t\tfallthrough\n\tcase 2:\n\t\timpact = 0\n\t}\n\t'+base_ret)))
res.append(case('switch-init', sub(base_ret,'switch x := cvss20.u0; x {\n\tcase 1:\n\t}\n\t'+base_ret)))
res.append(case('method-value', sub(base_ret,'f := cvss20.Impact\n\t_ = f\n\t'+base_ret)))
res.append(case('interface-call', lambda s: s.replace(base_ret,'var e error = ErrInvalidMetricValue\n\t_ = e.Error()\n\t'+base_ret)))
res.append(case('generic', lambda s: s.replace(base_ret,base_ret.replace('0.6 * impact','0.6 * idT(impact)'))+'\nfunc idT[T any](x T) T { return x }\n'))
res.append(case('blank-assign-call', lambda s: s.replace(base_ret,'_ = sideEffect()\n\t'+base_ret)+'\nvar counter int\n\nfunc sideEffect() int { counter++; return counter }\n'))
res.append(case('dec', sub(base_ret,'n := 3\n\tn--\n\t_ = n\n\t'+base_ret)))
res.append(case('neg-float-to-int', sub(base_ret,'n := int(impact - 20)\n\t_ = n\n\t'+base_ret)))
# found by the machinery audit of round 4 (docs/AUDIT-round4.md)
res.append(case('shadowing', sub(base_ret,'if impact > 100 {\n\t\timpact := 0.0\n\t\t_ = impact\n\t}\n\t'+base_ret)))
res.append(case('local-pointer-alias', sub(base_ret,'p := &impact\n\t*p = 0\n\t'+base_ret)))
res.append(case('nil-deref', sub(base_ret,'var q *float64\n\t_ = *q\n\t'+base_ret)))
res.append(case('partial-redeclaration', sub(base_ret,'impact, t := exploitability, impact\n\t_ = t\n\t'+base_ret)))
res.append(case('break-in-switch-in-range', sub(base_ret,'for _, k := range []uint8{1, 2} {\n\t\tswitch k {\n\t\tcase 1:\n\t\t\tbreak\n\t\t}\n\t\timpact = 0\n\t}\n\t'+base_ret)))
res.append(case('make-with-length', sub(base_ret,'bb := make([]byte, 3)\n\t_ = bb\n\t'+base_ret)))
res.append(case('second-presized-buffer', lambda s: s.replace('\tb := make([]byte, 0, l)\n','\tb := make([]byte, 0, l)\n\tif l > 1000 {\n\t\tb = make([]byte, 0, 4)\n\t}\n',1)))
res.append(case('float32', sub(base_ret,'f32 := float32(impact) * 3\n\t_ = f32\n\t'+base_ret)))
res.append(case('spoofed-build-tag-comment', lambda s: s, extra_files={'doc_notes.go':'/*\nNotes.\n//go:build verif\n*/\n\npackage gocvss20\n\nimport "os"\n\nfunc init() {\n\tif os.Getenv("X") != "" {\n\t\torder[0] = []string{"XX"}\n\t}\n}\n'}, expect='translate', must='doc_notes.go:init'))
# found by the false-pass audit of round 5 (docs/AUDIT-round5.md)
res.append(case('pointer-arg-in-expression', lambda s: s.replace(base_ret,'keep := settle(&impact)\n\t'+base_ret.replace('0.6 * impact','0.6 * impact * keep'))+'\nfunc settle(w *float64) float64 {\n\tif *w == 3 {\n\t\t*w = 0.5\n\t}\n\treturn 1\n}\n'))
res.append(case('discarded-call', lambda s: s.replace(base_ret,'_ = roundTo1Decimal(impact)\n\t'+base_ret)))
res.append(case('reserved-word-collision', sub(base_ret,'e := impact\n\te_ := exploitability\n\t'+base_ret.replace('0.6 * impact','0.6 * e').replace('0.4 * exploitability','0.4 * e_'))))
res.append(case('field-name-collision', sub(base_ret,'u0 := impact\n\t'+base_ret.replace('0.6 * impact','0.6 * u0'))))
res.append(case('signed-shift-count', sub(base_ret,'sh := uint8(1) << int(cvss20.u0)\n\timpact = impact + float64(sh)\n\t'+base_ret)))
res.append(case('runtime-capacity-elsewhere', lambda s: s.replace(base_ret,'tmp := make([]byte, 0, int(cvss20.u0))\n\timpact = impact + float64(len(tmp))\n\t'+base_ret), expect='translate', must='"CVSS20.BaseScore", "CVSS20.Vector"'))
res.append(case('return-in-range-in-if', sub(base_ret,'bonus := 0.0\n\tif impact == 3 {\n\t\tfor _, t := range []float64{3} {\n\t\t\tif impact == t {\n\t\t\t\treturn 9.9\n\t\t\t}\n\t\t\tbonus = 1\n\t\t}\n\t}\n\timpact = impact + bonus\n\t'+base_ret), expect='translate', must='4023cccccccccccd'))
res.append(case('wide-overflow', sub(base_ret,'h := uint64(cvss20.u0) * 0x9E3779B97F4A7C15\n\tif h == 5 {\n\t\timpact = 0\n\t}\n\t'+base_ret)))
# found by the false-pass audit of round 6 (docs/AUDIT-round5.md, second part)
res.append(case('float-to-int-outside-idiom', sub(base_ret,'if int(impact*1000-20000)+20000 == 7217 {\n\t\timpact = 0\n\t}\n\t'+base_ret)))
res.append(case('wide-shift', sub(base_ret,'h := uint64(cvss20.u0) + 1\n\th = h << 31\n\tif h == 0 {\n\t\timpact = 0\n\t}\n\t'+base_ret)))
res.append(case('wide-add-assign-big-constant', sub(base_ret,'h := uint64(cvss20.u0)\n\th += 18446744073709551615\n\tif h == 7 {\n\t\timpact = 0\n\t}\n\t'+base_ret)))
res.append(case('wide-doubling', sub(base_ret,'h := uint64(cvss20.u0)\n\th = h + h\n\tif h == 7 {\n\t\timpact = 0\n\t}\n\t'+base_ret)))
res.append(case('table-alias-write', sub(base_ret,'g := order[1]\n\tg[0] = "X"\n\t'+base_ret)))
res.append(case('parser-struct-alias', lambda s: s.replace('\tpts := partsPtr.([]string)\n','\tpts := partsPtr.([]string)\n\tobj := CVSS20{}\n\tpo := &obj\n\t_ = po\n',1), mode='P'))
# found by the false-pass audit of round 7
res.append(case('local-named-like-table', sub(base_ret,'order := [][]string{{"X"}}\n\tif len(order[0][0]) == 1 && impact == 3 {\n\t\timpact = 0\n\t}\n\t'+base_ret)))
res.append(case('local-named-like-sentinel', sub(base_ret,'var ErrInvalidMetricValue error\n\tif ErrInvalidMetricValue != nil {\n\t\timpact = 0\n\t}\n\t'+base_ret)))
res.append(case('range-assigning-existing-variable', sub(base_ret,'hit := 0.0\n\tfor _, hit = range []float64{1} {\n\t}\n\tif hit == 1 {\n\t\timpact = 0\n\t}\n\t'+base_ret)))
res.append(case('range-assigning-field', sub(base_ret,'for _, cvss20.u0 = range []uint8{1} {\n\t}\n\t'+base_ret)))
# found by the false-pass audit of round 8
res.append(case('float-to-uint-idiom', sub(base_ret,'if uint64(impact-10.5)%5 == 0 {\n\t\timpact = 0\n\t}\n\t'+base_ret)))
res.append(case('float-to-int-idiom-exact', sub(base_ret,'if int(impact*1152921504606846976)%8192 == 0 {\n\t\timpact = 0\n\t}\n\t'+base_ret), expect='translate', must='F64.intRemZero'))
res.append(case('big-integer-constant-as-value', sub(base_ret,'n := 0x7fffffffffffffff\n\tif n+1 < n {\n\t\timpact = 0\n\t}\n\t'+base_ret)))
# found by the false-pass audit of round 9
res.append(case('wide-add-through-alias', sub(base_ret,'h := 2147483647\n\tk := h\n\th = h + k\n\tif h < 1 {\n\t\timpact = 0\n\t}\n\t'+base_ret)))
res.append(case('wide-mul-by-small-constant', sub(base_ret,'h := int(cvss20.u0)\n\th = h * 255\n\tif h < 1 {\n\t\timpact = 0\n\t}\n\t'+base_ret)))
res.append(case('wide-add-big-constant-repeated', sub(base_ret,'h := int(cvss20.u0)\n\th = h + 2147483647\n\tif h < 1 {\n\t\timpact = 0\n\t}\n\t'+base_ret)))
shutil.rmtree(SCRATCH, ignore_errors=True)
allok = all(r for r in res) and None not in res
print('translator self-test:', 'ALL OK' if allok else 'FAILURES')
sys.exit(0 if allok else 1)
